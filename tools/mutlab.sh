#!/bin/sh
# tools/mutlab.sh setup            create /tmp/mutlab (scratch worktree of /repo + scratch copy of the sim crate pointing at it)
# tools/mutlab.sh try <patch> [ID ...]   apply patch in the scratch worktree, run quick checks there, restore
# tools/mutlab.sh teardown         remove everything again
# Keeps /repo and /verif/evidence untouched, so it can run while other checks use /repo.
LAB=${LAB:-/tmp/mutlab}
case "$1" in
setup)
  rm -rf "$LAB"; mkdir -p "$LAB/verif"
  git -C /repo worktree add -q --detach "$LAB/repo" HEAD || exit 2
  cp /repo/Cargo.lock "$LAB/repo/"
  rsync -a --exclude target --exclude 'build-*.log' /verif/sim "$LAB/verif/"
  cp /verif/check /verif/known_findings.txt "$LAB/verif/"
  sed -i "s|path = \"/repo\"|path = \"$LAB/repo\"|" "$LAB/verif/sim/Cargo.toml"
  mkdir -p "$LAB/verif/evidence" "$LAB/verif/replays"
  (cd "$LAB/verif/sim" && cargo build --offline --profile checked >/dev/null 2>&1 && cargo build --offline --profile wrapping >/dev/null 2>&1) || { echo "lab build failed"; exit 2; }
  echo "lab ready at $LAB (repo at $(git -C $LAB/repo rev-parse --short HEAD))"
  ;;
sync)
  # refresh the sim sources from /verif (after editing checks) and the repo worktree to /repo HEAD
  rsync -a --exclude target --exclude 'build-*.log' --exclude Cargo.toml /verif/sim/ "$LAB/verif/sim/"
  cp /verif/check /verif/known_findings.txt "$LAB/verif/"
  git -C "$LAB/repo" checkout -q --detach "$(git -C /repo rev-parse HEAD)"
  ;;
try)
  PATCH="$2"; shift 2
  IDS="$*"; [ -z "$IDS" ] && IDS="C01 C02 C06 C07 C08 C10 C11 C13 C14 C15 C17"
  cd "$LAB/repo" || exit 2
  git checkout -q -- . ; git clean -fdq tests
  restore() { git -C "$LAB/repo" checkout -q -- . ; }
  trap restore EXIT INT TERM
  git apply "$PATCH" || { echo "patch does not apply"; exit 2; }
  if [ -z "$SKIP_SUITE" ]; then
    out=$(cargo test --workspace --no-fail-fast --offline 2>&1)
    if echo "$out" | grep -q "test result: FAILED\|^error"; then echo "SUITE: FAILS with this patch"; echo "$out" | grep "FAILED\|^error" | head -5; else echo "SUITE: passes ($(echo "$out" | grep 'test result: ok' | awk '{s+=$4} END {print s}') tests)"; fi
  fi
  rm -f "$LAB/verif/replays/"*.json
  for id in $IDS; do
    log=$(VERIF_ROOT="$LAB/verif" "$LAB/verif/check" "$id" ${TIER:-quick} 2>&1); code=$?
    nviol=$(echo "$log" | grep -c "^VIOLATION")
    echo "CHECK $id exit=$code violations_reported=$nviol $(echo "$log" | tail -1 | sed 's/.*cases, //')"
    echo "$log" | grep "^  signature\|HARNESS-ERROR" | head -8 | sed 's/^/    /'
  done
  ;;
teardown)
  git -C /repo worktree remove --force "$LAB/repo" 2>/dev/null
  rm -rf "$LAB"
  ;;
esac
