#!/bin/sh
# tools/rerun_matrix.sh <lab> <part 0|1> <of>   re-run every seeded / hand-written change against the
# current /repo HEAD and the current checks in a scratch lab (tools/mutlab.sh setup|sync first).
# Output: one block per change on stdout.
LAB="$1"; PART="$2"; OF="$3"
i=0
for d in /verif/seeded/*/; do
  id=$(basename "$d")
  i=$((i+1)); [ $((i % OF)) -eq "$PART" ] || continue
  ids=$(python3 -c "
import json,sys
m=json.load(open('$d/meta.json'))
c=m.get('checks_run',{})
keys=[]
for k,v in c.items():
    if isinstance(v,dict):
        for kk in v:
            if kk.startswith('C') and kk not in keys: keys.append(kk)
if m['property'] not in keys: keys.insert(0,m['property'])
print(' '.join(keys))")
  echo "=== $id (checks: $ids)"
  LAB="$LAB" /verif/tools/mutlab.sh try "$d/patch.diff" $ids
done
for f in /verif/tools/mutants/h*.diff; do
  i=$((i+1)); [ $((i % OF)) -eq "$PART" ] || continue
  n=$(basename "$f" .diff)
  ids=$(grep -h "=== $n " /verif/tools/mutants/RESULTS_*.txt | head -1 | sed 's/.*(checks: \(.*\))/\1/')
  [ -z "$ids" ] && ids="C01 C02"
  echo "=== $n (checks: $ids)"
  LAB="$LAB" /verif/tools/mutlab.sh try "$f" $ids
done
echo DONE
