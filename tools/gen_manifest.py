#!/usr/bin/env python3
# Regenerates MANIFEST.json from the table below (kept in one place so it is always valid).
import json
CLAIMED = {
 "C01": ("exploration", "Seeded search over muxing histories on the real Mp4Writer/Mp4Reader over a simulated disk with transparent I/O faults, against a reference model; a clean batch is evidence, not proof.", "§5 C01", "reference model and payload stamping are trusted; bounded histories", "deterministic simulation: seeded API-history search vs reference model over a fault-injecting simulated disk"),
 "C06": ("exploration", "Seeded storage-fault campaign over valid seed images (field-targeted boundary values, bit rot, lost/misdirected/replayed blocks, cuts, faults between reader calls), then every public read-side call under catch_unwind in overflow-checked and wrapping builds; aborts and stack overflows are caught as worker death.", "§5 C06", "explores the fault neighbourhood of valid images, not all byte strings", "deterministic simulation: seeded storage-fault injection + full reader API schedule, panic/abort oracle in two build profiles"),
 "C07": ("exploration", "Same campaign with per-API-call budgets on simulated stream calls and bytes (linear in the image length) and a confirmed wall-time stall detector for loops that perform no I/O; never-returning calls are caught by the supervisor heartbeat.", "§5 C07", "CPU-only loops are observed through confirmed wall time, not counted", "deterministic simulation: seeded storage-fault injection, stream-work budget oracle on the simulated disk + stall supervisor"),
 "C08": ("exploration", "Same campaign with a counting global allocator armed around every API call: single request, peak live and cumulative bytes bounded by fixed linear functions of the image length.", "§5 C08", "additive constants cover width-bounded allocations; fault neighbourhood only", "deterministic simulation: seeded storage-fault injection, allocator seam (counting GlobalAlloc) oracle"),
 "C10": ("fault_enumeration", "For each explored scenario every stream-call index x every legal fault kind is enumerated: one clean run records the calls, then one re-run per (k, fault) with exactly that fault; hard faults must surface as Error::IoError from the API call in progress, short/interrupted transfers and whole-run chunkings must be invisible. Exhaustive over (k, fault) per scenario, seeded over scenarios.", "§5 C10", "judges the API call in progress only; scenarios are seeded samples", "deterministic simulation: exhaustive single-fault enumeration over recorded stream calls of seeded scenarios"),
 "C11": ("fault_enumeration", "For each seed image every cut position (crash point) is enumerated; the prefix is opened with its own length and every sample it returns is compared with the complete file; panics and stream-work budget overruns are violations. Exhaustive over cuts per image (<= 64 KiB), seeded over images.", "§5 C11", "baseline = the library's reading of the intact image; is_sync not compared", "deterministic simulation: exhaustive crash-point (truncation) enumeration over seeded images, prefix-consistency oracle"),
 "C13": ("exploration", "Structured boundary family with seeded jitter on a sparse simulated disk: > 4 GiB outputs, start positions around 2^32 / 2^40, durations crossing 2^32; independent-parser relations plus reader offsets and read-back.", "§5 C13", "large samples are constant-byte runs; independent parser trusted", "deterministic simulation: sparse-disk boundary histories (storage seam makes >4 GiB outputs reachable), model + independent-parser oracles"),
 "C15": ("exploration", "Seeded reader call schedules with transient stream faults on one long-lived reader, compared call by call with fresh-reader answers; double muxing and double parsing compared for equality.", "§5 C15", "fresh-reader answer is the reference (relative property)", "deterministic simulation: seeded API-call schedules with transient faults vs fresh-reader baseline; repeated-run determinism"),
 "C14": ("exploration", "Seeded search over documented-domain Mp4Config/TrackConfig values plus sample histories, muxed and read back through every accessor of the real reader on the simulated disk.", "§5 C14", "durations compared with a one-tick tolerance; AAC object types >= 32 are a known finding", "deterministic simulation: seeded configuration+history search, accessor read-back vs configuration"),
 "C17": ("exploration", "Seeded hostile histories over the full value range of every public muxer argument with injected hard stream faults, each call under catch_unwind in overflow-checked and wrapping builds; worker death is caught by the supervisor.", "§5 C17", "panics are what catch_unwind or the supervisor can see; other muxer properties applied only inside their domain", "deterministic simulation: hostile API-history search with injected stream faults, panic/abort oracle in two build profiles"),
 "C02": ("exploration", "Same history space, judged only by an independent ISO-BMFF parser evaluating the structural and table relations on the output bytes.", "§5 C02", "independent parser `indep` trusted", "deterministic simulation: seeded API-history search, independent-parser oracle on the simulated disk image"),
}
NA = {
 "C03": "pure function of the file's tables: no history, fault, crash point or schedule in it; deciding it is input enumeration against a reference encoder, not simulation (the table shapes the muxer itself produces are covered under C01)",
 "C04": "pure function of one box value (encode/decode inverse, size exact): nothing to schedule or inject; bounded-exhaustive shape enumeration is the right tool, not this one",
 "C05": "byte-for-byte comparison of pure encoders with a second implementation: no schedule, fault or crash point involved",
 "C09": "pure function of init+segment bytes; the library has no fragment muxer whose call history could be simulated",
 "C12": "metamorphic relation between two inputs (layout variants): no fault, crash point or interleaving",
 "C16": "finite total functions decided by exhaustive enumeration of their domains: proof by exhaustion, the opposite of seeded search",
 "C18": "pure function of the udta/meta/ilst bytes",
}
PENDING = {}
import sys
root = "/verif"
checks = []
for pid,(cat,text,ref,note,tech) in sorted(CLAIMED.items()):
    checks.append({
        "property_id": pid,
        "quick_cmd": f"./check {pid} quick",
        "thorough_cmd": f"./check {pid} thorough",
        "evidence_file": f"/verif/evidence/{pid}.json",
        "replay_cmd_template": "./check replay {path}",
        "engine": "mp4sim",
        "level_claimed": {"category": cat, "text": text, "design_ref": ref},
        "level_note": note,
        "technique": tech,
    })
na = [{"property_id":k,"reason":v} for k,v in sorted({**NA, **PENDING}.items())]
m = {
 "version": 1,
 "setup_cmd": "cd /verif/sim && CARGO_NET_OFFLINE=true cargo build --offline --profile checked && CARGO_NET_OFFLINE=true cargo build --offline --profile wrapping",
 "hooks": {
   "guard": "mp4_verif",
   "enable": "no source hooks are needed: the simulator drives the library through its generic Read/Write/Seek parameters and a #[global_allocator] in the harness binary; the cfg name is reserved and unused",
   "baseline_off_cmd": "cd /repo && cargo test --workspace --no-fail-fast --offline",
   "source_commits": [],
   "add_only": True,
 },
 "engines": [{"name":"mp4sim","path":"/verif/sim","serves_properties":sorted(CLAIMED.keys()),"kind_free_text":"deterministic simulator: seeded scheduler of API calls, fault-injecting Read/Write/Seek seam over a sparse simulated disk, counting allocator, supervisor/worker processes, reference model + independent parser oracles, shrinking and replay files"}],
 "checks": checks,
 "not_applicable": na,
 "notes": "Technique family: deterministic simulation with fault injection. See DESIGN.md. known_findings.txt lists fixed defects (fix: commits in /repo) and known findings.",
}
json.dump(m, open(f"{root}/MANIFEST.json","w"), indent=1)
print("claimed", sorted(CLAIMED), "na", [x["property_id"] for x in na])
