#!/usr/bin/env python3
"""Builds /verif/seeded/<ID>-<x>/ (patch.diff, demo.rs, notes.txt, meta.json) from the sub-agent
deliveries in /tmp/mutants and the lab result files, and prints the kill matrix."""
import json, os, re, shutil, sys
import sys
WAVE=sys.argv[1] if len(sys.argv)>1 else '1'
SRC={'1':'/tmp/mutants','2':'/tmp/mutants2','3':'/tmp/mutants3','4':'/tmp/mutants4','5':'/tmp/mutants5','6':'/tmp/mutants6','7':'/tmp/mutants7','8':'/tmp/mutants8','9':'/tmp/mutants9'}[WAVE]
RES={'1':['/verif/tools/mutants/RESULTS_seeded_round1.txt','/verif/tools/mutants/RESULTS_round2.txt'],
     '2':['/verif/tools/mutants/RESULTS_wave2_round1.txt','/verif/tools/mutants/RESULTS_wave2_round2.txt'],
     '3':['/verif/tools/mutants/RESULTS_wave3_round1.txt','/verif/tools/mutants/RESULTS_wave3_round2.txt'],
     '4':['/verif/tools/mutants/RESULTS_wave4_round1.txt','/verif/tools/mutants/RESULTS_wave4_round2.txt'],
     '5':['/verif/tools/mutants/RESULTS_wave5_round1.txt','/verif/tools/mutants/RESULTS_wave5_round2.txt'],
     '6':['/verif/tools/mutants/RESULTS_wave6_round1.txt','/verif/tools/mutants/RESULTS_wave6_round2.txt'],
     '7':['/verif/tools/mutants/RESULTS_wave7_round1.txt','/verif/tools/mutants/RESULTS_wave7_round2.txt'],
     '8':['/verif/tools/mutants/RESULTS_wave8_round1.txt','/verif/tools/mutants/RESULTS_wave8_round2.txt'],
     '9':['/verif/tools/mutants/RESULTS_wave9_round1.txt','/verif/tools/mutants/RESULTS_wave9_round2.txt']}[WAVE]
TAG={'1':'','2':'2','3':'3','4':'4','5':'5','6':'6','7':'7','8':'8','9':'9'}[WAVE]
def parse(path):
    out={}
    if not os.path.exists(path): return out
    cur=None
    for line in open(path):
        m=re.match(r'=== (C\d+)/([abc])',line)
        if m: cur=f'{m.group(1)}-{m.group(2)}'; out.setdefault(cur,{'verify':[],'checks':{}}); continue
        if cur is None: continue
        if re.match(r'[123] ',line): out[cur]['verify'].append(line.strip())
        m=re.match(r'CHECK (C\d+) exit=(\d+) violations_reported=(\d+)',line)
        if m: out[cur]['checks'][m.group(1)]={'exit':int(m.group(2)),'violations_reported':int(m.group(3))}
    return out
r1=parse(RES[0]); r2=parse(RES[1])
os.makedirs('/verif/seeded',exist_ok=True)
rows=[]
for pid in sorted(os.listdir(SRC)):
    if not re.match(r'C\d+$',pid): continue
    for x in 'abc':
        d=f'{SRC}/{pid}/{x}'
        if not os.path.exists(f'{d}/patch.diff'): continue
        key=f'{pid}-{x}'; dst=f'/verif/seeded/{pid}-{TAG}{x}'; os.makedirs(dst,exist_ok=True)
        shutil.copy(f'{d}/patch.diff',f'{dst}/patch.diff'); shutil.copy(f'{d}/demo.rs',f'{dst}/demo.rs'); shutil.copy(f'{d}/meta.txt',f'{dst}/notes.txt')
        notes=open(f'{d}/meta.txt').read()
        needs=''
        m=re.search(r'(?:Needed to manifest|Needs|Trigger|Needed)[^:]*:(.*?)(?:\n[A-Z][a-z]+[^\n]*:|\nCommands|\Z)',notes,re.S)
        if m: needs=' '.join(m.group(1).split())
        v=(r2.get(key,{}).get('verify') or r1.get(key,{}).get('verify') or [])
        checks=dict(r1.get(key,{}).get('checks',{}))
        final=dict(checks); final.update(r2.get(key,{}).get('checks',{}))
        caught=[c for c,val in sorted(final.items()) if val['exit']==1]
        meta={'id':f'{pid}-{TAG}{x}','wave':int(WAVE),'property':pid,'breaks':open(f'{SRC}/{pid}/property.txt').read().split('\n')[0],
              'origin':'independent sub-agent given only the property text and a scratch worktree of /repo (nothing from /verif)' + ('' if WAVE=='1' else f'; wave {WAVE} was also told which changes already existed for the property and asked for rarer triggers'),
              'needs_to_manifest':needs,
              'verified_by_me':{'how':'tools/verify_seeded.sh in a scratch worktree (/tmp/mutlab/repo): pinned suite with the change, demonstration with the change, demonstration without it','result':v},
              'checks_run':{'how':'tools/mutlab.sh try <patch> <IDs> (quick tier, default seed) in the scratch lab','first_run':checks,'final':final},
              'caught_by':caught}
        json.dump(meta,open(f'{dst}/meta.json','w'),indent=1)
        rows.append((key,caught,final))
for key,caught,final in rows:
    print(f'{key:8s} caught_by={",".join(caught) or "-":20s} ran={ {c:v["exit"] for c,v in final.items()} }')
