#!/bin/sh
# tools/verify_seeded.sh <dir-with-patch.diff-and-demo.rs> <name>
# In the scratch worktree of the lab: (1) pinned suite passes WITH the change, (2) the demonstration
# FAILS with the change, (3) the demonstration PASSES without it. Prints a three-line verdict.
D="$1"; N="$2"; LAB=${LABREPO:-/tmp/mutlab/repo}
cd "$LAB" || exit 2
git checkout -q -- . ; git clean -fdq tests examples
cp "$D/demo.rs" "tests/demo_$N.rs" || exit 2
git apply "$D/patch.diff" || { echo "PATCH does not apply"; exit 2; }
out=$( (cargo test --no-fail-fast --offline --lib --test lib; cargo test --no-fail-fast --offline --doc) 2>&1)
if echo "$out" | grep -q "test result: FAILED\|^error"; then echo "1 suite WITH change: FAILS"; else echo "1 suite WITH change: passes ($(echo "$out" | grep 'test result: ok' | awk '{s+=$4} END {print s}'))"; fi
out=$(cargo test --offline --test "demo_$N" 2>&1)
if echo "$out" | grep -q "test result: FAILED\|panicked\|^error"; then echo "2 demo WITH change: FAILS (as it should)"; else echo "2 demo WITH change: passes (NOT a demonstration)"; fi
git checkout -q -- src
out=$(cargo test --offline --test "demo_$N" 2>&1)
if echo "$out" | grep -q "test result: FAILED\|^error"; then echo "3 demo WITHOUT change: FAILS (bad demo)"; echo "$out" | tail -5; else echo "3 demo WITHOUT change: passes"; fi
rm -f "tests/demo_$N.rs"
