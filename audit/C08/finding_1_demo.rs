//! C08 refutation: memory used by `Mp4Reader::read_header` grows QUADRATICALLY with the
//! length of the input, because `HvcCBox::read_box` ignores the size of the box it is
//! parsing and follows the (16-bit) NAL-unit count / length fields as far as the file goes.
//!
//! Every `trak` of the file below carries a 36-byte `hvcC` whose single array claims a few
//! NAL units.  The first unit's length field points at a "landing" further down the file,
//! and from there a chain of 16-bit lengths walks through the rest of the file up to EOF.
//! `hev1` seeks back to its own end afterwards, so the next `trak` is parsed normally and
//! does the same thing again.  K traks therefore each keep a private copy of the whole
//! remainder of the file: ~K * n/2 bytes retained for an input of n bytes.
//!
//! Only the public API + std are used.  Allocation is measured with a counting
//! `#[global_allocator]`.

use std::alloc::{GlobalAlloc, Layout, System};
use std::io::Cursor;
use std::sync::atomic::{AtomicUsize, Ordering::SeqCst};
use std::sync::Mutex;

// ---------------------------------------------------------------- counting allocator

struct Counting;

static LIVE: AtomicUsize = AtomicUsize::new(0);
static PEAK: AtomicUsize = AtomicUsize::new(0);
static MAX_REQ: AtomicUsize = AtomicUsize::new(0);

fn note_alloc(size: usize) {
    let live = LIVE.fetch_add(size, SeqCst) + size;
    PEAK.fetch_max(live, SeqCst);
    MAX_REQ.fetch_max(size, SeqCst);
}

unsafe impl GlobalAlloc for Counting {
    unsafe fn alloc(&self, l: Layout) -> *mut u8 {
        let p = System.alloc(l);
        if !p.is_null() {
            note_alloc(l.size());
        }
        p
    }
    unsafe fn alloc_zeroed(&self, l: Layout) -> *mut u8 {
        let p = System.alloc_zeroed(l);
        if !p.is_null() {
            note_alloc(l.size());
        }
        p
    }
    unsafe fn dealloc(&self, p: *mut u8, l: Layout) {
        System.dealloc(p, l);
        LIVE.fetch_sub(l.size(), SeqCst);
    }
    unsafe fn realloc(&self, p: *mut u8, l: Layout, new_size: usize) -> *mut u8 {
        let q = System.realloc(p, l, new_size);
        if !q.is_null() {
            LIVE.fetch_sub(l.size(), SeqCst);
            note_alloc(new_size);
        }
        q
    }
}

#[global_allocator]
static A: Counting = Counting;

static SERIAL: Mutex<()> = Mutex::new(());

/// (peak bytes live above the baseline, largest single request) while running `f`.
fn measure<T>(f: impl FnOnce() -> T) -> (T, usize, usize) {
    let base = LIVE.load(SeqCst);
    PEAK.store(base, SeqCst);
    MAX_REQ.store(0, SeqCst);
    let r = f();
    let peak = PEAK.load(SeqCst).saturating_sub(base);
    (r, peak, MAX_REQ.load(SeqCst))
}

// ---------------------------------------------------------------- file construction

fn bx(name: &[u8; 4], payload: &[u8]) -> Vec<u8> {
    let mut v = Vec::with_capacity(8 + payload.len());
    v.extend_from_slice(&((8 + payload.len()) as u32).to_be_bytes());
    v.extend_from_slice(name);
    v.extend_from_slice(payload);
    v
}

fn cat(parts: &[&[u8]]) -> Vec<u8> {
    parts.concat()
}

const TRAK_LEN: usize = 419;
/// offset, inside a trak, of the hvcC array's `num_nalus` (u16); the first NAL unit's
/// length (u16) follows it, and the trak ends right after that.
const TRAK_NUM_NALUS_OFF: usize = TRAK_LEN - 4;

/// A minimal, perfectly ordinary-looking hev1 video trak.  `num_nalus` and `first_len` are
/// the only two interesting fields: both are plain 16-bit fields of the hvcC record.
fn trak(track_id: u32, num_nalus: u16, first_len: u16) -> Vec<u8> {
    // tkhd v0
    let mut tkhd = vec![0u8; 84];
    tkhd[12..16].copy_from_slice(&track_id.to_be_bytes());
    let tkhd = bx(b"tkhd", &tkhd);

    // mdhd v0, timescale 1000
    let mut mdhd = vec![0u8; 24];
    mdhd[12..16].copy_from_slice(&1000u32.to_be_bytes());
    let mdhd = bx(b"mdhd", &mdhd);

    // hdlr 'vide', empty name
    let mut hdlr = vec![0u8; 25];
    hdlr[8..12].copy_from_slice(b"vide");
    let hdlr = bx(b"hdlr", &hdlr);

    let dinf = bx(b"dinf", &bx(b"dref", &[0u8; 8]));

    let stts = bx(b"stts", &[0u8; 8]);
    let stsc = bx(b"stsc", &[0u8; 8]);
    let stsz = bx(b"stsz", &[0u8; 12]);
    let stco = bx(b"stco", &[0u8; 8]);

    // hvcC: 22 bytes of configuration, num_of_arrays = 1, then one array header
    // (type byte + num_nalus) and the length of its first NAL unit.
    let mut hvcc = vec![0u8; 22];
    hvcc[0] = 1; // configuration_version
    hvcc.push(1); // num_of_arrays
    hvcc.push(0x20); // array: nal_unit_type
    hvcc.extend_from_slice(&num_nalus.to_be_bytes());
    hvcc.extend_from_slice(&first_len.to_be_bytes());
    let hvcc = bx(b"hvcC", &hvcc);

    let mut hev1 = vec![0u8; 78];
    hev1[7] = 1; // data_reference_index
    hev1.extend_from_slice(&hvcc);
    let hev1 = bx(b"hev1", &hev1);

    let mut stsd = vec![0u8; 4];
    stsd.extend_from_slice(&1u32.to_be_bytes());
    stsd.extend_from_slice(&hev1);
    let stsd = bx(b"stsd", &stsd);

    // stsd last, so that the hvcC record is the very end of the trak
    let stbl = bx(b"stbl", &cat(&[&stts, &stsc, &stsz, &stco, &stsd]));
    let minf = bx(b"minf", &cat(&[&dinf, &stbl]));
    let mdia = bx(b"mdia", &cat(&[&mdhd, &hdlr, &minf]));
    let t = bx(b"trak", &cat(&[&tkhd, &mdia]));
    assert_eq!(t.len(), TRAK_LEN);
    assert_eq!(
        &t[TRAK_NUM_NALUS_OFF..TRAK_NUM_NALUS_OFF + 2],
        &num_nalus.to_be_bytes()
    );
    t
}

const GROUP: usize = 100; // traks between two landings (100 * 419 < 65535)
const REC: usize = 2 + 65535; // one tail record: u16 length 0xFFFF + 65535 bytes

/// ftyp, moov{mvhd, K traks (a 10-byte `free` box after every 100 of them)}, mdat{tail}.
/// Every size field of every box is exact; the file is n bytes long and is handed to the
/// reader with its true length.
fn build(k_traks: usize, tail_records: usize) -> Vec<u8> {
    let ftyp = bx(b"ftyp", b"isom\0\0\0\0isom");
    let mvhd = {
        let mut p = vec![0u8; 100];
        p[12..16].copy_from_slice(&1000u32.to_be_bytes());
        bx(b"mvhd", &p)
    };

    let groups = (k_traks + GROUP - 1) / GROUP;
    let moov_len = 8 + mvhd.len() + k_traks * TRAK_LEN + groups * 10;
    let moov_start = ftyp.len();
    let traks_start = moov_start + 8 + mvhd.len();

    // absolute position of the u16 inside the `free` box that closes group g
    let landing = |g: usize| -> usize {
        let traks_before = ((g + 1) * GROUP).min(k_traks);
        traks_start + traks_before * TRAK_LEN + g * 10 + 8
    };
    let tail_start = moov_start + moov_len + 8; // mdat payload

    let mut out = Vec::new();
    out.extend_from_slice(&ftyp);
    out.extend_from_slice(&(moov_len as u32).to_be_bytes());
    out.extend_from_slice(b"moov");
    out.extend_from_slice(&mvhd);
    for g in 0..groups {
        let first = g * GROUP;
        let last = ((g + 1) * GROUP).min(k_traks);
        for i in first..last {
            let trak_start = out.len();
            assert_eq!(trak_start, traks_start + i * TRAK_LEN + g * 10);
            let data_start = trak_start + TRAK_LEN; // first NAL unit's bytes begin here
            let first_len = landing(g) - data_start;
            // 1 unit up to the landing, one per landing from there on, then the tail
            let num_nalus = 1 + (groups - g) + tail_records;
            out.extend_from_slice(&trak(i as u32 + 1, num_nalus as u16, first_len as u16));
        }
        // landing: a `free` box whose 2 payload bytes are the length of the next hop
        let here = out.len() + 8;
        assert_eq!(here, landing(g));
        let next = if g + 1 < groups {
            landing(g + 1)
        } else {
            tail_start
        };
        let hop = next - (here + 2);
        assert!(hop <= 0xFFFF);
        out.extend_from_slice(&bx(b"free", &(hop as u16).to_be_bytes()));
    }
    assert_eq!(out.len(), moov_start + moov_len);

    let mut tail = Vec::with_capacity(tail_records * REC);
    for _ in 0..tail_records {
        tail.extend_from_slice(&0xFFFFu16.to_be_bytes());
        tail.resize(tail.len() + 65535, 0xAA);
    }
    out.extend_from_slice(&bx(b"mdat", &tail));
    assert_eq!(out.len(), tail_start + tail_records * REC);
    out
}

fn open_and_measure(k_traks: usize, tail_records: usize) -> (usize, usize) {
    let file = build(k_traks, tail_records);
    let n = file.len();
    let (r, peak, _max_req) = measure(|| {
        // the reader (and everything it retains) is alive when the peak is sampled
        mp4::Mp4Reader::read_header(Cursor::new(&file[..]), n as u64).map(|rd| rd.tracks().len())
    });
    // On the unmodified crate the file is accepted (nothing in it is malformed as far as
    // the parser can tell).  A fixed crate may just as well reject it; either way the
    // memory needed to reach that verdict must stay linear in n.
    match r {
        Ok(tracks) => assert_eq!(tracks, k_traks),
        Err(e) => eprintln!("(file rejected: {})", e),
    }
    (n, peak)
}

/// The claimed bound, with very generous constants: 64 bytes of heap per input byte plus
/// 64 MiB flat.
fn linear_bound(n: usize) -> usize {
    64 * n + (64 << 20)
}

#[test]
fn open_memory_is_linear_in_input_length() {
    let _g = SERIAL.lock().unwrap();

    let (n1, peak1) = open_and_measure(250, 2);
    let (n2, peak2) = open_and_measure(500, 4);
    eprintln!(
        "n = {:>7} bytes: peak heap while opening = {:>10} bytes = {:>4} x n",
        n1,
        peak1,
        peak1 / n1
    );
    eprintln!(
        "n = {:>7} bytes: peak heap while opening = {:>10} bytes = {:>4} x n",
        n2,
        peak2,
        peak2 / n2
    );

    let mut violations = Vec::new();
    // (a) absolute: far beyond any sensible "fixed linear function of n"
    if peak2 > linear_bound(n2) {
        violations.push(format!(
            "opening a {} byte file allocated {} bytes ({} x n); generous bound 64*n + 64MiB = {}",
            n2,
            peak2,
            peak2 / n2,
            linear_bound(n2)
        ));
    }
    // (b) shape: for a linear function, doubling n (roughly) doubles the memory; allow x1.5 slack
    let growth_n = n2 as f64 / n1 as f64;
    let growth_heap = peak2 as f64 / peak1 as f64;
    if growth_heap > 1.5 * growth_n {
        violations.push(format!(
            "memory is super-linear in n: n grew x{:.2}, heap grew x{:.2}",
            growth_n, growth_heap
        ));
    }
    assert!(violations.is_empty(), "C08 violated:\n  {}", violations.join("\n  "));
}
