//! C08 refutation (single-request clause): `HvcCBox::read_box` passes the 16-bit
//! `num_nalus` field of every parameter-set array straight to `Vec::with_capacity`
//! before a single NAL unit has been read and without looking at the size of the hvcC box
//! (or of the file).  A 555-byte file makes `Mp4Reader::read_header` request one block of
//! 65535 * size_of::<HvcCArrayNalu>() = 2 MiB - about 3800 bytes of heap per input byte,
//! for data that cannot possibly be present.
//!
//! Only the public API + std are used.  Allocation is measured with a counting
//! `#[global_allocator]`.

use std::alloc::{GlobalAlloc, Layout, System};
use std::io::Cursor;
use std::sync::atomic::{AtomicUsize, Ordering::SeqCst};
use std::sync::Mutex;

// ---------------------------------------------------------------- counting allocator

struct Counting;

static LIVE: AtomicUsize = AtomicUsize::new(0);
static PEAK: AtomicUsize = AtomicUsize::new(0);
static MAX_REQ: AtomicUsize = AtomicUsize::new(0);

fn note_alloc(size: usize) {
    let live = LIVE.fetch_add(size, SeqCst) + size;
    PEAK.fetch_max(live, SeqCst);
    MAX_REQ.fetch_max(size, SeqCst);
}

unsafe impl GlobalAlloc for Counting {
    unsafe fn alloc(&self, l: Layout) -> *mut u8 {
        let p = System.alloc(l);
        if !p.is_null() {
            note_alloc(l.size());
        }
        p
    }
    unsafe fn alloc_zeroed(&self, l: Layout) -> *mut u8 {
        let p = System.alloc_zeroed(l);
        if !p.is_null() {
            note_alloc(l.size());
        }
        p
    }
    unsafe fn dealloc(&self, p: *mut u8, l: Layout) {
        System.dealloc(p, l);
        LIVE.fetch_sub(l.size(), SeqCst);
    }
    unsafe fn realloc(&self, p: *mut u8, l: Layout, new_size: usize) -> *mut u8 {
        let q = System.realloc(p, l, new_size);
        if !q.is_null() {
            LIVE.fetch_sub(l.size(), SeqCst);
            note_alloc(new_size);
        }
        q
    }
}

#[global_allocator]
static A: Counting = Counting;

static SERIAL: Mutex<()> = Mutex::new(());

/// (peak bytes live above the baseline, largest single request) while running `f`.
fn measure<T>(f: impl FnOnce() -> T) -> (T, usize, usize) {
    let base = LIVE.load(SeqCst);
    PEAK.store(base, SeqCst);
    MAX_REQ.store(0, SeqCst);
    let r = f();
    let peak = PEAK.load(SeqCst).saturating_sub(base);
    (r, peak, MAX_REQ.load(SeqCst))
}

// ---------------------------------------------------------------- file construction

fn bx(name: &[u8; 4], payload: &[u8]) -> Vec<u8> {
    let mut v = Vec::with_capacity(8 + payload.len());
    v.extend_from_slice(&((8 + payload.len()) as u32).to_be_bytes());
    v.extend_from_slice(name);
    v.extend_from_slice(payload);
    v
}

fn cat(parts: &[&[u8]]) -> Vec<u8> {
    parts.concat()
}

const TRAK_LEN: usize = 419;
/// offset, inside a trak, of the hvcC array's `num_nalus` (u16); the first NAL unit's
/// length (u16) follows it, and the trak ends right after that.
const TRAK_NUM_NALUS_OFF: usize = TRAK_LEN - 4;

/// A minimal, perfectly ordinary-looking hev1 video trak.  `num_nalus` and `first_len` are
/// the only two interesting fields: both are plain 16-bit fields of the hvcC record.
fn trak(track_id: u32, num_nalus: u16, first_len: u16) -> Vec<u8> {
    // tkhd v0
    let mut tkhd = vec![0u8; 84];
    tkhd[12..16].copy_from_slice(&track_id.to_be_bytes());
    let tkhd = bx(b"tkhd", &tkhd);

    // mdhd v0, timescale 1000
    let mut mdhd = vec![0u8; 24];
    mdhd[12..16].copy_from_slice(&1000u32.to_be_bytes());
    let mdhd = bx(b"mdhd", &mdhd);

    // hdlr 'vide', empty name
    let mut hdlr = vec![0u8; 25];
    hdlr[8..12].copy_from_slice(b"vide");
    let hdlr = bx(b"hdlr", &hdlr);

    let dinf = bx(b"dinf", &bx(b"dref", &[0u8; 8]));

    let stts = bx(b"stts", &[0u8; 8]);
    let stsc = bx(b"stsc", &[0u8; 8]);
    let stsz = bx(b"stsz", &[0u8; 12]);
    let stco = bx(b"stco", &[0u8; 8]);

    // hvcC: 22 bytes of configuration, num_of_arrays = 1, then one array header
    // (type byte + num_nalus) and the length of its first NAL unit.
    let mut hvcc = vec![0u8; 22];
    hvcc[0] = 1; // configuration_version
    hvcc.push(1); // num_of_arrays
    hvcc.push(0x20); // array: nal_unit_type
    hvcc.extend_from_slice(&num_nalus.to_be_bytes());
    hvcc.extend_from_slice(&first_len.to_be_bytes());
    let hvcc = bx(b"hvcC", &hvcc);

    let mut hev1 = vec![0u8; 78];
    hev1[7] = 1; // data_reference_index
    hev1.extend_from_slice(&hvcc);
    let hev1 = bx(b"hev1", &hev1);

    let mut stsd = vec![0u8; 4];
    stsd.extend_from_slice(&1u32.to_be_bytes());
    stsd.extend_from_slice(&hev1);
    let stsd = bx(b"stsd", &stsd);

    // stsd last, so that the hvcC record is the very end of the trak
    let stbl = bx(b"stbl", &cat(&[&stts, &stsc, &stsz, &stco, &stsd]));
    let minf = bx(b"minf", &cat(&[&dinf, &stbl]));
    let mdia = bx(b"mdia", &cat(&[&mdhd, &hdlr, &minf]));
    let t = bx(b"trak", &cat(&[&tkhd, &mdia]));
    assert_eq!(t.len(), TRAK_LEN);
    assert_eq!(
        &t[TRAK_NUM_NALUS_OFF..TRAK_NUM_NALUS_OFF + 2],
        &num_nalus.to_be_bytes()
    );
    t
}


/// ftyp + moov{mvhd, one hev1 trak}; all box sizes exact; the hvcC array claims
/// `num_nalus` NAL units but the file ends right after the first (zero-length) one.
fn build(num_nalus: u16) -> Vec<u8> {
    let ftyp = bx(b"ftyp", b"isom\0\0\0\0isom");
    let mvhd = {
        let mut p = vec![0u8; 100];
        p[12..16].copy_from_slice(&1000u32.to_be_bytes());
        bx(b"mvhd", &p)
    };
    let moov = bx(b"moov", &cat(&[&mvhd, &trak(1, num_nalus, 0)]));
    cat(&[&ftyp, &moov])
}

#[test]
fn no_single_allocation_is_driven_by_a_count_field() {
    let _g = SERIAL.lock().unwrap();

    // control: the same file with an honest count opens and needs only small blocks
    let honest = build(1);
    let n = honest.len();
    let (r, _peak, max_req_honest) =
        measure(|| mp4::Mp4Reader::read_header(Cursor::new(&honest[..]), n as u64).map(|_| ()));
    r.expect("control file opens");

    // same file, num_nalus = 0xFFFF (2 bytes differ)
    let file = build(0xFFFF);
    assert_eq!(file.len(), n);
    let (r, peak, max_req) =
        measure(|| mp4::Mp4Reader::read_header(Cursor::new(&file[..]), n as u64).map(|_| ()));
    eprintln!(
        "n = {} bytes; honest count: largest request {} bytes; num_nalus=0xFFFF: largest request {} bytes ({} x n), peak {} bytes, result {:?}",
        n,
        max_req_honest,
        max_req,
        max_req / n,
        peak,
        r.as_ref().map_err(|e| e.to_string())
    );

    // "no size, count or length field taken from the input is trusted for allocation beyond
    // the data that can actually be present": allow 64 bytes of heap per input byte + 4 KiB.
    let bound = 64 * n + 4096;
    assert!(
        max_req <= bound,
        "a {} byte input made read_header request a single block of {} bytes ({} x n); bound {}",
        n,
        max_req,
        max_req / n,
        bound
    );
}
