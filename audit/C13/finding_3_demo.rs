//! C13 demonstration (stream behaviour: one transient write error): the sample that carries
//! the cumulative duration across 2^32 ticks is accepted into the track (it stays buffered,
//! is flushed by `write_end` and reads back), the track switches to version-1 tkhd/mdhd, but
//! the movie header stays version 0 and keeps the duration from before that sample.

use mp4::*;
use std::cell::Cell;
use std::io::{self, Cursor, Seek, SeekFrom, Write};
use std::rc::Rc;

/// A sink that refuses exactly one write when armed, and is healthy otherwise.
struct Flaky {
    inner: Cursor<Vec<u8>>,
    fail_once: Rc<Cell<bool>>,
}

impl Write for Flaky {
    fn write(&mut self, buf: &[u8]) -> io::Result<usize> {
        if self.fail_once.replace(false) {
            return Err(io::Error::new(io::ErrorKind::Other, "transient failure"));
        }
        self.inner.write(buf)
    }
    fn flush(&mut self) -> io::Result<()> {
        Ok(())
    }
}

impl Seek for Flaky {
    fn seek(&mut self, pos: SeekFrom) -> io::Result<u64> {
        self.inner.seek(pos)
    }
}

fn sample(duration: u32, fill: u8) -> Mp4Sample {
    Mp4Sample {
        start_time: 0,
        duration,
        rendering_offset: 0,
        is_sync: true,
        bytes: Bytes::from(vec![fill; 32]),
    }
}

#[test]
fn movie_duration_follows_the_track_across_2_pow_32_after_a_failed_flush() {
    let fail_once = Rc::new(Cell::new(false));
    let config = Mp4Config {
        major_brand: str::parse("isom").unwrap(),
        minor_version: 512,
        compatible_brands: vec![str::parse("isom").unwrap()],
        timescale: 1000,
    };
    let sink = Flaky {
        inner: Cursor::new(Vec::new()),
        fail_once: fail_once.clone(),
    };
    let mut w = Mp4Writer::write_start(sink, &config).unwrap();
    w.add_track(&TrackConfig::from(MediaConfig::Vp9Config(Vp9Config {
        width: 320,
        height: 240,
    })))
    .unwrap();

    // just below the limit: 2^32 - 11 ticks
    w.write_sample(1, &sample(u32::MAX - 10, 1)).unwrap();
    // this sample crosses 2^32; its chunk flush fails once
    fail_once.set(true);
    assert!(w.write_sample(1, &sample(2000, 2)).is_err());
    // the stream is healthy again and the file is finished normally
    w.write_end().unwrap();

    let data = w.into_writer().inner.into_inner();
    let size = data.len() as u64;
    let mut r = Mp4Reader::read_header(Cursor::new(data), size).unwrap();

    // the sample whose write_sample call failed is in the file, intact
    assert_eq!(r.sample_count(1).unwrap(), 2);
    let s2 = r.read_sample(1, 2).unwrap().unwrap();
    assert_eq!(&s2.bytes[..], &[2u8; 32][..]);
    assert_eq!(s2.duration, 2000);

    let t = &r.tracks()[&1];
    let expected = (u32::MAX as u64 - 10) + 2000;
    assert_eq!(t.trak.mdia.mdhd.duration, expected);
    assert_eq!(t.trak.mdia.mdhd.version, 1);
    assert_eq!(t.trak.tkhd.duration, expected);
    assert_eq!(t.trak.tkhd.version, 1);

    // movie duration = longest track; it crossed 2^32, so mvhd must be version 1
    assert_eq!(
        r.moov.mvhd.duration, expected,
        "mvhd (version {}) does not cover the track (tkhd version {}, duration {})",
        r.moov.mvhd.version, t.trak.tkhd.version, t.trak.tkhd.duration
    );
    assert_eq!(r.moov.mvhd.version, 1);
}
