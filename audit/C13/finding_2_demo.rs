//! C13 demonstration: a duration of exactly 2^32 - 1 ticks ("just below the limit") is
//! written into the 32-bit (version 0) duration fields of mvhd, tkhd and mdhd, where the bit
//! pattern 0xFFFFFFFF is reserved by ISO/IEC 14496-12 for "duration cannot be determined".
//! The version-0 field can only carry real durations 0 ..= 2^32 - 2; the muxer's switch to
//! the version-1 headers is off by one (`> u32::MAX` instead of `>= u32::MAX`).

use mp4::*;
use std::io::Cursor;

fn mux(durations: &[u32]) -> Mp4Reader<Cursor<Vec<u8>>> {
    let config = Mp4Config {
        major_brand: str::parse("isom").unwrap(),
        minor_version: 512,
        compatible_brands: vec![str::parse("isom").unwrap()],
        timescale: 1000,
    };
    let mut w = Mp4Writer::write_start(Cursor::new(Vec::new()), &config).unwrap();
    // track timescale 1000 == movie timescale, so media, track and movie durations coincide
    w.add_track(&TrackConfig::from(MediaConfig::Vp9Config(Vp9Config {
        width: 320,
        height: 240,
    })))
    .unwrap();
    for (i, d) in durations.iter().enumerate() {
        w.write_sample(
            1,
            &Mp4Sample {
                start_time: 0,
                duration: *d,
                rendering_offset: 0,
                is_sync: true,
                bytes: Bytes::from(vec![i as u8 + 1; 16]),
            },
        )
        .unwrap();
    }
    w.write_end().unwrap();
    let data = w.into_writer().into_inner();
    let size = data.len() as u64;
    Mp4Reader::read_header(Cursor::new(data), size).unwrap()
}

/// A version-0 header whose duration field is all ones does not state a duration at all.
fn states_its_duration(version: u8, duration: u64) -> bool {
    !(version == 0 && duration == u32::MAX as u64)
}

#[test]
fn duration_of_u32_max_ticks_is_not_written_as_the_unknown_duration_sentinel() {
    // cumulative duration lands exactly on 2^32 - 1, once with one sample, once with two
    for durations in [vec![u32::MAX], vec![u32::MAX - 7, 7]] {
        let r = mux(&durations);
        let t = &r.tracks()[&1];
        let (mdhd, tkhd, mvhd) = (&t.trak.mdia.mdhd, &t.trak.tkhd, &r.moov.mvhd);
        assert_eq!(mdhd.duration, u32::MAX as u64);
        assert!(
            states_its_duration(mdhd.version, mdhd.duration),
            "mdhd: version 0 with duration 0xFFFFFFFF means 'unknown', not 4294967295 ticks"
        );
        assert!(
            states_its_duration(tkhd.version, tkhd.duration),
            "tkhd: version 0 with duration 0xFFFFFFFF means 'unknown', not 4294967295 ticks"
        );
        assert!(
            states_its_duration(mvhd.version, mvhd.duration),
            "mvhd: version 0 with duration 0xFFFFFFFF means 'unknown', not 4294967295 ticks"
        );
    }
}

#[test]
fn neighbours_are_fine() {
    // one tick less fits version 0, one tick more already uses version 1: only the value
    // 2^32 - 1 itself is mishandled
    let r = mux(&[u32::MAX - 1]);
    assert_eq!(r.moov.mvhd.version, 0);
    assert_eq!(r.moov.mvhd.duration, u32::MAX as u64 - 1);
    let r = mux(&[u32::MAX, 1]);
    assert_eq!(r.moov.mvhd.version, 1);
    assert_eq!(r.moov.mvhd.duration, u32::MAX as u64 + 1);
}
