use mp4::*;
use std::collections::HashMap;
use std::io::{self, Read, Seek, SeekFrom, Write};

const PAGE: usize = 1 << 16;
static ZERO: [u8; PAGE] = [0u8; PAGE];

#[derive(Default)]
struct Sparse {
    pages: HashMap<u64, Box<[u8]>>,
    pos: u64,
    len: u64,
}

impl Write for Sparse {
    fn write(&mut self, buf: &[u8]) -> io::Result<usize> {
        let mut off = 0usize;
        while off < buf.len() {
            let p = self.pos / PAGE as u64;
            let o = (self.pos % PAGE as u64) as usize;
            let n = (PAGE - o).min(buf.len() - off);
            let src = &buf[off..off + n];
            let zero = src == &ZERO[..n];
            if zero {
                if let Some(pg) = self.pages.get_mut(&p) {
                    pg[o..o + n].copy_from_slice(src);
                }
            } else {
                let pg = self
                    .pages
                    .entry(p)
                    .or_insert_with(|| vec![0u8; PAGE].into_boxed_slice());
                pg[o..o + n].copy_from_slice(src);
            }
            self.pos += n as u64;
            off += n;
        }
        if self.pos > self.len {
            self.len = self.pos;
        }
        Ok(buf.len())
    }
    fn flush(&mut self) -> io::Result<()> {
        Ok(())
    }
}

impl Read for Sparse {
    fn read(&mut self, buf: &mut [u8]) -> io::Result<usize> {
        if self.pos >= self.len {
            return Ok(0);
        }
        let avail = (self.len - self.pos).min(buf.len() as u64) as usize;
        let mut off = 0usize;
        while off < avail {
            let p = self.pos / PAGE as u64;
            let o = (self.pos % PAGE as u64) as usize;
            let n = (PAGE - o).min(avail - off);
            match self.pages.get(&p) {
                Some(pg) => buf[off..off + n].copy_from_slice(&pg[o..o + n]),
                None => buf[off..off + n].copy_from_slice(&ZERO[..n]),
            }
            self.pos += n as u64;
            off += n;
        }
        Ok(avail)
    }
}

impl Seek for Sparse {
    fn seek(&mut self, s: SeekFrom) -> io::Result<u64> {
        let np: i128 = match s {
            SeekFrom::Start(x) => x as i128,
            SeekFrom::Current(d) => self.pos as i128 + d as i128,
            SeekFrom::End(d) => self.len as i128 + d as i128,
        };
        if np < 0 || np > u64::MAX as i128 {
            return Err(io::Error::new(io::ErrorKind::InvalidInput, "bad seek"));
        }
        self.pos = np as u64;
        Ok(self.pos)
    }
}

fn config() -> Mp4Config {
    Mp4Config {
        major_brand: str::parse("isom").unwrap(),
        minor_version: 512,
        compatible_brands: vec![str::parse("isom").unwrap()],
        timescale: 1000,
    }
}

fn kinds() -> Vec<(&'static str, TrackConfig)> {
    vec![
        (
            "avc",
            TrackConfig::from(MediaConfig::AvcConfig(AvcConfig {
                width: 320,
                height: 240,
                seq_param_set: vec![0x67, 0x42, 0x00, 0x1e, 0xaa],
                pic_param_set: vec![0x68, 0xce, 0x3c, 0x80],
            })),
        ),
        (
            "hevc",
            TrackConfig::from(MediaConfig::HevcConfig(HevcConfig {
                width: 320,
                height: 240,
            })),
        ),
        (
            "vp9",
            TrackConfig::from(MediaConfig::Vp9Config(Vp9Config {
                width: 320,
                height: 240,
            })),
        ),
        (
            "aac",
            TrackConfig::from(MediaConfig::AacConfig(AacConfig {
                bitrate: 128000,
                profile: AudioObjectType::AacLowComplexity,
                freq_index: SampleFreqIndex::Freq48000,
                chan_conf: ChannelConfig::Stereo,
            })),
        ),
        ("ttxt", TrackConfig::from(MediaConfig::TtxtConfig(TtxtConfig {}))),
    ]
}

fn mk_sample(i: u32, size: usize, dur: u32) -> Mp4Sample {
    let mut v = vec![0u8; size];
    if size >= 8 {
        v[..4].copy_from_slice(&i.to_be_bytes());
        v[size - 4..].copy_from_slice(&(!i).to_be_bytes());
    }
    Mp4Sample {
        start_time: 0,
        duration: dur,
        rendering_offset: 0,
        is_sync: true,
        bytes: Bytes::from(v),
    }
}

/// write `sizes`/`durs` samples to every track (round robin), starting the output at `start`.
fn roundtrip(
    label: &str,
    start: u64,
    tracks: &[TrackConfig],
    samples: &[(usize, u32)],
    movie_ts: u32,
) -> Vec<String> {
    let mut errs = Vec::new();
    let mut s = Sparse::default();
    s.seek(SeekFrom::Start(start)).unwrap();
    let mut cfg = config();
    cfg.timescale = movie_ts;
    let mut w = Mp4Writer::write_start(s, &cfg).unwrap();
    for t in tracks {
        w.add_track(t).unwrap();
    }
    let mut expect: Vec<Vec<Mp4Sample>> = (0..tracks.len()).map(|_| Vec::new()).collect();
    let mut n = 0u32;
    for &(sz, dur) in samples {
        for (ti, _) in tracks.iter().enumerate() {
            n += 1;
            let smp = mk_sample(n, sz, dur);
            w.write_sample(ti as u32 + 1, &smp).unwrap();
            expect[ti].push(smp);
        }
    }
    w.write_end().unwrap();
    let mut s = w.into_writer();
    let end = s.len;
    s.seek(SeekFrom::Start(start)).unwrap();
    let mut r = match Mp4Reader::read_header(s, end) {
        Ok(r) => r,
        Err(e) => {
            errs.push(format!("{label}: read_header failed: {e}"));
            return errs;
        }
    };
    // movie duration
    let mut max_tk = 0u64;
    for (ti, t) in tracks.iter().enumerate() {
        let id = ti as u32 + 1;
        let tr = &r.tracks()[&id];
        let media: u64 = expect[ti].iter().map(|s| s.duration as u64).sum();
        if tr.trak.mdia.mdhd.duration != media {
            errs.push(format!(
                "{label}: track {id} mdhd.duration {} != {media}",
                tr.trak.mdia.mdhd.duration
            ));
        }
        let tk = (media as u128 * movie_ts as u128 / t.timescale as u128) as u64;
        if tr.trak.tkhd.duration != tk {
            errs.push(format!(
                "{label}: track {id} tkhd.duration {} != {tk}",
                tr.trak.tkhd.duration
            ));
        }
        max_tk = max_tk.max(tk);
        let st = &tr.trak.mdia.minf.stbl;
        let want64 = st
            .co64
            .as_ref()
            .map(|c| c.entries.iter().any(|&o| o > u32::MAX as u64));
        if st.stco.is_some() == st.co64.is_some() {
            errs.push(format!("{label}: track {id} stco/co64 both or none"));
        }
        if want64 == Some(false) {
            errs.push(format!("{label}: track {id} co64 used needlessly"));
        }
        if r.sample_count(id).unwrap() as usize != expect[ti].len() {
            errs.push(format!("{label}: track {id} sample count"));
        }
    }
    if r.moov.mvhd.duration != max_tk {
        errs.push(format!(
            "{label}: mvhd.duration {} != {max_tk}",
            r.moov.mvhd.duration
        ));
    }
    for (ti, _) in tracks.iter().enumerate() {
        let id = ti as u32 + 1;
        let mut t0 = 0u64;
        for (i, e) in expect[ti].iter().enumerate() {
            match r.read_sample(id, i as u32 + 1) {
                Ok(Some(g)) => {
                    if g.bytes != e.bytes {
                        errs.push(format!("{label}: track {id} sample {} bytes differ", i + 1));
                    }
                    if g.duration != e.duration || g.start_time != t0 {
                        errs.push(format!(
                            "{label}: track {id} sample {} time {}+{} != {}+{}",
                            i + 1,
                            g.start_time,
                            g.duration,
                            t0,
                            e.duration
                        ));
                    }
                }
                Ok(None) => errs.push(format!("{label}: track {id} sample {} None", i + 1)),
                Err(x) => errs.push(format!("{label}: track {id} sample {} err {x}", i + 1)),
            }
            t0 += e.duration as u64;
        }
    }
    errs
}

#[test]
fn start_positions() {
    let mut errs = Vec::new();
    for (name, k) in kinds() {
        for d in [-200i64, -100, -41, -40, -39, -33, -32, -31, -25, -24, -23, -17, -16, -15, -9, -8, -7, -1, 0, 1, 8, 16] {
            let start = ((1i64 << 32) + d) as u64;
            let samples: Vec<(usize, u32)> = (0..5).map(|i| (10 + i, 600)).collect();
            errs.extend(roundtrip(
                &format!("{name} start=2^32{d:+}"),
                start,
                &[k.clone()],
                &samples,
                1000,
            ));
        }
    }
    assert!(errs.is_empty(), "{:#?}", errs);
}

#[test]
fn durations() {
    let mut errs = Vec::new();
    for (name, k) in kinds() {
        for movie_ts in [1u32, 999, 1000, 1001, 90000, u32::MAX] {
            for total in [
                u32::MAX as u64 - 1,
                u32::MAX as u64,
                u32::MAX as u64 + 1,
                u32::MAX as u64 + 2,
                2 * (u32::MAX as u64),
            ] {
                let a = (total / 2) as u32;
                let b = (total - a as u64) as u32;
                errs.extend(roundtrip(
                    &format!("{name} mts={movie_ts} total={total}"),
                    0,
                    &[k.clone()],
                    &[(16, a), (17, b)],
                    movie_ts,
                ));
                // three samples, many
                let c = (total / 3) as u32;
                let d = (total - 2 * c as u64) as u32;
                errs.extend(roundtrip(
                    &format!("{name} mts={movie_ts} total3={total}"),
                    0,
                    &[k.clone()],
                    &[(16, c), (17, c), (9, d)],
                    movie_ts,
                ));
            }
        }
    }
    assert!(errs.is_empty(), "{:#?}", errs);
}

#[test]
fn big_payload() {
    // 4 GiB crossing with 64 MiB samples and a last sample tuned to hit the boundary
    let mut errs = Vec::new();
    let ks = kinds();
    for (ki, d) in [-2i64, -1, 0, 1, 2].iter().enumerate() {
        let (name, k) = &ks[ki % ks.len()];
        // ftyp = 8+8+4 = 20 bytes; mdat_pos = 20; mdat_size = 16 + payload
        let target_mdat = ((1i64 << 32) - 1 + d) as u64; // u32::MAX + d
        let payload = target_mdat - 16;
        let big = 64usize << 20;
        let nbig = (payload / big as u64) as usize - 1;
        let rest = payload - (nbig * big) as u64;
        let mut samples: Vec<(usize, u32)> = (0..nbig).map(|_| (big, 1000)).collect();
        samples.push(((rest / 2) as usize, 1000));
        samples.push(((rest - rest / 2) as usize, 1000));
        errs.extend(roundtrip(
            &format!("{name} mdat=u32max{d:+}"),
            0,
            &[k.clone()],
            &samples,
            1000,
        ));
    }
    assert!(errs.is_empty(), "{:#?}", errs);
}
