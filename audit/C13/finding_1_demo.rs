//! C13 demonstration: a sample whose length does not fit the 32-bit `stsz` entry is
//! silently truncated (`len as u32`) instead of being refused.
//!
//! The history is "one sample of 2^32 + 5 bytes, then one sample of 7 bytes" on a single
//! track: the cumulative payload lands just above the 2^32 boundary. The muxer accepts
//! both samples, switches the `mdat` box to the 64-bit size - and records the first
//! sample's size as 5. On read-back the first sample is 5 bytes long and the second one
//! is fetched from `chunk_offset + 5`, i.e. from the middle of the first sample.
//!
//! NOTE on resources: `Mp4TrackWriter::write_sample` copies every sample into its chunk
//! buffer, so no input with `len >= 2^32` can be muxed with less than 4 GiB of resident
//! memory. The source buffer below is never touched (calloc'ed, stays virtual) and the
//! output stream is sparse, so the peak is ~4 GiB and the run takes a few seconds.

use mp4::*;
use std::collections::HashMap;
use std::io::{self, Read, Seek, SeekFrom, Write};

const PAGE: usize = 1 << 16;
static ZERO: [u8; PAGE] = [0u8; PAGE];

/// Sparse in-memory stream: only pages that contain a non-zero byte are stored.
#[derive(Default)]
struct Sparse {
    pages: HashMap<u64, Box<[u8]>>,
    pos: u64,
    len: u64,
}

impl Write for Sparse {
    fn write(&mut self, buf: &[u8]) -> io::Result<usize> {
        let mut off = 0usize;
        while off < buf.len() {
            let p = self.pos / PAGE as u64;
            let o = (self.pos % PAGE as u64) as usize;
            let n = (PAGE - o).min(buf.len() - off);
            let src = &buf[off..off + n];
            if src == &ZERO[..n] {
                if let Some(pg) = self.pages.get_mut(&p) {
                    pg[o..o + n].copy_from_slice(src);
                }
            } else {
                let pg = self
                    .pages
                    .entry(p)
                    .or_insert_with(|| vec![0u8; PAGE].into_boxed_slice());
                pg[o..o + n].copy_from_slice(src);
            }
            self.pos += n as u64;
            off += n;
        }
        self.len = self.len.max(self.pos);
        Ok(buf.len())
    }
    fn flush(&mut self) -> io::Result<()> {
        Ok(())
    }
}

impl Read for Sparse {
    fn read(&mut self, buf: &mut [u8]) -> io::Result<usize> {
        if self.pos >= self.len {
            return Ok(0);
        }
        let avail = (self.len - self.pos).min(buf.len() as u64) as usize;
        let mut off = 0usize;
        while off < avail {
            let p = self.pos / PAGE as u64;
            let o = (self.pos % PAGE as u64) as usize;
            let n = (PAGE - o).min(avail - off);
            match self.pages.get(&p) {
                Some(pg) => buf[off..off + n].copy_from_slice(&pg[o..o + n]),
                None => buf[off..off + n].copy_from_slice(&ZERO[..n]),
            }
            self.pos += n as u64;
            off += n;
        }
        Ok(avail)
    }
}

impl Seek for Sparse {
    fn seek(&mut self, s: SeekFrom) -> io::Result<u64> {
        let np: i128 = match s {
            SeekFrom::Start(x) => x as i128,
            SeekFrom::Current(d) => self.pos as i128 + d as i128,
            SeekFrom::End(d) => self.len as i128 + d as i128,
        };
        if np < 0 || np > u64::MAX as i128 {
            return Err(io::Error::new(io::ErrorKind::InvalidInput, "bad seek"));
        }
        self.pos = np as u64;
        Ok(self.pos)
    }
}

#[test]
fn sample_longer_than_u32_is_refused_or_read_back_intact() {
    let config = Mp4Config {
        major_brand: str::parse("isom").unwrap(),
        minor_version: 512,
        compatible_brands: vec![str::parse("isom").unwrap()],
        timescale: 1000,
    };
    let mut w = Mp4Writer::write_start(Sparse::default(), &config).unwrap();
    w.add_track(&TrackConfig::from(MediaConfig::Vp9Config(Vp9Config {
        width: 320,
        height: 240,
    })))
    .unwrap();

    // 2^32 + 5 bytes; calloc'ed and never written, so this buffer costs no resident memory.
    let big_len: usize = (1usize << 32) + 5;
    let big = Mp4Sample {
        start_time: 0,
        duration: 100,
        rendering_offset: 0,
        is_sync: true,
        bytes: Bytes::from(vec![0u8; big_len]),
    };
    let small = Mp4Sample {
        start_time: 100,
        duration: 100,
        rendering_offset: 0,
        is_sync: true,
        bytes: Bytes::from_static(b"MARKER2"),
    };

    // The stsz entry is a 32-bit field and has no 64-bit form: refusing the sample is the
    // only lossless answer. If the muxer refuses, the property holds and we are done.
    if w.write_sample(1, &big).is_err() {
        return;
    }
    drop(big);
    w.write_sample(1, &small).unwrap();
    w.write_end().unwrap();

    let mut s = w.into_writer();
    let end = s.len;
    assert!(end > u32::MAX as u64, "more than 4 GiB were written");
    s.seek(SeekFrom::Start(0)).unwrap();
    let mut r = Mp4Reader::read_header(s, end).unwrap();

    // What the file claims about the first sample.
    let stsz = &r.tracks()[&1].trak.mdia.minf.stbl.stsz;
    let recorded = if stsz.sample_size > 0 {
        stsz.sample_size
    } else {
        stsz.sample_sizes[0]
    };

    // The second sample must read back intact.
    let got = r.read_sample(1, 2).unwrap().unwrap();
    assert_eq!(
        &got.bytes[..],
        b"MARKER2",
        "sample 2 is read from the wrong place: sample 1 was {} bytes long but the 32-bit \
         stsz field says {}",
        big_len,
        recorded
    );
    assert_eq!(recorded as u64, big_len as u64, "sample 1 size is intact");
}
