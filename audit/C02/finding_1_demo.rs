// C02 finding 1: after a chunk flush fails inside write_sample, the sample is kept
// (buffered, counted in stts/stsz/stsc, mdhd and tkhd durations) and is written by the
// next flush, but Mp4Writer never learns the new track duration: mvhd.duration is stale
// and no longer equals the longest track.
//
// Independent checking code below: a tiny box walker, no mp4 crate parsing involved.
use mp4::*;
use std::cell::Cell;
use std::io::{self, Seek, SeekFrom, Write};
use std::rc::Rc;

fn be32(d: &[u8], o: usize) -> u32 {
    u32::from_be_bytes([d[o], d[o + 1], d[o + 2], d[o + 3]])
}
fn be64(d: &[u8], o: usize) -> u64 {
    ((be32(d, o) as u64) << 32) | be32(d, o + 4) as u64
}
/// Children of the byte range [lo, hi): (type, payload_start, end). Must tile exactly.
fn kids(d: &[u8], lo: usize, hi: usize) -> Vec<([u8; 4], usize, usize)> {
    let mut v = Vec::new();
    let mut p = lo;
    while p < hi {
        assert!(hi - p >= 8, "stray bytes at {}", p);
        let (size, hdr) = match be32(d, p) {
            1 => (be64(d, p + 8) as usize, 16),
            s => (s as usize, 8),
        };
        assert!(size >= hdr && p + size <= hi, "box at {} does not fit", p);
        v.push(([d[p + 4], d[p + 5], d[p + 6], d[p + 7]], p + hdr, p + size));
        p += size;
    }
    v
}
fn child(d: &[u8], lo: usize, hi: usize, t: &[u8; 4]) -> (usize, usize) {
    let k = kids(d, lo, hi);
    let m: Vec<_> = k.iter().filter(|b| &b.0 == t).collect();
    assert_eq!(m.len(), 1, "expected one {}", String::from_utf8_lossy(t));
    (m[0].1, m[0].2)
}
/// (timescale, duration) of a version 0/1 mvhd or mdhd payload
fn ts_dur(b: &[u8]) -> (u32, u64) {
    if b[0] == 1 {
        (be32(b, 20), be64(b, 24))
    } else {
        (be32(b, 12), be32(b, 16) as u64)
    }
}
fn tkhd_dur(b: &[u8]) -> u64 {
    if b[0] == 1 {
        be64(b, 28)
    } else {
        be32(b, 20) as u64
    }
}

/// An in-memory file whose writes can be made to fail from outside (disk full, EIO ...).
struct Disk {
    data: Vec<u8>,
    pos: usize,
    broken: Rc<Cell<bool>>,
}
impl Write for Disk {
    fn write(&mut self, buf: &[u8]) -> io::Result<usize> {
        if self.broken.get() {
            return Err(io::Error::new(io::ErrorKind::Other, "no space left on device"));
        }
        if self.data.len() < self.pos + buf.len() {
            self.data.resize(self.pos + buf.len(), 0);
        }
        self.data[self.pos..self.pos + buf.len()].copy_from_slice(buf);
        self.pos += buf.len();
        Ok(buf.len())
    }
    fn flush(&mut self) -> io::Result<()> {
        Ok(())
    }
}
impl Seek for Disk {
    fn seek(&mut self, s: SeekFrom) -> io::Result<u64> {
        self.pos = match s {
            SeekFrom::Start(p) => p as usize,
            SeekFrom::Current(o) => (self.pos as i64 + o) as usize,
            SeekFrom::End(o) => (self.data.len() as i64 + o) as usize,
        };
        Ok(self.pos as u64)
    }
}

#[test]
fn movie_duration_is_stale_after_a_failed_chunk_flush() {
    let broken = Rc::new(Cell::new(false));
    let disk = Disk {
        data: Vec::new(),
        pos: 0,
        broken: broken.clone(),
    };
    let config = Mp4Config {
        major_brand: str::parse("isom").unwrap(),
        minor_version: 512,
        compatible_brands: vec![str::parse("isom").unwrap()],
        timescale: 1000,
    };
    let mut w = Mp4Writer::write_start(disk, &config).unwrap();
    w.add_track(&TrackConfig {
        track_type: TrackType::Video,
        timescale: 1000,
        language: "und".into(),
        media_conf: MediaConfig::Vp9Config(Vp9Config {
            width: 16,
            height: 16,
        }),
    })
    .unwrap();
    let sample = |b: u8| Mp4Sample {
        start_time: 0,
        duration: 1000, // one second: every sample completes a chunk and is flushed
        rendering_offset: 0,
        is_sync: true,
        bytes: Bytes::from(vec![b; 10]),
    };
    w.write_sample(1, &sample(1)).unwrap();

    // transient I/O error while the chunk of the second sample is flushed
    broken.set(true);
    assert!(w.write_sample(1, &sample(2)).is_err());
    broken.set(false);

    // the muxer kept the sample; write_end flushes it and finishes the file
    w.write_end().unwrap();
    let d = w.into_writer().data;

    let (mlo, mhi) = child(&d, 0, d.len(), b"moov");
    let (a, b) = child(&d, mlo, mhi, b"mvhd");
    let (movie_ts, movie_dur) = ts_dur(&d[a..b]);
    let (tlo, thi) = child(&d, mlo, mhi, b"trak");
    let (a, b) = child(&d, tlo, thi, b"tkhd");
    let track_dur = tkhd_dur(&d[a..b]);
    let (dlo, dhi) = child(&d, tlo, thi, b"mdia");
    let (a, b) = child(&d, dlo, dhi, b"mdhd");
    let (media_ts, media_dur) = ts_dur(&d[a..b]);
    let (ilo, ihi) = child(&d, dlo, dhi, b"minf");
    let (slo, shi) = child(&d, ilo, ihi, b"stbl");
    let (a, _) = child(&d, slo, shi, b"stsz");
    let sample_count = be32(&d, a + 8);
    let (a, _) = child(&d, slo, shi, b"stts");
    let mut summed: u64 = 0;
    for i in 0..be32(&d, a + 4) as usize {
        summed += be32(&d, a + 8 + 8 * i) as u64 * be32(&d, a + 12 + 8 * i) as u64;
    }

    // The file contains both samples, and media + track header agree with them ...
    assert_eq!(sample_count, 2);
    assert_eq!(summed, 2000);
    assert_eq!(media_dur, summed);
    let converted = (summed as u128 * movie_ts as u128 / media_ts as u128) as u64;
    assert!(track_dur.max(converted) - track_dur.min(converted) <= 1);

    // ... but the movie header does not: "movie duration = longest track" (within one tick).
    assert!(
        movie_dur.max(converted) - movie_dur.min(converted) <= 1,
        "mvhd.duration = {} but the only (hence longest) track lasts {} movie ticks (tkhd.duration = {})",
        movie_dur,
        converted,
        track_dur
    );
}
