// Exploratory harness: independent ISO-BMFF structural checker + scenarios.
#![allow(dead_code)]
use mp4::*;
use std::io::{Cursor, Seek, SeekFrom, Write};

mod chk {
    #[derive(Debug, Clone)]
    pub struct Bx {
        pub typ: [u8; 4],
        pub start: usize,
        pub hdr: usize,
        pub end: usize,
    }
    impl Bx {
        pub fn name(&self) -> String {
            String::from_utf8_lossy(&self.typ).to_string()
        }
        pub fn body<'a>(&self, d: &'a [u8]) -> &'a [u8] {
            &d[self.start + self.hdr..self.end]
        }
    }
    pub fn be32(d: &[u8], o: usize) -> u32 {
        u32::from_be_bytes([d[o], d[o + 1], d[o + 2], d[o + 3]])
    }
    pub fn be64(d: &[u8], o: usize) -> u64 {
        ((be32(d, o) as u64) << 32) | be32(d, o + 4) as u64
    }
    /// Parse boxes that must tile [start, end) exactly.
    pub fn boxes(d: &[u8], start: usize, end: usize, ctx: &str) -> Result<Vec<Bx>, String> {
        let mut v = Vec::new();
        let mut p = start;
        while p < end {
            if end - p < 8 {
                return Err(format!("{ctx}: {} stray bytes at {p}", end - p));
            }
            let s32 = be32(d, p) as u64;
            let typ = [d[p + 4], d[p + 5], d[p + 6], d[p + 7]];
            let (size, hdr) = if s32 == 1 {
                if end - p < 16 {
                    return Err(format!("{ctx}: truncated largesize at {p}"));
                }
                (be64(d, p + 8), 16usize)
            } else if s32 == 0 {
                return Err(format!("{ctx}: size 0 box at {p} type {:?}", typ));
            } else {
                (s32, 8usize)
            };
            if size < hdr as u64 || size > (end - p) as u64 {
                return Err(format!(
                    "{ctx}: box {:?} at {p} size {size} does not fit (avail {})",
                    String::from_utf8_lossy(&typ),
                    end - p
                ));
            }
            v.push(Bx {
                typ,
                start: p,
                hdr,
                end: p + size as usize,
            });
            p += size as usize;
        }
        Ok(v)
    }
    pub fn one<'a>(v: &'a [Bx], t: &[u8; 4], ctx: &str) -> Result<&'a Bx, String> {
        let m: Vec<&Bx> = v.iter().filter(|b| &b.typ == t).collect();
        if m.len() != 1 {
            return Err(format!(
                "{ctx}: expected exactly one {:?}, found {}",
                String::from_utf8_lossy(t),
                m.len()
            ));
        }
        Ok(m[0])
    }
    pub fn opt<'a>(v: &'a [Bx], t: &[u8; 4]) -> Option<&'a Bx> {
        v.iter().find(|b| &b.typ == t)
    }

    #[derive(Debug, Clone)]
    pub struct ExpSample {
        pub size: u32,
        pub dur: u32,
        pub sync: bool,
        pub bytes: Vec<u8>,
    }

    pub fn check(d: &[u8], movie_ts: u32, tracks: &[(u32, Vec<ExpSample>)]) -> Result<(), String> {
        let top = boxes(d, 0, d.len(), "top")?;
        if top.is_empty() || &top[0].typ != b"ftyp" {
            return Err("first box is not ftyp".into());
        }
        one(&top, b"ftyp", "top")?;
        let moov = one(&top, b"moov", "top")?;
        let mdat = one(&top, b"mdat", "top")?;
        for b in &top {
            if !matches!(&b.typ, b"ftyp" | b"moov" | b"mdat" | b"free" | b"wide") {
                return Err(format!("unexpected top-level box {}", b.name()));
            }
        }
        let mdat_lo = (mdat.start + mdat.hdr) as u64;
        let mdat_hi = mdat.end as u64;

        let mv = boxes(d, moov.start + moov.hdr, moov.end, "moov")?;
        let mvhd = one(&mv, b"mvhd", "moov")?;
        let mb = mvhd.body(d);
        let (mv_ts, mv_dur) = if mb[0] == 1 {
            (be32(mb, 20), be64(mb, 24))
        } else {
            (be32(mb, 12), be32(mb, 16) as u64)
        };
        let expect_len = if mb[0] == 1 { 4 + 28 + 80 } else { 4 + 16 + 80 };
        if mb.len() != expect_len {
            return Err(format!("mvhd body {} != {}", mb.len(), expect_len));
        }
        if mv_ts != movie_ts {
            return Err(format!("mvhd timescale {mv_ts} != {movie_ts}"));
        }
        let traks: Vec<&Bx> = mv.iter().filter(|b| &b.typ == b"trak").collect();
        if traks.len() != tracks.len() {
            return Err(format!("trak count {} != {}", traks.len(), tracks.len()));
        }
        let mut all_chunks: Vec<(u64, u64, usize)> = Vec::new();
        let mut longest: u128 = 0;
        let mut longest_tk: u64 = 0;
        for (ti, trak) in traks.iter().enumerate() {
            let ctx = format!("trak{}", ti + 1);
            let (tts, exp) = &tracks[ti];
            let tb = boxes(d, trak.start + trak.hdr, trak.end, &ctx)?;
            let tkhd = one(&tb, b"tkhd", &ctx)?;
            let kb = tkhd.body(d);
            let tk_dur = if kb[0] == 1 {
                if kb.len() != 4 + 32 + 60 {
                    return Err(format!("{ctx}: tkhd v1 body {}", kb.len()));
                }
                be64(kb, 28)
            } else {
                if kb.len() != 4 + 20 + 60 {
                    return Err(format!("{ctx}: tkhd v0 body {}", kb.len()));
                }
                be32(kb, 20) as u64
            };
            let mdia = one(&tb, b"mdia", &ctx)?;
            let mdb = boxes(d, mdia.start + mdia.hdr, mdia.end, &ctx)?;
            let mdhd = one(&mdb, b"mdhd", &ctx)?;
            let hb = mdhd.body(d);
            let (md_ts, md_dur) = if hb[0] == 1 {
                if hb.len() != 4 + 28 + 4 {
                    return Err(format!("{ctx}: mdhd v1 body {}", hb.len()));
                }
                (be32(hb, 20), be64(hb, 24))
            } else {
                if hb.len() != 4 + 16 + 4 {
                    return Err(format!("{ctx}: mdhd v0 body {}", hb.len()));
                }
                (be32(hb, 12), be32(hb, 16) as u64)
            };
            if md_ts != *tts {
                return Err(format!("{ctx}: mdhd timescale {md_ts} != {tts}"));
            }
            one(&mdb, b"hdlr", &ctx)?;
            let minf = one(&mdb, b"minf", &ctx)?;
            let mib = boxes(d, minf.start + minf.hdr, minf.end, &ctx)?;
            let dinf = one(&mib, b"dinf", &ctx)?;
            let dib = boxes(d, dinf.start + dinf.hdr, dinf.end, &ctx)?;
            let dref = one(&dib, b"dref", &ctx)?;
            let drb = boxes(d, dref.start + dref.hdr + 8, dref.end, &ctx)?;
            if drb.len() as u32 != be32(dref.body(d), 4) {
                return Err(format!("{ctx}: dref count"));
            }
            let stbl = one(&mib, b"stbl", &ctx)?;
            let sb = boxes(d, stbl.start + stbl.hdr, stbl.end, &ctx)?;
            let stsd = one(&sb, b"stsd", &ctx)?;
            let seb = boxes(d, stsd.start + stsd.hdr + 8, stsd.end, &format!("{ctx}/stsd"))?;
            if seb.len() as u32 != be32(stsd.body(d), 4) {
                return Err(format!("{ctx}: stsd count"));
            }
            for se in &seb {
                let skip = match &se.typ {
                    b"avc1" | b"hev1" | b"vp09" => 78,
                    b"mp4a" => 28,
                    b"tx3g" => continue,
                    _ => return Err(format!("{ctx}: unknown sample entry {}", se.name())),
                };
                let kids = boxes(d, se.start + se.hdr + skip, se.end, &format!("{ctx}/{}", se.name()))?;
                for k in &kids {
                    if &k.typ == b"esds" {
                        // walk descriptors
                        let e = k.body(d);
                        descs(&e[4..], &format!("{ctx}/esds"), 0)?;
                    }
                    if &k.typ == b"avcC" {
                        let a = k.body(d);
                        let mut p = 5;
                        let ns = a[p] & 0x1f;
                        p += 1;
                        for _ in 0..ns {
                            let l = u16::from_be_bytes([a[p], a[p + 1]]) as usize;
                            p += 2 + l;
                        }
                        let np = a[p];
                        p += 1;
                        for _ in 0..np {
                            let l = u16::from_be_bytes([a[p], a[p + 1]]) as usize;
                            p += 2 + l;
                        }
                        if p != a.len() {
                            return Err(format!("{ctx}: avcC body {} consumed {}", a.len(), p));
                        }
                    }
                }
            }
            // tables
            let n = exp.len() as u64;
            let stts = one(&sb, b"stts", &ctx)?.body(d);
            let cnt = be32(stts, 4) as usize;
            if stts.len() != 8 + cnt * 8 {
                return Err(format!("{ctx}: stts len"));
            }
            let mut durs: Vec<u32> = Vec::new();
            let mut tot: u64 = 0;
            let mut sum: u128 = 0;
            for i in 0..cnt {
                let c = be32(stts, 8 + i * 8) as u64;
                let dl = be32(stts, 12 + i * 8);
                tot += c;
                sum += c as u128 * dl as u128;
                if durs.len() < 1_000_000 {
                    for _ in 0..c.min(1_000_000) {
                        durs.push(dl);
                    }
                }
            }
            if tot != n {
                return Err(format!("{ctx}: stts covers {tot} samples, wrote {n}"));
            }
            for (i, e) in exp.iter().enumerate() {
                if durs[i] != e.dur {
                    return Err(format!("{ctx}: stts sample {i} dur {} != {}", durs[i], e.dur));
                }
            }
            if let Some(c) = opt(&sb, b"ctts") {
                let c = c.body(d);
                let cnt = be32(c, 4) as usize;
                if c.len() != 8 + cnt * 8 {
                    return Err(format!("{ctx}: ctts len"));
                }
                let mut tot = 0u64;
                for i in 0..cnt {
                    tot += be32(c, 8 + i * 8) as u64;
                }
                if tot != n {
                    return Err(format!("{ctx}: ctts covers {tot} samples, wrote {n}"));
                }
            }
            if let Some(s) = opt(&sb, b"stss") {
                let s = s.body(d);
                let cnt = be32(s, 4) as usize;
                if s.len() != 8 + cnt * 4 {
                    return Err(format!("{ctx}: stss len"));
                }
                let mut prev = 0u32;
                let mut got = Vec::new();
                for i in 0..cnt {
                    let x = be32(s, 8 + i * 4);
                    if x <= prev || x as u64 > n {
                        return Err(format!("{ctx}: stss entry {x} (prev {prev}, n {n})"));
                    }
                    prev = x;
                    got.push(x);
                }
                let want: Vec<u32> = exp
                    .iter()
                    .enumerate()
                    .filter(|(_, e)| e.sync)
                    .map(|(i, _)| i as u32 + 1)
                    .collect();
                if got != want {
                    return Err(format!("{ctx}: stss {:?} != {:?}", got, want));
                }
            } else if exp.iter().any(|e| !e.sync) {
                return Err(format!("{ctx}: no stss but non-sync samples"));
            }
            let stsz = one(&sb, b"stsz", &ctx)?.body(d);
            let ss = be32(stsz, 4);
            let sc = be32(stsz, 8) as u64;
            if sc != n {
                return Err(format!("{ctx}: stsz count {sc} != {n}"));
            }
            let sizes: Vec<u32> = if ss != 0 {
                if stsz.len() != 12 {
                    return Err(format!("{ctx}: stsz fixed len {}", stsz.len()));
                }
                vec![ss; n as usize]
            } else {
                if stsz.len() as u64 != 12 + 4 * n {
                    return Err(format!("{ctx}: stsz len {}", stsz.len()));
                }
                (0..n as usize).map(|i| be32(stsz, 12 + 4 * i)).collect()
            };
            for (i, e) in exp.iter().enumerate() {
                if sizes[i] != e.size {
                    return Err(format!("{ctx}: stsz sample {i} size {} != {}", sizes[i], e.size));
                }
            }
            let offs: Vec<u64> = match (opt(&sb, b"stco"), opt(&sb, b"co64")) {
                (Some(s), None) => {
                    let s = s.body(d);
                    let c = be32(s, 4) as usize;
                    if s.len() != 8 + 4 * c {
                        return Err(format!("{ctx}: stco len"));
                    }
                    (0..c).map(|i| be32(s, 8 + 4 * i) as u64).collect()
                }
                (None, Some(s)) => {
                    let s = s.body(d);
                    let c = be32(s, 4) as usize;
                    if s.len() != 8 + 8 * c {
                        return Err(format!("{ctx}: co64 len"));
                    }
                    (0..c).map(|i| be64(s, 8 + 8 * i)).collect()
                }
                _ => return Err(format!("{ctx}: need exactly one of stco/co64")),
            };
            let stsc = one(&sb, b"stsc", &ctx)?.body(d);
            let cnt = be32(stsc, 4) as usize;
            if stsc.len() != 8 + 12 * cnt {
                return Err(format!("{ctx}: stsc len"));
            }
            let mut spc = vec![0u32; offs.len()];
            let mut prev_fc = 0u32;
            for i in 0..cnt {
                let fc = be32(stsc, 8 + 12 * i);
                let per = be32(stsc, 12 + 12 * i);
                let sdi = be32(stsc, 16 + 12 * i);
                if fc <= prev_fc || fc as usize > offs.len() || per == 0 || sdi != 1 {
                    return Err(format!("{ctx}: stsc entry {i}: fc {fc} per {per} sdi {sdi}"));
                }
                prev_fc = fc;
                let next = if i + 1 < cnt {
                    be32(stsc, 8 + 12 * (i + 1)) as usize
                } else {
                    offs.len() + 1
                };
                for c in fc as usize..next.min(offs.len() + 1) {
                    spc[c - 1] = per;
                }
            }
            if cnt > 0 && be32(stsc, 8) != 1 {
                return Err(format!("{ctx}: stsc does not start at chunk 1"));
            }
            let totc: u64 = spc.iter().map(|&x| x as u64).sum();
            if totc != n {
                return Err(format!("{ctx}: stsc covers {totc} samples, wrote {n}"));
            }
            let mut si = 0usize;
            for (ci, &o) in offs.iter().enumerate() {
                let mut p = o;
                for _ in 0..spc[ci] {
                    let e = &exp[si];
                    let sz = sizes[si] as u64;
                    if p < mdat_lo || p + sz > mdat_hi {
                        return Err(format!(
                            "{ctx}: sample {si} at {p}+{sz} outside mdat payload {mdat_lo}..{mdat_hi}"
                        ));
                    }
                    if d[p as usize..(p + sz) as usize] != e.bytes[..] {
                        return Err(format!("{ctx}: sample {si} content mismatch at {p}"));
                    }
                    p += sz;
                    si += 1;
                }
                if o < mdat_lo || p > mdat_hi {
                    return Err(format!("{ctx}: chunk {ci} {o}..{p} outside mdat {mdat_lo}..{mdat_hi}"));
                }
                all_chunks.push((o, p, ti));
            }
            // durations
            if md_dur as u128 != sum {
                return Err(format!("{ctx}: mdhd duration {md_dur} != sum {sum}"));
            }
            let want = (sum * movie_ts as u128 / md_ts as u128).min(u64::MAX as u128);
            if (tk_dur as u128).abs_diff(want) > 1 {
                return Err(format!("{ctx}: tkhd duration {tk_dur} != {want} (+-1)"));
            }
            longest = longest.max(want);
            longest_tk = longest_tk.max(tk_dur);
        }
        if (mv_dur as u128).abs_diff(longest) > 1 {
            return Err(format!(
                "mvhd duration {mv_dur} != longest track {longest} (+-1) [longest tkhd {longest_tk}]"
            ));
        }
        all_chunks.sort();
        for w in all_chunks.windows(2) {
            if w[0].1 > w[1].0 && w[0].0 != w[0].1 && w[1].0 != w[1].1 {
                return Err(format!("chunks overlap: {:?} {:?}", w[0], w[1]));
            }
        }
        Ok(())
    }

    fn descs(e: &[u8], ctx: &str, depth: usize) -> Result<(), String> {
        let mut p = 0usize;
        while p < e.len() {
            let tag = e[p];
            p += 1;
            let mut sz = 0usize;
            for _ in 0..4 {
                if p >= e.len() {
                    return Err(format!("{ctx}: truncated descriptor length"));
                }
                let b = e[p];
                p += 1;
                sz = (sz << 7) | (b & 0x7f) as usize;
                if b & 0x80 == 0 {
                    break;
                }
            }
            if p + sz > e.len() {
                return Err(format!("{ctx}: descriptor {tag} size {sz} overruns ({})", e.len() - p));
            }
            let body = &e[p..p + sz];
            match tag {
                3 => descs(&body[3..], ctx, depth + 1)?,
                4 => descs(&body[13..], ctx, depth + 1)?,
                _ => {}
            }
            p += sz;
        }
        Ok(())
    }
}

use chk::ExpSample;

fn cfg(ts: u32) -> Mp4Config {
    Mp4Config {
        major_brand: str::parse("isom").unwrap(),
        minor_version: 512,
        compatible_brands: vec![str::parse("isom").unwrap(), str::parse("mp41").unwrap()],
        timescale: ts,
    }
}

fn media(kind: usize) -> (TrackType, MediaConfig) {
    match kind % 5 {
        0 => (
            TrackType::Video,
            MediaConfig::AvcConfig(AvcConfig {
                width: 320,
                height: 240,
                seq_param_set: vec![0x67, 0x64, 0x00, 0x1f, 0xac],
                pic_param_set: vec![0x68, 0xeb],
            }),
        ),
        1 => (
            TrackType::Video,
            MediaConfig::HevcConfig(HevcConfig { width: 320, height: 240 }),
        ),
        2 => (
            TrackType::Video,
            MediaConfig::Vp9Config(Vp9Config { width: 320, height: 240 }),
        ),
        3 => (TrackType::Audio, MediaConfig::AacConfig(AacConfig::default())),
        _ => (TrackType::Subtitle, MediaConfig::TtxtConfig(TtxtConfig {})),
    }
}

struct Rng(u64);
impl Rng {
    fn next(&mut self) -> u64 {
        self.0 ^= self.0 << 13;
        self.0 ^= self.0 >> 7;
        self.0 ^= self.0 << 17;
        self.0
    }
    fn below(&mut self, n: u64) -> u64 {
        self.next() % n
    }
}

fn pick_u32(r: &mut Rng) -> u32 {
    match r.below(8) {
        0 => 0,
        1 => 1,
        2 => u32::MAX,
        3 => u32::MAX - 1,
        4 => 1000,
        5 => 90000,
        6 => r.below(100) as u32,
        _ => r.next() as u32,
    }
}

#[test]
fn random_histories() {
    let mut r = Rng(0x9E3779B97F4A7C15);
    for iter in 0..60000 {
        let movie_ts = pick_u32(&mut r);
        let mut w = Mp4Writer::write_start(Cursor::new(Vec::new()), &cfg(movie_ts)).unwrap();
        let nt = r.below(4) as usize;
        let mut exp: Vec<(u32, Vec<ExpSample>)> = Vec::new();
        for _ in 0..nt {
            let (tt, mc) = media(r.below(5) as usize);
            let mut ts = pick_u32(&mut r);
            if ts == 0 {
                ts = 1;
            }
            w.add_track(&TrackConfig {
                track_type: tt,
                timescale: ts,
                language: ["und", "eng", "", "x", "日本語"][r.below(5) as usize].to_string(),
                media_conf: mc,
            })
            .unwrap();
            exp.push((ts, Vec::new()));
        }
        let ns = r.below(40);
        if nt > 0 {
            for _ in 0..ns {
                let t = r.below(nt as u64) as usize;
                let size = match r.below(6) {
                    0 => 0,
                    1 => 7,
                    2 => 7,
                    3 => 7,
                    _ => r.below(50) as usize,
                };
                let bytes: Vec<u8> = (0..size).map(|_| r.next() as u8).collect();
                let ts = exp[t].0;
                let dur = match r.below(6) {
                    0 => 0,
                    1 => ts,
                    2 => ts / 3,
                    3 => u32::MAX,
                    _ => pick_u32(&mut r),
                };
                let sync = r.below(3) != 0;
                let ro = match r.below(4) {
                    0 => 0,
                    1 => -5,
                    2 => i32::MIN,
                    _ => 100,
                };
                w.write_sample(
                    t as u32 + 1,
                    &Mp4Sample {
                        start_time: 0,
                        duration: dur,
                        rendering_offset: ro,
                        is_sync: sync,
                        bytes: Bytes::from(bytes.clone()),
                    },
                )
                .unwrap();
                exp[t].1.push(ExpSample { size: size as u32, dur, sync, bytes });
            }
        }
        w.write_end().unwrap();
        let data = w.into_writer().into_inner();
        if let Err(e) = chk::check(&data, movie_ts, &exp) {
            panic!("{}", format!("iter {iter}: {e}"));
        }
    }
}

struct Faulty {
    data: Vec<u8>,
    pos: u64,
    ops: u64,
    fail_at: Vec<u64>, // op indices at which to fail
    partial: bool,
    short: bool,
}
impl Faulty {
    fn tick(&mut self) -> bool {
        self.ops += 1;
        self.fail_at.contains(&self.ops)
    }
    fn put(&mut self, buf: &[u8]) {
        let p = self.pos as usize;
        if self.data.len() < p + buf.len() {
            self.data.resize(p + buf.len(), 0);
        }
        self.data[p..p + buf.len()].copy_from_slice(buf);
        self.pos += buf.len() as u64;
    }
}
impl Write for Faulty {
    fn write(&mut self, buf: &[u8]) -> std::io::Result<usize> {
        if self.tick() {
            if self.partial && buf.len() > 1 {
                let k = buf.len() / 2;
                self.put(&buf[..k]);
            }
            return Err(std::io::Error::new(std::io::ErrorKind::Other, "injected"));
        }
        let n = if self.short && buf.len() > 3 { 3 } else { buf.len() };
        self.put(&buf[..n]);
        Ok(n)
    }
    fn flush(&mut self) -> std::io::Result<()> {
        Ok(())
    }
}
impl Seek for Faulty {
    fn seek(&mut self, s: SeekFrom) -> std::io::Result<u64> {
        if self.tick() {
            return Err(std::io::Error::new(std::io::ErrorKind::Other, "injected seek"));
        }
        self.pos = match s {
            SeekFrom::Start(p) => p,
            SeekFrom::Current(o) => (self.pos as i64 + o) as u64,
            SeekFrom::End(o) => (self.data.len() as i64 + o) as u64,
        };
        Ok(self.pos)
    }
}

#[test]
fn faulty_histories() {
    let mut r = Rng(0x1234567);
    let mut produced = 0;
    let mut panics = 0;
    let mut stale = 0;
    std::panic::set_hook(Box::new(|_| {}));
    for iter in 0..20000 {
        let movie_ts = [1000u32, 1, 90000, 600][r.below(4) as usize];
        let nf = 1 + r.below(3);
        let fail_at: Vec<u64> = (0..nf).map(|_| 5 + r.below(60)).collect();
        let sink = Faulty { data: vec![], pos: 0, ops: 0, fail_at: fail_at.clone(), partial: r.below(2) == 0, short: r.below(4) == 0 };
        let mut w = match Mp4Writer::write_start(sink, &cfg(movie_ts)) {
            Ok(w) => w,
            Err(_) => continue,
        };
        let nt = 1 + r.below(3) as usize;
        let mut exp: Vec<(u32, Vec<ExpSample>)> = Vec::new();
        for _ in 0..nt {
            let (tt, mc) = media(r.below(5) as usize);
            let ts = [1000u32, 1, 48000, 3][r.below(4) as usize];
            w.add_track(&TrackConfig { track_type: tt, timescale: ts, language: "und".into(), media_conf: mc }).unwrap();
            exp.push((ts, Vec::new()));
        }
        let ns = r.below(30);
        for _ in 0..ns {
            let t = r.below(nt as u64) as usize;
            let size = 1 + r.below(20) as usize;
            let bytes: Vec<u8> = (0..size).map(|_| r.next() as u8).collect();
            let ts = exp[t].0;
            let dur = [ts, ts / 2 + 1, 1, 0][r.below(4) as usize];
            let sync = r.below(3) != 0;
            let _ = w.write_sample(t as u32 + 1, &Mp4Sample { start_time: 0, duration: dur, rendering_offset: 0, is_sync: sync, bytes: Bytes::from(bytes.clone()) });
            exp[t].1.push(ExpSample { size: size as u32, dur, sync, bytes });
        }
        let res = std::panic::catch_unwind(std::panic::AssertUnwindSafe(|| {
            let mut ok = false;
            for _ in 0..5 {
                if w.write_end().is_ok() { ok = true; break; }
            }
            ok
        }));
        match res {
            Err(_) => { panics += 1; continue; }
            Ok(false) => continue,
            Ok(true) => {}
        }
        produced += 1;
        let data = w.into_writer().data;
        if let Err(e) = chk::check(&data, movie_ts, &exp) {
            if e.starts_with("mvhd duration") { stale += 1; continue; }
            panic!("{}", format!("iter {iter}: fail_at {:?}: {e}", fail_at));
        }
    }
    eprintln!("produced {produced} panics {panics} stale {stale}");
}
