// C02 finding 2: Mp4Writer records *absolute stream positions* of the sink as chunk
// offsets, but starts the file (ftyp) wherever the sink happens to be positioned.
// If the sink is not at offset 0 when write_start is called, the muxer's output is
// not a self-consistent file under either reading of "the output":
//   (a) the bytes the muxer wrote (from the start position on): stco/co64 offsets are
//       too large by the start position, chunks fall outside mdat / on wrong bytes;
//   (b) the whole sink: the region before the start position is not covered by boxes,
//       so top-level boxes do not tile it and ftyp is not first.
//
// The check below is an independent mini parser (no mp4 crate parsing involved).
use mp4::*;
use std::io::{Cursor, Seek, SeekFrom};

type R<T> = std::result::Result<T, String>;

fn be32(d: &[u8], o: usize) -> u32 {
    u32::from_be_bytes([d[o], d[o + 1], d[o + 2], d[o + 3]])
}
fn be64(d: &[u8], o: usize) -> u64 {
    ((be32(d, o) as u64) << 32) | be32(d, o + 4) as u64
}
fn kids(d: &[u8], lo: usize, hi: usize) -> R<Vec<([u8; 4], usize, usize)>> {
    let mut v = Vec::new();
    let mut p = lo;
    while p < hi {
        if hi - p < 8 {
            return Err(format!("stray bytes at {}", p));
        }
        let (size, hdr) = match be32(d, p) {
            0 => return Err(format!("box with size 0 at {}", p)),
            1 => (be64(d, p + 8) as usize, 16),
            s => (s as usize, 8),
        };
        if size < hdr || p + size > hi {
            return Err(format!("box at {} (size {}) does not fit", p, size));
        }
        v.push(([d[p + 4], d[p + 5], d[p + 6], d[p + 7]], p + hdr, p + size));
        p += size;
    }
    Ok(v)
}
fn child(d: &[u8], lo: usize, hi: usize, t: &[u8; 4]) -> R<(usize, usize)> {
    let k = kids(d, lo, hi)?;
    let m: Vec<_> = k.iter().filter(|b| &b.0 == t).collect();
    if m.len() != 1 {
        return Err(format!("expected one {}", String::from_utf8_lossy(t)));
    }
    Ok((m[0].1, m[0].2))
}

/// The part of C02 that matters here, for a one-track file whose samples are `samples`.
fn check(d: &[u8], samples: &[Vec<u8>]) -> R<()> {
    let top = kids(d, 0, d.len())?;
    if top.is_empty() || &top[0].0 != b"ftyp" {
        return Err("file does not start with ftyp".into());
    }
    let (dat_lo, dat_hi) = child(d, 0, d.len(), b"mdat")?;
    let (lo, hi) = child(d, 0, d.len(), b"moov")?;
    let (lo, hi) = child(d, lo, hi, b"trak")?;
    let (lo, hi) = child(d, lo, hi, b"mdia")?;
    let (lo, hi) = child(d, lo, hi, b"minf")?;
    let (lo, hi) = child(d, lo, hi, b"stbl")?;
    let (z, _) = child(d, lo, hi, b"stsz")?;
    let (fixed, count) = (be32(d, z + 4), be32(d, z + 8) as usize);
    if count != samples.len() {
        return Err("stsz sample count".into());
    }
    let size = |i: usize| if fixed != 0 { fixed } else { be32(d, z + 12 + 4 * i) } as usize;
    let offsets: Vec<usize> = if let Ok((c, _)) = child(d, lo, hi, b"stco") {
        (0..be32(d, c + 4) as usize).map(|i| be32(d, c + 8 + 4 * i) as usize).collect()
    } else {
        let (c, _) = child(d, lo, hi, b"co64")?;
        (0..be32(d, c + 4) as usize).map(|i| be64(d, c + 8 + 8 * i) as usize).collect()
    };
    let (c, _) = child(d, lo, hi, b"stsc")?;
    let n = be32(d, c + 4) as usize;
    let mut s = 0;
    for (ci, &off) in offsets.iter().enumerate() {
        // samples per chunk: last stsc entry whose first_chunk <= chunk number
        let per = (0..n)
            .filter(|&i| be32(d, c + 8 + 12 * i) as usize <= ci + 1)
            .map(|i| be32(d, c + 12 + 12 * i) as usize)
            .last()
            .ok_or("stsc does not cover chunk")?;
        let mut p = off;
        for _ in 0..per {
            if s >= count {
                return Err("stsc describes more samples than stsz".into());
            }
            if p < dat_lo || p + size(s) > dat_hi {
                return Err(format!(
                    "chunk {} (offset {}): sample {} at {}..{} is outside the mdat payload {}..{}",
                    ci + 1, off, s + 1, p, p + size(s), dat_lo, dat_hi
                ));
            }
            if d[p..p + size(s)] != samples[s][..] {
                return Err(format!("sample {} at {} does not hold the bytes written", s + 1, p));
            }
            p += size(s);
            s += 1;
        }
    }
    if s != count {
        return Err("stsc describes fewer samples than stsz".into());
    }
    Ok(())
}

fn mux(start: u64) -> (Vec<u8>, Vec<Vec<u8>>) {
    let mut sink = Cursor::new(Vec::<u8>::new());
    sink.seek(SeekFrom::Start(start)).unwrap(); // e.g. appending after a header / in a container
    let config = Mp4Config {
        major_brand: str::parse("isom").unwrap(),
        minor_version: 512,
        compatible_brands: vec![str::parse("isom").unwrap()],
        timescale: 1000,
    };
    let mut w = Mp4Writer::write_start(sink, &config).unwrap();
    w.add_track(&TrackConfig {
        track_type: TrackType::Audio,
        timescale: 1000,
        language: "und".into(),
        media_conf: MediaConfig::AacConfig(AacConfig::default()),
    })
    .unwrap();
    let mut samples = Vec::new();
    for i in 0..5u8 {
        let bytes = vec![0xA0 + i; 20 + i as usize];
        w.write_sample(
            1,
            &Mp4Sample {
                start_time: 0,
                duration: 400,
                rendering_offset: 0,
                is_sync: true,
                bytes: Bytes::from(bytes.clone()),
            },
        )
        .unwrap();
        samples.push(bytes);
    }
    w.write_end().unwrap();
    (w.into_writer().into_inner(), samples)
}

#[test]
fn control_sink_at_offset_zero_is_fine() {
    let (sink, samples) = mux(0);
    check(&sink, &samples).unwrap();
}

#[test]
fn output_written_at_a_nonzero_sink_position_is_not_self_consistent() {
    let start = 4096u64;
    let (sink, samples) = mux(start);

    // reading (a): the muxer's output is what it wrote, i.e. sink[start..]
    let a = check(&sink[start as usize..], &samples);
    // reading (b): the muxer's output is the whole sink
    let b = check(&sink, &samples);

    assert!(
        a.is_ok() || b.is_ok(),
        "not a valid file under either reading:\n  bytes written by the muxer: {}\n  whole sink: {}",
        a.unwrap_err(),
        b.unwrap_err()
    );
}
