// C02 finding 3 (boundary): with a coarse track timescale and a fine movie timescale the
// track duration expressed in movie ticks does not fit into 64 bits after two samples.
// Mp4TrackWriter::update_durations silently clamps it to u64::MAX, so tkhd.duration and
// mvhd.duration are written as 0xFFFF_FFFF_FFFF_FFFF although the converted sum of the
// sample durations is a different (larger) number: the header durations are off by ~1.8e19
// ticks, not by "at most one tick", and no call reports a problem.
use mp4::*;
use std::io::Cursor;

fn be32(d: &[u8], o: usize) -> u32 {
    u32::from_be_bytes([d[o], d[o + 1], d[o + 2], d[o + 3]])
}
fn be64(d: &[u8], o: usize) -> u64 {
    ((be32(d, o) as u64) << 32) | be32(d, o + 4) as u64
}
fn child(d: &[u8], lo: usize, hi: usize, t: &[u8; 4]) -> (usize, usize) {
    let mut p = lo;
    let mut found = None;
    while p < hi {
        let (size, hdr) = match be32(d, p) {
            1 => (be64(d, p + 8) as usize, 16),
            s => (s as usize, 8),
        };
        assert!(size >= hdr && p + size <= hi, "box at {} does not fit", p);
        if &d[p + 4..p + 8] == t {
            assert!(found.is_none());
            found = Some((p + hdr, p + size));
        }
        p += size;
    }
    assert_eq!(p, hi);
    found.expect("box not found")
}
fn ts_dur(b: &[u8]) -> (u32, u64) {
    if b[0] == 1 {
        (be32(b, 20), be64(b, 24))
    } else {
        (be32(b, 12), be32(b, 16) as u64)
    }
}

#[test]
fn header_durations_are_clamped_not_converted() {
    let config = Mp4Config {
        major_brand: str::parse("isom").unwrap(),
        minor_version: 0,
        compatible_brands: vec![],
        timescale: u32::MAX, // movie timescale
    };
    let mut w = Mp4Writer::write_start(Cursor::new(Vec::new()), &config).unwrap();
    w.add_track(&TrackConfig {
        track_type: TrackType::Subtitle,
        timescale: 1, // one tick per second
        language: "und".into(),
        media_conf: MediaConfig::TtxtConfig(TtxtConfig {}),
    })
    .unwrap();
    // Only samples the muxer accepts count as written (a muxer that refuses the sample
    // whose duration cannot be represented would satisfy the property).
    let mut summed: u64 = 0;
    for _ in 0..2 {
        let accepted = w.write_sample(
            1,
            &Mp4Sample {
                start_time: 0,
                duration: u32::MAX,
                rendering_offset: 0,
                is_sync: true,
                bytes: Bytes::from_static(b"\0\x01x"),
            },
        );
        if accepted.is_ok() {
            summed += u32::MAX as u64;
        }
    }
    w.write_end().unwrap();
    let d = w.into_writer().into_inner();

    let (mlo, mhi) = child(&d, 0, d.len(), b"moov");
    let (a, b) = child(&d, mlo, mhi, b"mvhd");
    let (movie_ts, movie_dur) = ts_dur(&d[a..b]);
    let (tlo, thi) = child(&d, mlo, mhi, b"trak");
    let (a, b) = child(&d, tlo, thi, b"tkhd");
    let track_dur = if d[a] == 1 { be64(&d, a + 28) } else { be32(&d, a + 20) as u64 };
    let (dlo, dhi) = child(&d, tlo, thi, b"mdia");
    let (a, b) = child(&d, dlo, dhi, b"mdhd");
    let (media_ts, media_dur) = ts_dur(&d[a..b]);

    assert_eq!(media_dur, summed); // the media header is right
    let converted: u128 = summed as u128 * movie_ts as u128 / media_ts as u128;
    let diff = |x: u64| (x as u128).max(converted) - (x as u128).min(converted);
    assert!(
        diff(track_dur) <= 1 && diff(movie_dur) <= 1,
        "sum of sample durations converted to the movie timescale = {}, tkhd.duration = {}, mvhd.duration = {}",
        converted,
        track_dur,
        movie_dur
    );
}
