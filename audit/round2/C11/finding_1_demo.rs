// C11 demonstration: a prefix of a valid fragmented file opens fine and returns samples that
// differ from the same samples of the complete file.
//
// The file is an ordinary fragmented MP4: ftyp, moov (one AVC track, mvex/trex), then three
// movie fragments (moof + mdat) holding 3, 3 and 1 samples - the usual shape of a stream whose
// last fragment is shorter than the others. Every proper prefix is opened with its own length
// and every sample that can be read is compared, field by field, with the sample the complete
// file yields for the same (track, sample id).
//
// Uses only the public API of the crate and std.

use mp4::{
    AvcConfig, MediaConfig, Mp4Config, Mp4Reader, Mp4Sample, Mp4Writer, TrackConfig, TrackType,
};
use std::io::Cursor;
use std::panic::{catch_unwind, AssertUnwindSafe};

fn boxed(name: &[u8; 4], payload: &[u8]) -> Vec<u8> {
    let mut v = Vec::new();
    v.extend_from_slice(&((payload.len() as u32 + 8).to_be_bytes()));
    v.extend_from_slice(name);
    v.extend_from_slice(payload);
    v
}

fn be32(v: u32) -> [u8; 4] {
    v.to_be_bytes()
}

/// top-level boxes of `data` as (name, start, end)
fn top_level(data: &[u8]) -> Vec<([u8; 4], usize, usize)> {
    let mut out = Vec::new();
    let mut pos = 0;
    while pos + 8 <= data.len() {
        let size = u32::from_be_bytes([data[pos], data[pos + 1], data[pos + 2], data[pos + 3]])
            as usize;
        let name = [data[pos + 4], data[pos + 5], data[pos + 6], data[pos + 7]];
        out.push((name, pos, pos + size));
        pos += size;
    }
    out
}

/// ftyp + moov of an empty one-track AVC movie, as the crate's own writer produces them,
/// with an mvex/trex added to the moov (which is what announces movie fragments).
fn init_segment() -> Vec<u8> {
    let config = Mp4Config {
        major_brand: str::parse("iso5").unwrap(),
        minor_version: 512,
        compatible_brands: vec![str::parse("iso5").unwrap(), str::parse("avc1").unwrap()],
        timescale: 1000,
    };
    let mut writer = Mp4Writer::write_start(Cursor::new(Vec::<u8>::new()), &config).unwrap();
    writer
        .add_track(&TrackConfig {
            track_type: TrackType::Video,
            timescale: 1000,
            language: String::from("und"),
            media_conf: MediaConfig::AvcConfig(AvcConfig {
                width: 16,
                height: 16,
                seq_param_set: vec![0x67, 0x42, 0x00, 0x0a, 0xf8, 0x41, 0xa2],
                pic_param_set: vec![0x68, 0xce, 0x38, 0x80],
            }),
        })
        .unwrap();
    writer.write_end().unwrap();
    let written = writer.into_writer().into_inner();

    let mut ftyp = Vec::new();
    let mut moov = Vec::new();
    for (name, start, end) in top_level(&written) {
        match &name {
            b"ftyp" => ftyp = written[start..end].to_vec(),
            b"moov" => moov = written[start..end].to_vec(),
            _ => {} // the (empty) mdat of the writer is not wanted in a fragmented file
        }
    }

    // mvex { trex { track 1, description 1, no default duration/size/flags } }
    let mut trex = Vec::new();
    trex.extend_from_slice(&be32(0)); // version, flags
    trex.extend_from_slice(&be32(1)); // track_ID
    trex.extend_from_slice(&be32(1)); // default_sample_description_index
    trex.extend_from_slice(&be32(0)); // default_sample_duration
    trex.extend_from_slice(&be32(0)); // default_sample_size
    trex.extend_from_slice(&be32(0)); // default_sample_flags
    let mvex = boxed(b"mvex", &boxed(b"trex", &trex));
    moov.extend_from_slice(&mvex);
    let moov_size = moov.len() as u32;
    moov[0..4].copy_from_slice(&be32(moov_size));

    let mut init = ftyp;
    init.extend_from_slice(&moov);
    init
}

/// One movie fragment: moof { mfhd, traf { tfhd, tfdt, trun } } followed by its mdat.
/// Each sample lasts 40 ticks; the first sample of the fragment is a key frame and says so
/// in its sample flags, the others say that they are not.
fn fragment(sequence: u32, decode_time: u32, samples: &[Vec<u8>]) -> Vec<u8> {
    let mfhd = {
        let mut p = Vec::new();
        p.extend_from_slice(&be32(0));
        p.extend_from_slice(&be32(sequence));
        boxed(b"mfhd", &p)
    };
    let tfhd = {
        let mut p = Vec::new();
        p.extend_from_slice(&be32(0x02_0000)); // default-base-is-moof
        p.extend_from_slice(&be32(1)); // track_ID
        boxed(b"tfhd", &p)
    };
    let tfdt = {
        let mut p = Vec::new();
        p.extend_from_slice(&be32(0));
        p.extend_from_slice(&be32(decode_time));
        boxed(b"tfdt", &p)
    };
    let trun_len = 8 + 4 + 4 + 4 + 12 * samples.len();
    let moof_len = 8 + mfhd.len() + 8 + tfhd.len() + tfdt.len() + trun_len;
    let trun = {
        let mut p = Vec::new();
        // data-offset | sample-duration | sample-size | sample-flags
        p.extend_from_slice(&be32(0x0000_0001 | 0x100 | 0x200 | 0x400));
        p.extend_from_slice(&be32(samples.len() as u32));
        p.extend_from_slice(&be32(moof_len as u32 + 8)); // first byte of the mdat payload
        for (i, s) in samples.iter().enumerate() {
            p.extend_from_slice(&be32(40));
            p.extend_from_slice(&be32(s.len() as u32));
            p.extend_from_slice(&be32(if i == 0 { 0x0200_0000 } else { 0x0101_0000 }));
        }
        boxed(b"trun", &p)
    };
    assert_eq!(trun.len(), trun_len);
    let traf = boxed(b"traf", &[tfhd, tfdt, trun].concat());
    let moof = boxed(b"moof", &[mfhd, traf].concat());
    assert_eq!(moof.len(), moof_len);
    let mdat = boxed(b"mdat", &samples.concat());
    [moof, mdat].concat()
}

fn payload(id: u8) -> Vec<u8> {
    (0..20 + id).map(|i| id.wrapping_mul(31).wrapping_add(i)).collect()
}

fn file() -> Vec<u8> {
    let mut data = init_segment();
    let mut id = 0u8;
    let mut time = 0;
    for (sequence, count) in [3usize, 3, 1].iter().enumerate() {
        let samples: Vec<Vec<u8>> = (0..*count)
            .map(|_| {
                id += 1;
                payload(id)
            })
            .collect();
        data.extend_from_slice(&fragment(sequence as u32 + 1, time, &samples));
        time += 40 * *count as u32;
    }
    data
}

fn fields(s: &Mp4Sample) -> (u64, u32, i32, bool, Vec<u8>) {
    (
        s.start_time,
        s.duration,
        s.rendering_offset,
        s.is_sync,
        s.bytes.to_vec(),
    )
}

#[test]
fn prefix_samples_equal_complete_file_samples() {
    let data = file();

    // the complete file: 7 samples with the expected bytes and times
    let mut full = Mp4Reader::read_header(Cursor::new(data.clone()), data.len() as u64).unwrap();
    assert!(full.is_fragmented());
    assert_eq!(full.sample_count(1).unwrap(), 7);
    let reference: Vec<Mp4Sample> = (1..=7)
        .map(|id| full.read_sample(1, id).unwrap().unwrap())
        .collect();
    for (i, s) in reference.iter().enumerate() {
        assert_eq!(s.bytes.to_vec(), payload(i as u8 + 1));
        assert_eq!(s.start_time, 40 * i as u64);
        assert_eq!(s.duration, 40);
    }

    let mut opened = 0;
    let mut differing_cuts = 0;
    let mut report = Vec::new();
    for cut in 0..data.len() {
        let prefix = data[..cut].to_vec();
        let outcome = catch_unwind(AssertUnwindSafe(|| {
            let mut diffs = Vec::new();
            let mut reader = match Mp4Reader::read_header(Cursor::new(prefix), cut as u64) {
                Ok(reader) => reader,
                Err(_) => return (false, diffs),
            };
            for id in 1..=7u32 {
                if let Ok(Some(sample)) = reader.read_sample(1, id) {
                    let want = &reference[id as usize - 1];
                    // the crate's own notion of sample equality ...
                    let eq_by_crate = sample == *want;
                    // ... and the field by field one
                    if fields(&sample) != fields(want) || !eq_by_crate {
                        diffs.push(format!(
                            "cut {cut}: sample {id}: complete file -> {want}; prefix -> {sample}"
                        ));
                    }
                }
            }
            (true, diffs)
        }));
        match outcome {
            Ok((ok, diffs)) => {
                opened += ok as usize;
                differing_cuts += !diffs.is_empty() as usize;
                report.extend(diffs);
            }
            Err(_) => report.push(format!("cut {cut}: panic")),
        }
    }

    eprintln!(
        "{} cut points, {} opened, {} of them returned a sample that differs from the complete file",
        data.len(),
        opened,
        differing_cuts
    );
    for line in report.iter().take(12) {
        eprintln!("{line}");
    }
    assert!(
        report.is_empty(),
        "{} samples read from prefixes differ from the complete file ({} cut points)",
        report.len(),
        differing_cuts
    );
}
