// C02 finding 1: the muxer writes chunks, and closes the mdat, at whatever offset the sink
// happens to report, as long as write_end does not find it in front of the mdat header.
//
// The sink is a handle shared with other code (the situation fix d1cbeae was written for:
// `File::try_clone` handles share one offset). Somebody else moving the offset backwards
// between two muxer calls makes the muxer return Ok and leave a file that an independent
// ISO-BMFF parser rejects:
//   * write_end with the offset inside the media data: mdat ends before the chunks do, the moov is
//     written over sample data, stale bytes trail the moov;
//   * write_sample with the offset inside an earlier chunk: chunks of two tracks overlap;
//   * write_sample with the offset at 0: the chunk is written over ftyp and the mdat header.
//
// Every test accepts either outcome that keeps the property: the call is refused (Err), or the
// produced file is valid. On the unmodified crate all three fail.
use mp4::{
    AacConfig, AvcConfig, Bytes, MediaConfig, Mp4Config, Mp4Sample, Mp4Writer, TrackConfig,
    TrackType,
};
use std::cell::RefCell;
use std::io::{self, Cursor, Seek, SeekFrom, Write};
use std::rc::Rc;

// ---------------------------------------------------------------------------------------------
// a sink that is a shared handle: clones share the buffer and the offset (like File::try_clone)
// ---------------------------------------------------------------------------------------------
#[derive(Clone)]
struct Shared(Rc<RefCell<Cursor<Vec<u8>>>>);

impl Shared {
    fn new() -> Self {
        Shared(Rc::new(RefCell::new(Cursor::new(Vec::new()))))
    }
    fn bytes(&self) -> Vec<u8> {
        self.0.borrow().get_ref().clone()
    }
}
impl Write for Shared {
    fn write(&mut self, buf: &[u8]) -> io::Result<usize> {
        self.0.borrow_mut().write(buf)
    }
    fn flush(&mut self) -> io::Result<()> {
        Ok(())
    }
}
impl Seek for Shared {
    fn seek(&mut self, pos: SeekFrom) -> io::Result<u64> {
        self.0.borrow_mut().seek(pos)
    }
}

// ---------------------------------------------------------------------------------------------
// independent, minimal ISO-BMFF checker (shares no code with the crate)
// ---------------------------------------------------------------------------------------------
type R<T> = std::result::Result<T, String>;

fn be32(b: &[u8], o: usize) -> u64 {
    u32::from_be_bytes([b[o], b[o + 1], b[o + 2], b[o + 3]]) as u64
}
fn be64(b: &[u8], o: usize) -> u64 {
    let mut a = [0u8; 8];
    a.copy_from_slice(&b[o..o + 8]);
    u64::from_be_bytes(a)
}

#[derive(Debug, Clone)]
struct Bx {
    typ: [u8; 4],
    body: usize,
    end: usize,
}

/// Boxes must tile [p, end) exactly.
fn boxes(b: &[u8], mut p: usize, end: usize) -> R<Vec<Bx>> {
    let mut v = Vec::new();
    while p < end {
        if end - p < 8 {
            return Err(format!("{} stray bytes at offset {}", end - p, p));
        }
        let mut size = be32(b, p);
        let mut typ = [0u8; 4];
        typ.copy_from_slice(&b[p + 4..p + 8]);
        let mut hdr = 8usize;
        if size == 1 {
            if end - p < 16 {
                return Err("truncated largesize".into());
            }
            size = be64(b, p + 8);
            hdr = 16;
        } else if size == 0 {
            size = (end - p) as u64;
        }
        if size < hdr as u64 || p as u64 + size > end as u64 {
            return Err(format!(
                "box '{}' at offset {} declares size {}, its parent ends at {}",
                String::from_utf8_lossy(&typ),
                p,
                size,
                end
            ));
        }
        v.push(Bx {
            typ,
            body: p + hdr,
            end: p + size as usize,
        });
        p += size as usize;
    }
    Ok(v)
}

fn one<'a>(v: &'a [Bx], t: &[u8; 4]) -> R<&'a Bx> {
    let f: Vec<&Bx> = v.iter().filter(|x| &x.typ == t).collect();
    if f.len() != 1 {
        return Err(format!(
            "expected exactly one '{}' box, found {}",
            String::from_utf8_lossy(t),
            f.len()
        ));
    }
    Ok(f[0])
}

/// `expected[i]` = number of samples successfully written to track i+1.
fn check(b: &[u8], expected: &[u64]) -> R<()> {
    let top = boxes(b, 0, b.len())?;
    if top.is_empty() || &top[0].typ != b"ftyp" {
        return Err("the file does not start with an ftyp box".into());
    }
    one(&top, b"ftyp")?;
    let moov = one(&top, b"moov")?;
    let mdat = one(&top, b"mdat")?;
    if top.len() != 3 {
        return Err(format!("{} top-level boxes, expected ftyp/mdat/moov", top.len()));
    }
    let mv = boxes(b, moov.body, moov.end)?;
    one(&mv, b"mvhd")?;
    let traks: Vec<&Bx> = mv.iter().filter(|x| &x.typ == b"trak").collect();
    if traks.len() != expected.len() {
        return Err("wrong number of trak boxes".into());
    }
    let mut chunks: Vec<(u64, u64, usize)> = Vec::new();
    for (ti, trak) in traks.iter().enumerate() {
        let tk = boxes(b, trak.body, trak.end)?;
        let mdia = one(&tk, b"mdia")?;
        let md = boxes(b, mdia.body, mdia.end)?;
        let minf = one(&md, b"minf")?;
        let mi = boxes(b, minf.body, minf.end)?;
        let stbl = one(&mi, b"stbl")?;
        let st = boxes(b, stbl.body, stbl.end)?;

        let stsz = one(&st, b"stsz")?;
        let fixed = be32(b, stsz.body + 4);
        let count = be32(b, stsz.body + 8);
        if count != expected[ti] {
            return Err(format!("trak {}: stsz has {} samples, wrote {}", ti + 1, count, expected[ti]));
        }
        let sizes: Vec<u64> = if fixed != 0 {
            vec![fixed; count as usize]
        } else {
            (0..count as usize).map(|i| be32(b, stsz.body + 12 + 4 * i)).collect()
        };

        let mut offs: Vec<u64> = Vec::new();
        for x in st.iter() {
            if &x.typ == b"stco" {
                let n = be32(b, x.body + 4) as usize;
                offs.extend((0..n).map(|i| be32(b, x.body + 8 + 4 * i)));
            } else if &x.typ == b"co64" {
                let n = be32(b, x.body + 4) as usize;
                offs.extend((0..n).map(|i| be64(b, x.body + 8 + 8 * i)));
            }
        }

        let stsc = one(&st, b"stsc")?;
        let n = be32(b, stsc.body + 4) as usize;
        let ent: Vec<(u64, u64)> = (0..n)
            .map(|i| (be32(b, stsc.body + 8 + 12 * i), be32(b, stsc.body + 12 + 12 * i)))
            .collect();
        let mut per_chunk = vec![0u64; offs.len()];
        for (i, e) in ent.iter().enumerate() {
            let next = if i + 1 < ent.len() { ent[i + 1].0 } else { offs.len() as u64 + 1 };
            if e.0 == 0 || next > offs.len() as u64 + 1 || next <= e.0 {
                return Err("malformed stsc".into());
            }
            for c in e.0..next {
                per_chunk[c as usize - 1] = e.1;
            }
        }
        if per_chunk.iter().sum::<u64>() != count {
            return Err(format!("trak {}: stsc does not account for all samples", ti + 1));
        }

        let mut si = 0usize;
        for (ci, off) in offs.iter().enumerate() {
            let len: u64 = sizes[si..si + per_chunk[ci] as usize].iter().sum();
            si += per_chunk[ci] as usize;
            if *off < mdat.body as u64 || off + len > mdat.end as u64 {
                return Err(format!(
                    "trak {} chunk {} occupies [{}, {}) but the mdat payload is [{}, {})",
                    ti + 1,
                    ci + 1,
                    off,
                    off + len,
                    mdat.body,
                    mdat.end
                ));
            }
            chunks.push((*off, off + len, ti + 1));
        }
    }
    chunks.sort();
    for w in chunks.windows(2) {
        if w[0].1 > w[1].0 {
            return Err(format!(
                "chunks overlap: trak {} [{}, {}) and trak {} [{}, {})",
                w[0].2, w[0].0, w[0].1, w[1].2, w[1].0, w[1].1
            ));
        }
    }
    Ok(())
}

// ---------------------------------------------------------------------------------------------
// scenarios
// ---------------------------------------------------------------------------------------------
fn config() -> Mp4Config {
    Mp4Config {
        major_brand: str::parse("isom").unwrap(),
        minor_version: 512,
        compatible_brands: vec![str::parse("isom").unwrap(), str::parse("mp41").unwrap()],
        timescale: 1000,
    }
}

fn video() -> TrackConfig {
    TrackConfig {
        track_type: TrackType::Video,
        timescale: 1000,
        language: "und".into(),
        media_conf: MediaConfig::AvcConfig(AvcConfig {
            width: 320,
            height: 240,
            seq_param_set: vec![0x67, 0x42, 0xc0, 0x1e, 0xd9, 0x00],
            pic_param_set: vec![0x68, 0xce, 0x3c, 0x80],
        }),
    }
}

fn audio() -> TrackConfig {
    TrackConfig {
        track_type: TrackType::Audio,
        timescale: 1000,
        language: "und".into(),
        media_conf: MediaConfig::AacConfig(AacConfig::default()),
    }
}

/// One second long (= one chunk per sample with the writer's one-second chunking).
fn sample(len: usize, fill: u8) -> Mp4Sample {
    Mp4Sample {
        start_time: 0,
        duration: 1000,
        rendering_offset: 0,
        is_sync: true,
        bytes: Bytes::from(vec![fill; len]),
    }
}

/// Sanity: with nobody touching the handle the checker accepts the output.
#[test]
fn baseline_is_accepted_by_the_checker() {
    let sink = Shared::new();
    let mut w = Mp4Writer::write_start(sink.clone(), &config()).unwrap();
    w.add_track(&video()).unwrap();
    w.add_track(&audio()).unwrap();
    for i in 0..3 {
        w.write_sample(1, &sample(100, i)).unwrap();
        w.write_sample(2, &sample(40, 0x80 + i)).unwrap();
    }
    w.write_end().unwrap();
    check(&sink.bytes(), &[3, 3]).unwrap();
}

/// write_end with the shared offset inside the media data.
#[test]
fn write_end_with_the_stream_inside_the_media_data() {
    let sink = Shared::new();
    let mut other = sink.clone();
    let mut w = Mp4Writer::write_start(sink.clone(), &config()).unwrap();
    let data_start = other.stream_position().unwrap(); // behind ftyp + mdat + wide headers
    w.add_track(&video()).unwrap();
    for i in 0..3 {
        w.write_sample(1, &sample(100, i)).unwrap();
    }

    // The other owner of the handle re-reads the second sample and leaves the offset there.
    other.seek(SeekFrom::Start(data_start + 150)).unwrap();

    match w.write_end() {
        Err(_) => {} // refusing is fine
        Ok(()) => {
            if let Err(e) = check(&sink.bytes(), &[3]) {
                panic!("write_end returned Ok but the file is invalid: {}", e);
            }
        }
    }
}

/// write_sample (a chunk flush) with the shared offset inside a chunk of another track.
#[test]
fn write_sample_with_the_stream_inside_an_earlier_chunk() {
    let sink = Shared::new();
    let mut other = sink.clone();
    let mut w = Mp4Writer::write_start(sink.clone(), &config()).unwrap();
    let data_start = other.stream_position().unwrap();
    w.add_track(&video()).unwrap();
    w.add_track(&audio()).unwrap();
    w.write_sample(1, &sample(100, 0x11)).unwrap();
    w.write_sample(1, &sample(100, 0x22)).unwrap();
    let mut written = [2u64, 0u64];

    other.seek(SeekFrom::Start(data_start + 50)).unwrap();

    if w.write_sample(2, &sample(300, 0x33)).is_ok() {
        written[1] += 1;
    }
    match w.write_end() {
        Err(_) => {}
        Ok(()) => {
            if let Err(e) = check(&sink.bytes(), &written) {
                panic!("every call returned Ok but the file is invalid: {}", e);
            }
        }
    }
}

/// write_sample (a chunk flush) with the shared offset at the start of the file.
#[test]
fn write_sample_with_the_stream_at_the_start_of_the_file() {
    let sink = Shared::new();
    let mut other = sink.clone();
    let mut w = Mp4Writer::write_start(sink.clone(), &config()).unwrap();
    w.add_track(&video()).unwrap();
    let mut written = [0u64];

    // The other owner looks at the file header and leaves the offset at 0.
    other.seek(SeekFrom::Start(0)).unwrap();

    if w.write_sample(1, &sample(300, 0x44)).is_ok() {
        written[0] += 1;
    }
    match w.write_end() {
        Err(_) => {}
        Ok(()) => {
            if let Err(e) = check(&sink.bytes(), &written) {
                panic!("every call returned Ok but the file is invalid: {}", e);
            }
        }
    }
}
