// C13 demonstration: a media / track / movie duration of exactly 2^32-1 ticks ("just below" the
// 2^32 limit) is written into the 32-bit duration field of a version-0 header, where the
// all-ones pattern is reserved by ISO/IEC 14496-12 (8.2.2.3 mvhd, 8.3.2.3 tkhd, 8.4.2.3 mdhd:
// "if the duration cannot be determined then duration is set to all 1s").  The 32-bit field can
// hold the determinate durations 0..=0xFFFF_FFFE only, so 0xFFFF_FFFF needs the version-1 form.
//
// run: cargo test --offline --test c13_duration_all_ones
use mp4::*;
use std::io::Cursor;

fn mux(durations: &[u32]) -> Vec<u8> {
    let config = Mp4Config {
        major_brand: str::parse("isom").unwrap(),
        minor_version: 512,
        compatible_brands: vec![str::parse("isom").unwrap()],
        timescale: 1000,
    };
    let mut w = Mp4Writer::write_start(Cursor::new(Vec::new()), &config).unwrap();
    w.add_track(&TrackConfig {
        track_type: TrackType::Video,
        timescale: 1000,
        language: "und".into(),
        media_conf: MediaConfig::AvcConfig(AvcConfig {
            width: 320,
            height: 240,
            seq_param_set: vec![0x67, 0x42, 0xc0, 0x1e, 0xd9],
            pic_param_set: vec![0x68, 0xce, 0x3c, 0x80],
        }),
    })
    .unwrap();
    for (i, d) in durations.iter().enumerate() {
        w.write_sample(
            1,
            &Mp4Sample {
                start_time: 0,
                duration: *d,
                rendering_offset: 0,
                is_sync: true,
                bytes: Bytes::from(vec![i as u8 + 1; 10]),
            },
        )
        .unwrap();
    }
    w.write_end().unwrap();
    w.into_writer().into_inner()
}

/// (version, duration) of mdhd, tkhd, mvhd as this crate reads them back
fn headers(file: &[u8]) -> [(&'static str, u8, u64); 3] {
    let r = Mp4Reader::read_header(Cursor::new(file), file.len() as u64).unwrap();
    let t = &r.tracks()[&1];
    [
        ("mdhd", t.trak.mdia.mdhd.version, t.trak.mdia.mdhd.duration),
        ("tkhd", t.trak.tkhd.version, t.trak.tkhd.duration),
        ("mvhd", r.moov.mvhd.version, r.moov.mvhd.duration),
    ]
}

/// the raw 32-bit duration field of a version-0 mdhd found in the file, if there is one
fn raw_v0_mdhd_duration(file: &[u8]) -> Option<[u8; 4]> {
    let at = file.windows(4).position(|w| w == b"mdhd")?;
    let body = &file[at + 4..];
    if body[0] != 0 {
        return None;
    }
    // version/flags(4) creation(4) modification(4) timescale(4) duration(4)
    Some([body[16], body[17], body[18], body[19]])
}

#[test]
fn control_two_below_and_at_the_limit() {
    // 2^32-2: the 32-bit form can represent it
    let f = mux(&[u32::MAX - 1]);
    for (name, version, duration) in headers(&f).iter() {
        assert_eq!((*version, *duration), (0, 0xFFFF_FFFE), "{}", name);
    }
    // 2^32: switches to the 64-bit form
    let f = mux(&[u32::MAX, 1]);
    for (name, version, duration) in headers(&f).iter() {
        assert_eq!((*version, *duration), (1, 1 << 32), "{}", name);
    }
}

#[test]
fn duration_two_pow_32_minus_one_is_not_written_as_the_unknown_marker() {
    // cumulative duration 2^32-1 ticks, reached with one sample or with several
    for durs in [&[u32::MAX][..], &[u32::MAX - 5, 5][..], &[0x8000_0000, 0x7FFF_FFFF][..]].iter() {
        let f = mux(durs);
        for (name, version, duration) in headers(&f).iter() {
            assert_eq!(*duration, 0xFFFF_FFFF, "{}", name);
            assert!(
                !(*version == 0 && *duration == 0xFFFF_FFFF),
                "{}: duration 2^32-1 was stored in the 32-bit field of a version-0 box, where \
                 0xFFFFFFFF means \"duration cannot be determined\" (samples {:?})",
                name,
                durs
            );
        }
        assert_ne!(
            raw_v0_mdhd_duration(&f),
            Some([0xFF; 4]),
            "version-0 mdhd carries the all-ones duration"
        );
    }
}
