// C01 finding 2: a write_end that the muxer REJECTS (the sink reported an I/O error) leaves a
// trace in the muxer: every track whose own part of write_end had already succeeded has lost
// its chunk offset table (`co64` was replaced by `stco` inside the writer's own state,
// src/track.rs:1066-1069). The caller cannot finish the file any more: trying write_end again,
// or writing another sample first, panics with `Option::unwrap()` on a `None` value instead
// of producing the movie. This is not the "write_end called twice" case: exactly one write_end
// succeeds here, the earlier one is a rejected call like any other.
//
// On the unmodified crate all three tests die with
//   called `Option::unwrap()` on a `None` value   (src/track.rs:1066 or src/track.rs:994)

use mp4::*;
use std::cell::RefCell;
use std::io::{self, Cursor, Seek, SeekFrom, Write};
use std::rc::Rc;

/// In-memory file whose n-th upcoming `write` call fails once ("disk full", then space is freed).
#[derive(Clone)]
struct Sink {
    file: Rc<RefCell<Cursor<Vec<u8>>>>,
    fail_after: Rc<RefCell<Option<u32>>>,
}

impl Write for Sink {
    fn write(&mut self, buf: &[u8]) -> io::Result<usize> {
        let mut fail_after = self.fail_after.borrow_mut();
        match *fail_after {
            Some(0) => {
                *fail_after = None;
                return Err(io::Error::new(io::ErrorKind::Other, "no space left on device"));
            }
            Some(n) => *fail_after = Some(n - 1),
            None => {}
        }
        self.file.borrow_mut().write(buf)
    }
    fn flush(&mut self) -> io::Result<()> {
        Ok(())
    }
}

impl Seek for Sink {
    fn seek(&mut self, pos: SeekFrom) -> io::Result<u64> {
        self.file.borrow_mut().seek(pos)
    }
}

fn sample(text: &'static str) -> Mp4Sample {
    Mp4Sample {
        start_time: 0,
        duration: 10, // far below one second: stays buffered until write_end
        rendering_offset: 0,
        is_sync: true,
        bytes: Bytes::from_static(text.as_bytes()),
    }
}

fn start() -> (Sink, Mp4Writer<Sink>) {
    let sink = Sink {
        file: Rc::new(RefCell::new(Cursor::new(Vec::new()))),
        fail_after: Rc::new(RefCell::new(None)),
    };
    let config = Mp4Config {
        major_brand: str::parse("isom").unwrap(),
        minor_version: 512,
        compatible_brands: vec![str::parse("isom").unwrap()],
        timescale: 1000,
    };
    let mut w = Mp4Writer::write_start(sink.clone(), &config).unwrap();
    for _ in 0..2 {
        w.add_track(&TrackConfig {
            track_type: TrackType::Subtitle,
            timescale: 1000,
            language: "und".into(),
            media_conf: MediaConfig::TtxtConfig(TtxtConfig {}),
        })
        .unwrap();
    }
    w.write_sample(1, &sample("first track, first sample")).unwrap();
    w.write_sample(2, &sample("second track, first sample")).unwrap();
    (sink, w)
}

fn check(sink: &Sink, expect: &[&[&str]]) {
    let data = sink.file.borrow().get_ref().clone();
    let len = data.len() as u64;
    let mut r = Mp4Reader::read_header(Cursor::new(data), len).unwrap();
    assert_eq!(r.tracks().len(), expect.len());
    for (t, samples) in expect.iter().enumerate() {
        let id = t as u32 + 1;
        assert_eq!(r.sample_count(id).unwrap(), samples.len() as u32);
        for (k, text) in samples.iter().enumerate() {
            let got = r.read_sample(id, k as u32 + 1).unwrap().unwrap();
            assert_eq!(&got.bytes[..], text.as_bytes());
            assert_eq!(got.start_time, 10 * k as u64);
        }
        assert!(r.read_sample(id, samples.len() as u32 + 1).unwrap().is_none());
    }
}

/// The flush of the second track's last chunk fails; the caller tries write_end again.
#[test]
fn write_end_again_after_chunk_flush_failed() {
    let (sink, mut w) = start();
    // write #0 = track 1's chunk (succeeds), write #1 = track 2's chunk (fails)
    *sink.fail_after.borrow_mut() = Some(1);
    assert!(w.write_end().is_err(), "the sink failed, write_end must report it");

    w.write_end().expect("the sink works again, the movie can be finished");
    check(
        &sink,
        &[&["first track, first sample"], &["second track, first sample"]],
    );
}

/// Both chunks are flushed, the sink fails somewhere inside the moov box.
#[test]
fn write_end_again_after_moov_write_failed() {
    let (sink, mut w) = start();
    *sink.fail_after.borrow_mut() = Some(40);
    assert!(w.write_end().is_err(), "the sink failed, write_end must report it");

    w.write_end().expect("the sink works again, the movie can be finished");
    check(
        &sink,
        &[&["first track, first sample"], &["second track, first sample"]],
    );
}

/// After the rejected write_end the caller carries on muxing and finishes later.
#[test]
fn write_sample_after_write_end_failed() {
    let (sink, mut w) = start();
    *sink.fail_after.borrow_mut() = Some(1);
    assert!(w.write_end().is_err(), "the sink failed, write_end must report it");

    // one second long: completes a chunk, the writer needs its chunk offset table
    let mut second = sample("first track, second sample");
    second.duration = 1000;
    w.write_sample(1, &second).expect("the muxer has no reason to refuse this sample");
    w.write_end().expect("the sink works again, the movie can be finished");
    check(
        &sink,
        &[
            &["first track, first sample", "first track, second sample"],
            &["second track, first sample"],
        ],
    );
}
