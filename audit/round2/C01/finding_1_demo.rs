// C01 finding 1: the muxer trusts the sink's current offset for every chunk it writes and for
// the moov. The repair in d1cbeae ("write_end reports an error when the stream is positioned
// before the media data") only refuses offsets in front of the mdat/wide headers. With the same
// kind of sink that commit talks about (a shared handle whose offset was moved back between two
// calls) but an offset that lies INSIDE the media data already written, write_sample and
// write_end still return Ok and silently overwrite samples that were accepted earlier.
//
// Each test accepts either outcome that is compatible with C01:
//   * the muxer rejects the call (Err), or
//   * every accepted sample reads back exactly.
// On the unmodified crate all calls return Ok and the samples read back wrong / not at all.

use mp4::*;
use std::cell::RefCell;
use std::io::{self, Cursor, Seek, SeekFrom, Write};
use std::rc::Rc;

/// One in-memory file, two handles on it (think `File::try_clone`): both share the offset.
#[derive(Clone)]
struct Shared(Rc<RefCell<Cursor<Vec<u8>>>>);

impl Write for Shared {
    fn write(&mut self, buf: &[u8]) -> io::Result<usize> {
        self.0.borrow_mut().write(buf)
    }
    fn flush(&mut self) -> io::Result<()> {
        Ok(())
    }
}
impl Seek for Shared {
    fn seek(&mut self, pos: SeekFrom) -> io::Result<u64> {
        self.0.borrow_mut().seek(pos)
    }
}

fn sample(k: u8) -> Mp4Sample {
    Mp4Sample {
        start_time: 0,
        duration: 1000, // one second at timescale 1000: every sample completes its chunk
        rendering_offset: 0,
        is_sync: true,
        bytes: Bytes::from(vec![k; 64]),
    }
}

fn start(sink: &Shared) -> Mp4Writer<Shared> {
    let config = Mp4Config {
        major_brand: str::parse("isom").unwrap(),
        minor_version: 512,
        compatible_brands: vec![str::parse("isom").unwrap()],
        timescale: 1000,
    };
    let mut w = Mp4Writer::write_start(sink.clone(), &config).unwrap();
    w.add_track(&TrackConfig {
        track_type: TrackType::Video,
        timescale: 1000,
        language: "und".into(),
        media_conf: MediaConfig::Vp9Config(Vp9Config {
            width: 16,
            height: 16,
        }),
    })
    .unwrap();
    w
}

fn check(sink: &Shared, written: &[Mp4Sample]) {
    let data = sink.0.borrow().get_ref().clone();
    let len = data.len() as u64;
    let mut r = Mp4Reader::read_header(Cursor::new(data), len)
        .expect("every muxer call returned Ok, so the output must open");
    assert_eq!(r.sample_count(1).unwrap(), written.len() as u32);
    for (k, s) in written.iter().enumerate() {
        let got = r
            .read_sample(1, k as u32 + 1)
            .unwrap()
            .expect("sample must exist");
        assert_eq!(
            got.bytes,
            s.bytes,
            "sample {} was accepted by the muxer but reads back differently",
            k + 1
        );
    }
}

/// write_sample with the shared offset moved back into the media data.
#[test]
fn write_sample_with_offset_inside_media_data() {
    let sink = Shared(Rc::new(RefCell::new(Cursor::new(Vec::new()))));
    let mut w = start(&sink);
    let mut written = vec![];

    w.write_sample(1, &sample(1)).unwrap();
    written.push(sample(1));
    let after_first = sink.0.borrow_mut().stream_position().unwrap();
    for k in 2..=3 {
        w.write_sample(1, &sample(k)).unwrap();
        written.push(sample(k));
    }

    // the other holder of the handle moves the shared offset back (still behind the mdat header)
    sink.clone().seek(SeekFrom::Start(after_first)).unwrap();

    match w.write_sample(1, &sample(4)) {
        Ok(()) => written.push(sample(4)),
        Err(_) => {} // rejecting is fine
    }
    // put the offset where a careful caller would, so that only write_sample is under test
    sink.clone().seek(SeekFrom::End(0)).unwrap();
    if w.write_end().is_err() {
        return; // rejecting is fine
    }
    check(&sink, &written);
}

/// write_end with the shared offset moved back into the media data: passes the d1cbeae check.
#[test]
fn write_end_with_offset_inside_media_data() {
    let sink = Shared(Rc::new(RefCell::new(Cursor::new(Vec::new()))));
    let mut w = start(&sink);
    let mut written = vec![];

    w.write_sample(1, &sample(1)).unwrap();
    written.push(sample(1));
    let after_first = sink.0.borrow_mut().stream_position().unwrap();
    for k in 2..=3 {
        w.write_sample(1, &sample(k)).unwrap();
        written.push(sample(k));
    }

    sink.clone().seek(SeekFrom::Start(after_first)).unwrap();

    if w.write_end().is_err() {
        return; // rejecting is fine (this is what d1cbeae does for offsets before the header)
    }
    check(&sink, &written);
}

/// write_sample with the offset in front of the mdat box: the chunk lands on top of ftyp and of
/// the mdat header, and write_end then patches the "mdat size" into the sample's own bytes.
#[test]
fn write_sample_with_offset_before_mdat() {
    let sink = Shared(Rc::new(RefCell::new(Cursor::new(Vec::new()))));
    let mut w = start(&sink);
    let mut written = vec![];

    sink.clone().seek(SeekFrom::Start(0)).unwrap();

    match w.write_sample(1, &sample(1)) {
        Ok(()) => written.push(sample(1)),
        Err(_) => {}
    }
    if w.write_end().is_err() {
        return;
    }
    check(&sink, &written);
}
