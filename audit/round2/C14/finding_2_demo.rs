// C14 finding 2: an AVC track configured with a Constrained Baseline SPS
// (profile_idc 66, constraint_set1_flag set) is reported by the reader as plain Baseline.
use mp4::*;
use std::io::Cursor;

fn roundtrip_profile(sps: Vec<u8>) -> (AvcProfile, Vec<u8>) {
    let config = Mp4Config {
        major_brand: str::parse("isom").unwrap(),
        minor_version: 512,
        compatible_brands: vec![str::parse("avc1").unwrap()],
        timescale: 1000,
    };
    let mut writer = Mp4Writer::write_start(Cursor::new(Vec::new()), &config).unwrap();
    writer
        .add_track(&TrackConfig {
            track_type: TrackType::Video,
            timescale: 90000,
            language: String::from("und"),
            media_conf: MediaConfig::AvcConfig(AvcConfig {
                width: 640,
                height: 360,
                seq_param_set: sps,
                pic_param_set: vec![0x68, 0xCE, 0x3C, 0x80],
            }),
        })
        .unwrap();
    writer.write_end().unwrap();

    let data = writer.into_writer().into_inner();
    let size = data.len() as u64;
    let reader = Mp4Reader::read_header(Cursor::new(data), size).unwrap();
    let track = reader.tracks().get(&1).unwrap();
    (
        track.video_profile().unwrap(),
        track.sequence_parameter_set().unwrap().to_vec(),
    )
}

#[test]
fn constrained_baseline_is_reported_as_baseline() {
    // nal header 0x67, profile_idc = 66, constraint_set0_flag | constraint_set1_flag = 0xC0,
    // level_idc = 30: the SPS header every "Constrained Baseline@3.0" encoder emits (42C01E).
    let sps = vec![0x67, 66, 0xC0, 30, 0xDA, 0x02, 0x80, 0xBF, 0xE5];
    let (profile, sps_back) = roundtrip_profile(sps.clone());
    // the bytes survive ...
    assert_eq!(sps_back, sps);
    // ... the profile the reader derives from them does not
    assert_eq!(profile, AvcProfile::AvcConstrainedBaseline);
}

#[test]
fn plain_baseline_stays_baseline() {
    // constraint_set1_flag clear: this one is Baseline (control case, passes today)
    let sps = vec![0x67, 66, 0x80, 30, 0xDA, 0x02, 0x80, 0xBF, 0xE5];
    let (profile, _) = roundtrip_profile(sps);
    assert_eq!(profile, AvcProfile::AvcBaseline);
}
