// C14 finding 1: Mp4Config.timescale == 0 is accepted by the muxer, and the finished file
// reports a movie duration of zero no matter how much media was written.
use mp4::*;
use std::io::Cursor;
use std::time::Duration;

#[test]
fn zero_movie_timescale_loses_the_movie_duration() {
    let config = Mp4Config {
        major_brand: str::parse("isom").unwrap(),
        minor_version: 512,
        compatible_brands: vec![str::parse("isom").unwrap()],
        timescale: 0, // accepted; a zero *track* timescale is rejected by add_track
    };

    // A maintainer may choose to refuse the configuration instead: that also satisfies the
    // property ("for every configuration the muxer accepts").
    let mut writer = match Mp4Writer::write_start(Cursor::new(Vec::new()), &config) {
        Ok(writer) => writer,
        Err(_) => return,
    };

    let track = TrackConfig {
        track_type: TrackType::Audio,
        timescale: 48000,
        language: String::from("eng"),
        media_conf: MediaConfig::AacConfig(AacConfig {
            bitrate: 128_000,
            profile: AudioObjectType::AacLowComplexity,
            freq_index: SampleFreqIndex::Freq48000,
            chan_conf: ChannelConfig::Stereo,
        }),
    };
    writer.add_track(&track).unwrap();

    // 10 samples of one second each
    for _ in 0..10 {
        writer
            .write_sample(
                1,
                &Mp4Sample {
                    start_time: 0,
                    duration: 48000,
                    rendering_offset: 0,
                    is_sync: true,
                    bytes: Bytes::from_static(&[1, 2, 3, 4]),
                },
            )
            .unwrap();
    }
    writer.write_end().unwrap();

    let data = writer.into_writer().into_inner();
    let size = data.len() as u64;
    let reader = Mp4Reader::read_header(Cursor::new(data), size).unwrap();

    // the track knows about its ten seconds ...
    let t = reader.tracks().get(&1).unwrap();
    assert_eq!(t.duration(), Duration::from_secs(10));

    // ... the movie does not: mvhd.duration (and tkhd.duration) were computed as
    // `media_duration * 0 / track_timescale` and the reader cannot divide by timescale 0.
    assert_eq!(reader.timescale(), config.timescale);
    assert_eq!(
        reader.duration(),
        Duration::from_secs(10),
        "movie duration must equal the summed sample durations (mvhd.duration = {}, tkhd.duration = {})",
        reader.moov.mvhd.duration,
        t.trak.tkhd.duration,
    );
}
