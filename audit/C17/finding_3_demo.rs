//! C17 audit demonstration: the size of a sample is stored with `sample.bytes.len() as u32`
//! (src/track.rs:901), a truncating cast.
//!
//! A sample of 2^32 + 5 bytes ("very large samples" are named in the statement of C17) is
//! accepted, `write_sample` and `write_end` return Ok, all 2^32 + 5 bytes are sent to the
//! sink, and the sample table of the output says the sample is 5 bytes long. Neither build
//! profile panics; the output silently disagrees with what was written.
//!
//! WARNING: the muxer copies every sample into its chunk buffer, so this test needs about
//! 4.5 GiB of resident memory (the source buffer is never-touched zero memory and costs
//! nothing; the sink forgets the payload). It takes ~10 s. It is #[ignore]d for that reason:
//!
//! cargo test --offline --release --test c17_huge_sample_truncated -- --ignored

use mp4::*;
use std::io::{Read, Seek, SeekFrom, Write};

/// A seekable sink that keeps only small writes (box headers, the moov box) and forgets the
/// payload of large ones (the chunk data, all zero bytes here). Reads give zeros for the
/// forgotten ranges.
#[derive(Default)]
struct Sparse {
    pos: u64,
    len: u64,
    small: Vec<(u64, Vec<u8>)>,
}

impl Write for Sparse {
    fn write(&mut self, buf: &[u8]) -> std::io::Result<usize> {
        if buf.len() <= 4096 {
            self.small.push((self.pos, buf.to_vec()));
        }
        self.pos += buf.len() as u64;
        self.len = self.len.max(self.pos);
        Ok(buf.len())
    }
    fn flush(&mut self) -> std::io::Result<()> {
        Ok(())
    }
}

impl Seek for Sparse {
    fn seek(&mut self, p: SeekFrom) -> std::io::Result<u64> {
        let new = match p {
            SeekFrom::Start(x) => Some(x),
            SeekFrom::Current(d) => self.pos.checked_add_signed(d),
            SeekFrom::End(d) => self.len.checked_add_signed(d),
        };
        match new {
            Some(n) => {
                self.pos = n;
                Ok(n)
            }
            None => Err(std::io::Error::new(
                std::io::ErrorKind::InvalidInput,
                "invalid seek",
            )),
        }
    }
}

impl Read for Sparse {
    fn read(&mut self, buf: &mut [u8]) -> std::io::Result<usize> {
        let n = (buf.len() as u64).min(self.len.saturating_sub(self.pos)) as usize;
        buf[..n].fill(0);
        let (s, e) = (self.pos, self.pos + n as u64);
        for (off, data) in &self.small {
            let (ds, de) = (*off, *off + data.len() as u64);
            let (a, b) = (ds.max(s), de.min(e));
            if a < b {
                buf[(a - s) as usize..(b - s) as usize]
                    .copy_from_slice(&data[(a - ds) as usize..(b - ds) as usize]);
            }
        }
        self.pos += n as u64;
        Ok(n)
    }
}

#[test]
#[ignore = "needs about 4.5 GiB of memory"]
fn a_sample_of_4_gib_is_an_error_or_is_recorded_with_its_size() {
    let config = Mp4Config {
        major_brand: str::parse("isom").unwrap(),
        minor_version: 0,
        compatible_brands: vec![],
        timescale: 1000,
    };
    let mut writer = Mp4Writer::write_start(Sparse::default(), &config).unwrap();
    writer
        .add_track(&TrackConfig {
            track_type: TrackType::Subtitle,
            timescale: 1000,
            language: "und".into(),
            media_conf: MediaConfig::TtxtConfig(TtxtConfig {}),
        })
        .unwrap();

    let size = (1usize << 32) + 5;
    let huge = Mp4Sample {
        start_time: 0,
        duration: 1000,
        rendering_offset: 0,
        is_sync: true,
        bytes: Bytes::from(vec![0u8; size]),
    };
    if writer.write_sample(1, &huge).is_err() {
        return; // rejecting a sample whose size does not fit the 32-bit stsz field is fine
    }
    drop(huge);
    writer.write_end().unwrap();

    // Every call succeeded: the sample table has to describe what was written.
    let mut sink = writer.into_writer();
    let len = sink.len;
    assert!(len > size as u64, "the payload was sent to the sink");
    sink.seek(SeekFrom::Start(0)).unwrap();
    let mp4 = Mp4Reader::read_header(sink, len).unwrap();
    let stsz = &mp4.tracks()[&1].trak.mdia.minf.stbl.stsz;
    let recorded = if stsz.sample_size > 0 {
        stsz.sample_size
    } else {
        stsz.sample_sizes[0]
    };
    assert_eq!(
        recorded as u64, size as u64,
        "write_sample and write_end returned Ok for a {size}-byte sample, the file records another size"
    );
}
