//! C17 audit demonstration: `Mp4Writer::write_end` trusts that the sink is still positioned
//! after the mdat header it wrote in `write_start`.
//!
//! `update_mdat_size` (src/writer.rs:118-119) computes `mdat_end - self.mdat_pos` from
//! `stream_position()` without a check. If the sink reports a position in front of the mdat
//! header, then
//!
//!  * debug build: `write_end` panics ("attempt to subtract with overflow"),
//!  * release build: the subtraction wraps, `write_end` returns Ok(()) after writing a
//!    2^64-ish "largesize" into the mdat header and the moov box over the start of the file,
//!    so every muxer call succeeded and the output is not an MP4 file.
//!
//! The sink here is a shared handle (the same thing happens with `&File`, or with a
//! `File::try_clone()` pair, which share one file offset): the application looks at the
//! bytes produced so far and leaves the stream rewound. All configuration values and all
//! samples are perfectly ordinary.
//!
//! cargo test --offline --test c17_sink_rewound            (panic)
//! cargo test --offline --release --test c17_sink_rewound  (Ok + unreadable output)

use mp4::*;
use std::cell::RefCell;
use std::io::{Cursor, Seek, SeekFrom, Write};
use std::panic::{catch_unwind, AssertUnwindSafe};
use std::rc::Rc;

#[derive(Clone, Default)]
struct Shared(Rc<RefCell<Cursor<Vec<u8>>>>);

impl Write for Shared {
    fn write(&mut self, buf: &[u8]) -> std::io::Result<usize> {
        self.0.borrow_mut().write(buf)
    }
    fn flush(&mut self) -> std::io::Result<()> {
        self.0.borrow_mut().flush()
    }
}

impl Seek for Shared {
    fn seek(&mut self, pos: SeekFrom) -> std::io::Result<u64> {
        self.0.borrow_mut().seek(pos)
    }
}

#[test]
fn write_end_on_a_rewound_sink_is_an_error_not_a_panic() {
    let config = Mp4Config {
        major_brand: str::parse("isom").unwrap(),
        minor_version: 512,
        compatible_brands: vec![str::parse("isom").unwrap()],
        timescale: 1000,
    };
    let sink = Shared::default();
    let mut writer = Mp4Writer::write_start(sink.clone(), &config).unwrap();
    writer
        .add_track(&TrackConfig {
            track_type: TrackType::Video,
            timescale: 1000,
            language: "und".into(),
            media_conf: MediaConfig::Vp9Config(Vp9Config {
                width: 16,
                height: 16,
            }),
        })
        .unwrap();
    // one full chunk (duration == one second), flushed by write_sample itself
    writer
        .write_sample(
            1,
            &Mp4Sample {
                start_time: 0,
                duration: 1000,
                rendering_offset: 0,
                is_sync: true,
                bytes: Bytes::from_static(b"0123456789"),
            },
        )
        .unwrap();

    // The application inspects what has been produced so far and leaves the shared
    // stream at its start.
    sink.0.borrow_mut().seek(SeekFrom::Start(0)).unwrap();

    let outcome = catch_unwind(AssertUnwindSafe(|| writer.write_end()));
    let result = match outcome {
        Ok(result) => result,
        Err(_) => panic!("C17 violated: write_end panicked instead of returning an error"),
    };

    if result.is_ok() {
        // "When every call succeeds, the output still satisfies the other muxer properties":
        // at the very least it has to open and contain the sample.
        let bytes = sink.0.borrow().get_ref().clone();
        let len = bytes.len() as u64;
        let mut mp4 = Mp4Reader::read_header(Cursor::new(bytes), len)
            .expect("C17 violated: every muxer call returned Ok but the output does not open");
        let sample = mp4.read_sample(1, 1).unwrap().unwrap();
        assert_eq!(&sample.bytes[..], b"0123456789");
    }
}
