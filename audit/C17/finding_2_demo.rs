//! C17 audit demonstration: the per-track sample counters of the muxer are plain `u32`s that
//! are incremented without a check.
//!
//! Writing 2^32 samples to one track is a legal call sequence (the property bounds neither
//! the length of the sequence nor the number of samples), every sample is 1 byte long and
//! the sink discards the payload, so the test needs only a few MiB of memory.
//!
//!  * debug build: `write_sample` panics ("attempt to add with overflow", src/track.rs:909)
//!    on call number 2^32 - 1.
//!  * release build: all 2^32 calls and `write_end` return Ok, and the file that comes out
//!    declares 0 samples (stsz.sample_count and the stts run length wrapped to 0).
//!
//! NOTE: 2^32 calls take about 1-2 minutes with --release and 5-10 minutes without.
//!
//! cargo test --offline --release --test c17_sample_counter_wrap

use mp4::*;
use std::io::{Read, Seek, SeekFrom, Write};

/// A seekable sink that keeps only small writes (box headers, the moov box) and forgets the
/// payload of large ones (the chunk data, all zero bytes here). Reads give zeros for the
/// forgotten ranges.
#[derive(Default)]
struct Sparse {
    pos: u64,
    len: u64,
    small: Vec<(u64, Vec<u8>)>,
}

impl Write for Sparse {
    fn write(&mut self, buf: &[u8]) -> std::io::Result<usize> {
        if buf.len() <= 4096 {
            self.small.push((self.pos, buf.to_vec()));
        }
        self.pos += buf.len() as u64;
        self.len = self.len.max(self.pos);
        Ok(buf.len())
    }
    fn flush(&mut self) -> std::io::Result<()> {
        Ok(())
    }
}

impl Seek for Sparse {
    fn seek(&mut self, p: SeekFrom) -> std::io::Result<u64> {
        let new = match p {
            SeekFrom::Start(x) => Some(x),
            SeekFrom::Current(d) => self.pos.checked_add_signed(d),
            SeekFrom::End(d) => self.len.checked_add_signed(d),
        };
        match new {
            Some(n) => {
                self.pos = n;
                Ok(n)
            }
            None => Err(std::io::Error::new(
                std::io::ErrorKind::InvalidInput,
                "invalid seek",
            )),
        }
    }
}

impl Read for Sparse {
    fn read(&mut self, buf: &mut [u8]) -> std::io::Result<usize> {
        let n = (buf.len() as u64).min(self.len.saturating_sub(self.pos)) as usize;
        buf[..n].fill(0);
        let (s, e) = (self.pos, self.pos + n as u64);
        for (off, data) in &self.small {
            let (ds, de) = (*off, *off + data.len() as u64);
            let (a, b) = (ds.max(s), de.min(e));
            if a < b {
                buf[(a - s) as usize..(b - s) as usize]
                    .copy_from_slice(&data[(a - ds) as usize..(b - ds) as usize]);
            }
        }
        self.pos += n as u64;
        Ok(n)
    }
}

#[test]
fn four_gibi_samples_are_an_error_or_are_all_in_the_file() {
    let config = Mp4Config {
        major_brand: str::parse("isom").unwrap(),
        minor_version: 0,
        compatible_brands: vec![],
        timescale: 1000,
    };
    let mut writer = Mp4Writer::write_start(Sparse::default(), &config).unwrap();
    writer
        .add_track(&TrackConfig {
            track_type: TrackType::Subtitle,
            // one chunk per 65536 samples of duration 1: 65536 chunks in total
            timescale: 65536,
            language: "und".into(),
            media_conf: MediaConfig::TtxtConfig(TtxtConfig {}),
        })
        .unwrap();

    let sample = Mp4Sample {
        start_time: 0,
        duration: 1,
        rendering_offset: 0,
        is_sync: false,
        bytes: Bytes::from_static(&[0]),
    };

    let calls: u64 = 1 << 32;
    let mut accepted: u64 = 0;
    for _ in 0..calls {
        // C17: success or an error, never a panic (a debug build panics here)
        match writer.write_sample(1, &sample) {
            Ok(()) => accepted += 1,
            Err(_) => break,
        }
    }
    if writer.write_end().is_err() {
        return; // refusing to finish such a file is acceptable
    }

    // Every call succeeded: the file has to contain what was written.
    let mut sink = writer.into_writer();
    let len = sink.len;
    sink.seek(SeekFrom::Start(0)).unwrap();
    let mp4 = Mp4Reader::read_header(sink, len).unwrap();
    assert_eq!(
        mp4.sample_count(1).unwrap() as u64,
        accepted,
        "{accepted} write_sample calls and write_end returned Ok, but the file declares a different sample count"
    );
}
