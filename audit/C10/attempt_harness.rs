use mp4::*;
use std::io::{self, Cursor, Read, Seek, SeekFrom, Write};
use std::panic::{catch_unwind, AssertUnwindSafe};

#[derive(Clone, Copy, PartialEq, Debug)]
enum Fault {
    None,
    Error,
    ZeroWrite,
}

struct S {
    inner: Cursor<Vec<u8>>,
    calls: usize,
    fail_at: usize,
    fault: Fault,
    chunk: usize,     // 0 = unlimited
    interrupt: usize, // every n-th read/write call reports Interrupted first (0 = never)
    fired: bool,
    toggle: usize,
}

impl S {
    fn new(data: Vec<u8>) -> Self {
        S {
            inner: Cursor::new(data),
            calls: 0,
            fail_at: usize::MAX,
            fault: Fault::None,
            chunk: 0,
            interrupt: 0,
            fired: false,
            toggle: 0,
        }
    }
    fn tick(&mut self, is_write: bool) -> io::Result<bool> {
        let k = self.calls;
        self.calls += 1;
        if k == self.fail_at {
            match self.fault {
                Fault::Error => {
                    self.fired = true;
                    return Err(io::Error::new(io::ErrorKind::Other, "injected"));
                }
                Fault::ZeroWrite if is_write => {
                    self.fired = true;
                    return Ok(true);
                }
                _ => {}
            }
        }
        Ok(false)
    }
    fn intr(&mut self) -> bool {
        if self.interrupt == 0 {
            return false;
        }
        self.toggle += 1;
        self.toggle % self.interrupt == 0
    }
}

impl Read for S {
    fn read(&mut self, buf: &mut [u8]) -> io::Result<usize> {
        if self.intr() {
            return Err(io::Error::new(io::ErrorKind::Interrupted, "intr"));
        }
        self.tick(false)?;
        let n = if self.chunk == 0 {
            buf.len()
        } else {
            buf.len().min(self.chunk)
        };
        self.inner.read(&mut buf[..n])
    }
}
impl Write for S {
    fn write(&mut self, buf: &[u8]) -> io::Result<usize> {
        if self.intr() {
            return Err(io::Error::new(io::ErrorKind::Interrupted, "intr"));
        }
        if self.tick(true)? {
            return Ok(0);
        }
        let n = if self.chunk == 0 {
            buf.len()
        } else {
            buf.len().min(self.chunk)
        };
        self.inner.write(&buf[..n])
    }
    fn flush(&mut self) -> io::Result<()> {
        Ok(())
    }
}
impl Seek for S {
    fn seek(&mut self, pos: SeekFrom) -> io::Result<u64> {
        self.tick(false)?;
        self.inner.seek(pos)
    }
}

fn is_io<T>(r: &Result<T>) -> bool {
    matches!(r, Err(Error::IoError(_)))
}

// ---------- reading -------------

type Dump = Vec<(u32, u32, Option<Mp4Sample>)>;

/// returns (calls used, description of outcome, dump)
fn read_all(s: &mut S, size: u64) -> std::result::Result<Dump, String> {
    let r = Mp4Reader::read_header(&mut *s, size);
    let mut rd = match r {
        Ok(r) => r,
        Err(e) => return Err(format!("open: {:?}", e)),
    };
    let mut ids: Vec<u32> = rd.tracks().keys().copied().collect();
    ids.sort();
    let mut dump = Vec::new();
    for id in ids {
        let n = rd.sample_count(id).unwrap();
        for sid in 1..=n.min(400) + 1 {
            match rd.read_sample(id, sid) {
                Ok(x) => dump.push((id, sid, x)),
                Err(e) => return Err(format!("read_sample({},{}): {:?}", id, sid, e)),
            }
        }
    }
    Ok(dump)
}

fn reader_faults(path: &str) {
    let data = std::fs::read(path).unwrap();
    let size = data.len() as u64;
    let mut s = S::new(data.clone());
    let base = read_all(&mut s, size);
    let n = s.calls;
    println!("{}: {} calls, base ok={}", path, n, base.is_ok());
    let base = match base {
        Ok(b) => b,
        Err(e) => {
            println!("  baseline fails: {}", e);
            return;
        }
    };
    for k in 0..n {
        let mut s = S::new(data.clone());
        s.fail_at = k;
        s.fault = Fault::Error;
        let r = catch_unwind(AssertUnwindSafe(|| read_all(&mut s, size)));
        match r {
            Err(_) => panic!("{}: PANIC with fault at call {}", path, k),
            Ok(Ok(_)) => panic!("{}: SUCCESS despite fault at call {} fired={}", path, k, s.fired),
            Ok(Err(msg)) => {
                assert!(s.fired);
                assert!(msg.contains("IoError"), "{}: k={} non-io error {}", path, k, msg);
                assert!(msg.contains("injected"), "{}: k={} other error {}", path, k, msg);
            }
        }
    }
    for chunk in [1usize, 2, 3, 7] {
        for intr in [0usize, 2, 3] {
            let mut s = S::new(data.clone());
            s.chunk = chunk;
            s.interrupt = intr;
            let r = read_all(&mut s, size).unwrap();
            assert_eq!(r, base, "{} chunk {} intr {}", path, chunk, intr);
        }
    }
}

#[test]
fn readers() {
    for f in [
        "tests/samples/minimal.mp4",
        "tests/samples/extended_audio_object_type.mp4",
        "tests/samples/minimal_init.mp4",
        "tests/samples/big_buck_bunny_metadata.m4v",
    ] {
        reader_faults(f);
    }
}

// ------------ writing --------------

fn scenario(s: &mut S) -> std::result::Result<(), String> {
    let config = Mp4Config {
        major_brand: str::parse("isom").unwrap(),
        minor_version: 512,
        compatible_brands: vec![str::parse("isom").unwrap(), str::parse("avc1").unwrap()],
        timescale: 1000,
    };
    let mut w = Mp4Writer::write_start(&mut *s, &config).map_err(|e| format!("start: {:?}", e))?;
    w.add_track(&TrackConfig {
        track_type: TrackType::Video,
        timescale: 1000,
        language: "und".into(),
        media_conf: MediaConfig::AvcConfig(AvcConfig {
            width: 16,
            height: 16,
            seq_param_set: vec![0x67, 0x42, 0x00, 0x1e, 0xaa],
            pic_param_set: vec![0x68, 0xce, 0x3c, 0x80],
        }),
    })
    .unwrap();
    w.add_track(&TrackConfig {
        track_type: TrackType::Audio,
        timescale: 48000,
        language: "eng".into(),
        media_conf: MediaConfig::AacConfig(AacConfig {
            bitrate: 1000,
            profile: AudioObjectType::AacLowComplexity,
            freq_index: SampleFreqIndex::Freq48000,
            chan_conf: ChannelConfig::Stereo,
        }),
    })
    .unwrap();
    w.add_track(&TrackConfig {
        track_type: TrackType::Video,
        timescale: 1000,
        language: "und".into(),
        media_conf: MediaConfig::HevcConfig(HevcConfig {
            width: 16,
            height: 16,
        }),
    })
    .unwrap();
    w.add_track(&TrackConfig {
        track_type: TrackType::Video,
        timescale: 1000,
        language: "und".into(),
        media_conf: MediaConfig::Vp9Config(Vp9Config {
            width: 16,
            height: 16,
        }),
    })
    .unwrap();
    w.add_track(&TrackConfig {
        track_type: TrackType::Subtitle,
        timescale: 1000,
        language: "und".into(),
        media_conf: MediaConfig::TtxtConfig(TtxtConfig {}),
    })
    .unwrap();
    for i in 0..12u32 {
        for t in 1..=5u32 {
            let smp = Mp4Sample {
                start_time: i as u64 * 400,
                duration: if t == 2 { 20000 } else { 400 },
                rendering_offset: (i % 3) as i32,
                is_sync: i % 4 == 0,
                bytes: Bytes::from(vec![t as u8; (i as usize * 13 + t as usize) % 40]),
            };
            w.write_sample(t, &smp)
                .map_err(|e| format!("write_sample: {:?}", e))?;
        }
    }
    w.write_end().map_err(|e| format!("end: {:?}", e))?;
    Ok(())
}

#[test]
fn writers() {
    let mut s = S::new(Vec::new());
    scenario(&mut s).unwrap();
    let n = s.calls;
    let base = s.inner.get_ref().clone();
    println!("writer scenario: {} calls, {} bytes", n, base.len());
    // sanity: re-read
    {
        let mut s = S::new(base.clone());
        let d = read_all(&mut s, base.len() as u64).unwrap();
        println!("reread {} entries", d.len());
    }
    for fault in [Fault::Error, Fault::ZeroWrite] {
        for k in 0..n {
            let mut s = S::new(Vec::new());
            s.fail_at = k;
            s.fault = fault;
            let r = catch_unwind(AssertUnwindSafe(|| scenario(&mut s)));
            match r {
                Err(_) => panic!("PANIC with {:?} at call {}", fault, k),
                Ok(Ok(())) => {
                    if s.fired {
                        panic!("SUCCESS despite {:?} at call {}", fault, k)
                    }
                }
                Ok(Err(msg)) => {
                    assert!(s.fired);
                    assert!(msg.contains("IoError"), "k={} non-io error {}", k, msg);
                }
            }
        }
    }
    for chunk in [1usize, 2, 3, 7] {
        for intr in [0usize, 2, 3] {
            let mut s = S::new(Vec::new());
            s.chunk = chunk;
            s.interrupt = intr;
            scenario(&mut s).unwrap();
            assert_eq!(s.inner.get_ref(), &base, "chunk {} intr {}", chunk, intr);
        }
    }
    // reader faults on the written file
    std::fs::write("/tmp/audit/C10/written.mp4", &base).unwrap();
    reader_faults("/tmp/audit/C10/written.mp4");
}

// ---------- fragments -------------
#[test]
fn fragments() {
    let init = std::fs::read("tests/samples/minimal_init.mp4").unwrap();
    let frag = std::fs::read("tests/samples/minimal_fragment.m4s").unwrap();
    let run = |si: &mut S, sf: &mut S| -> std::result::Result<Dump, String> {
        let rd = Mp4Reader::read_header(&mut *si, init.len() as u64)
            .map_err(|e| format!("open: {:?}", e))?;
        let mut fr = rd
            .read_fragment_header(&mut *sf, frag.len() as u64)
            .map_err(|e| format!("fopen: {:?}", e))?;
        let mut d = Vec::new();
        for sid in 1..=fr.sample_count(1).unwrap() {
            let s = fr
                .read_sample(1, sid)
                .map_err(|e| format!("read_sample: {:?}", e))?;
            d.push((1, sid, s));
        }
        Ok(d)
    };
    let mut si = S::new(init.clone());
    let mut sf = S::new(frag.clone());
    let base = run(&mut si, &mut sf).unwrap();
    let n = sf.calls;
    println!("fragment: {} calls, {} samples", n, base.len());
    for k in 0..n {
        let mut si = S::new(init.clone());
        let mut sf = S::new(frag.clone());
        sf.fail_at = k;
        sf.fault = Fault::Error;
        let r = catch_unwind(AssertUnwindSafe(|| run(&mut si, &mut sf)));
        match r {
            Err(_) => panic!("PANIC frag k={}", k),
            Ok(Ok(_)) => panic!("SUCCESS frag k={}", k),
            Ok(Err(m)) => assert!(m.contains("injected"), "{}", m),
        }
    }
    for chunk in [1usize, 3] {
        for intr in [0usize, 2] {
            let mut si = S::new(init.clone());
            let mut sf = S::new(frag.clone());
            sf.chunk = chunk;
            sf.interrupt = intr;
            si.chunk = chunk;
            assert_eq!(run(&mut si, &mut sf).unwrap(), base);
        }
    }
    // concatenated init+fragment, opened as one stream
    let mut all = init.clone();
    all.extend_from_slice(&frag);
    std::fs::write("/tmp/audit/C10/concat.mp4", &all).unwrap();
    reader_faults("/tmp/audit/C10/concat.mp4");
}

#[test]
fn exotic_boxes() {
    // start from written.mp4-like content, then append emsg (v0 and v1), a largesize free box,
    // and a moov-level meta with unknown handler inside a copy
    let mut s = S::new(Vec::new());
    scenario(&mut s).unwrap();
    let mut data = s.inner.into_inner();
    let e0 = EmsgBox {
        version: 0,
        flags: 0,
        timescale: 1000,
        presentation_time: None,
        presentation_time_delta: Some(5),
        event_duration: 7,
        id: 9,
        scheme_id_uri: "urn:x".into(),
        value: "v".into(),
        message_data: vec![1, 2, 3, 4, 5],
    };
    let mut e1 = e0.clone();
    e1.version = 1;
    e1.presentation_time = Some(1 << 40);
    e1.presentation_time_delta = None;
    e0.write_box(&mut data).unwrap();
    e1.write_box(&mut data).unwrap();
    // largesize 'free' box: size=1, type, largesize=16+4
    data.extend_from_slice(&[0, 0, 0, 1]);
    data.extend_from_slice(b"free");
    data.extend_from_slice(&20u64.to_be_bytes());
    data.extend_from_slice(&[0xAA; 4]);
    // udta-less: top-level unknown box
    data.extend_from_slice(&12u32.to_be_bytes());
    data.extend_from_slice(b"abcd");
    data.extend_from_slice(&[1, 2, 3, 4]);
    std::fs::write("/tmp/audit/C10/exotic.mp4", &data).unwrap();
    reader_faults("/tmp/audit/C10/exotic.mp4");
    let rd = Mp4Reader::read_header(Cursor::new(data.clone()), data.len() as u64).unwrap();
    assert_eq!(rd.emsgs.len(), 2);
}
