use mp4::*;
use std::io::{self, Cursor, Seek, SeekFrom, Write};
use std::panic::{catch_unwind, AssertUnwindSafe};

/// Sink that keeps only the first 64 KiB and everything written after `keep_from`.
struct Sparse {
    pos: u64,
    len: u64,
    head: Vec<u8>,
    calls: usize,
    fail_at: usize,
    zero: bool,
    chunk: usize,
    tail_from: u64,
    tail: Vec<u8>,
}
impl Sparse {
    fn new() -> Self {
        Sparse { pos: 0, len: 0, head: vec![], calls: 0, fail_at: usize::MAX, zero: false, chunk: 0, tail_from: u64::MAX, tail: vec![] }
    }
    fn tick(&mut self) -> io::Result<bool> {
        let k = self.calls;
        self.calls += 1;
        if k == self.fail_at {
            if self.zero { return Ok(true); }
            return Err(io::Error::new(io::ErrorKind::Other, "injected"));
        }
        Ok(false)
    }
}
impl Write for Sparse {
    fn write(&mut self, buf: &[u8]) -> io::Result<usize> {
        if self.tick()? { return Ok(0); }
        let n = if self.chunk == 0 { buf.len() } else { buf.len().min(self.chunk) };
        for (i, b) in buf[..n].iter().enumerate() {
            let p = self.pos + i as u64;
            if p < 65536 {
                if self.head.len() <= p as usize { self.head.resize(p as usize + 1, 0); }
                self.head[p as usize] = *b;
            } else if p >= self.tail_from {
                let q = (p - self.tail_from) as usize;
                if self.tail.len() <= q { self.tail.resize(q + 1, 0); }
                self.tail[q] = *b;
            } else {
                break;
            }
        }
        self.pos += n as u64;
        self.len = self.len.max(self.pos);
        Ok(n)
    }
    fn flush(&mut self) -> io::Result<()> { Ok(()) }
}
impl Seek for Sparse {
    fn seek(&mut self, p: SeekFrom) -> io::Result<u64> {
        self.tick()?;
        match p {
            SeekFrom::Start(x) => self.pos = x,
            SeekFrom::Current(d) => self.pos = (self.pos as i64 + d) as u64,
            SeekFrom::End(d) => self.pos = (self.len as i64 + d) as u64,
        }
        Ok(self.pos)
    }
}

fn big(s: &mut Sparse) -> std::result::Result<(), String> {
    let config = Mp4Config {
        major_brand: str::parse("isom").unwrap(),
        minor_version: 512,
        compatible_brands: vec![str::parse("isom").unwrap()],
        timescale: 1000,
    };
    let mut w = Mp4Writer::write_start(&mut *s, &config).map_err(|e| format!("{:?}", e))?;
    w.add_track(&TrackConfig {
        track_type: TrackType::Video,
        timescale: 1000,
        language: "und".into(),
        media_conf: MediaConfig::Vp9Config(Vp9Config { width: 16, height: 16 }),
    }).unwrap();
    let payload = Bytes::from(vec![7u8; 128 << 20]);
    for i in 0..33u64 {
        let smp = Mp4Sample { start_time: i * 1000, duration: 1000, rendering_offset: 0, is_sync: true, bytes: payload.clone() };
        w.write_sample(1, &smp).map_err(|e| format!("ws {:?}", e))?;
    }
    w.write_end().map_err(|e| format!("end {:?}", e))?;
    Ok(())
}

#[test]
fn big_mdat() {
    let mut s = Sparse::new();
    s.tail_from = 33u64 * (128 << 20);
    big(&mut s).unwrap();
    let n = s.calls;
    let (head, tail) = (s.head.clone(), s.tail.clone());
    println!("calls {} len {}", n, s.len);
    // faults in the last 12 calls before moov (update_mdat_size) and some in moov
    // find: count calls for moov by running with chunk=0: take last 400 calls, sample a few
    for k in [n - 1, n - 50, n - 150, n - 250] {
        for zero in [false, true] {
            let mut s = Sparse::new();
            s.fail_at = k; s.zero = zero;
            let r = catch_unwind(AssertUnwindSafe(|| big(&mut s)));
            match r { Err(_) => panic!("panic k={}", k), Ok(Ok(())) => {
                // zero fault on a seek call is not a fault
                assert!(zero, "success k={}", k);
            }, Ok(Err(m)) => assert!(m.contains("IoError"), "{}", m) }
        }
    }
    let mut s = Sparse::new();
    s.tail_from = 33u64 * (128 << 20);
    s.chunk = 1 << 20;
    big(&mut s).unwrap();
    assert_eq!(s.head, head);
    assert_eq!(s.tail, tail);
}

// observation: retry after failed write_end
#[test]
fn retry_write_end() {
    struct F { c: Cursor<Vec<u8>>, calls: usize, fail_at: usize }
    impl Write for F { fn write(&mut self, b: &[u8]) -> io::Result<usize> { let k = self.calls; self.calls += 1; if k == self.fail_at { return Err(io::Error::new(io::ErrorKind::Other, "injected")); } self.c.write(b) } fn flush(&mut self) -> io::Result<()> { Ok(()) } }
    impl Seek for F { fn seek(&mut self, p: SeekFrom) -> io::Result<u64> { let k = self.calls; self.calls += 1; if k == self.fail_at { return Err(io::Error::new(io::ErrorKind::Other, "injected")); } self.c.seek(p) } }
    let config = Mp4Config { major_brand: str::parse("isom").unwrap(), minor_version: 512, compatible_brands: vec![], timescale: 1000 };
    let mut f = F { c: Cursor::new(vec![]), calls: 0, fail_at: 30 };
    let mut w = Mp4Writer::write_start(&mut f, &config).unwrap();
    w.add_track(&TrackConfig { track_type: TrackType::Video, timescale: 1000, language: "und".into(), media_conf: MediaConfig::Vp9Config(Vp9Config { width: 16, height: 16 }) }).unwrap();
    w.write_sample(1, &Mp4Sample { start_time: 0, duration: 10, rendering_offset: 0, is_sync: true, bytes: Bytes::from(vec![1u8; 10]) }).unwrap();
    let r = w.write_end();
    println!("first write_end: {:?}", r);
    assert!(r.is_err());
    let r2 = catch_unwind(AssertUnwindSafe(|| w.write_end()));
    println!("retry: {:?}", r2.as_ref().map(|r| r.is_ok()));
}
