//! C14 finding 3: the writer converts the summed media duration to movie-timescale ticks
//! and silently clamps the result to u64::MAX (tkhd.duration, and from there
//! mvhd.duration). With a fine movie timescale and a coarse track timescale two samples
//! are enough; every `write_sample` and `write_end` returns Ok and the file reports half
//! of the real movie duration.

use mp4::*;
use std::io::Cursor;

#[test]
fn movie_duration_is_not_silently_clamped() {
    let config = Mp4Config {
        major_brand: str::parse("isom").unwrap(),
        minor_version: 0,
        compatible_brands: vec![str::parse("isom").unwrap()],
        timescale: u32::MAX,
    };
    let mut writer = Mp4Writer::write_start(Cursor::new(Vec::new()), &config).unwrap();
    writer
        .add_track(&TrackConfig {
            track_type: TrackType::Video,
            timescale: 1,
            language: String::from("und"),
            media_conf: MediaConfig::Vp9Config(Vp9Config {
                width: 16,
                height: 16,
            }),
        })
        .unwrap();

    let mut summed_secs = 0u64; // track timescale 1: ticks are seconds
    for _ in 0..2 {
        let sample = Mp4Sample {
            start_time: summed_secs,
            duration: u32::MAX,
            rendering_offset: 0,
            is_sync: true,
            bytes: Bytes::from_static(b"frame"),
        };
        if writer.write_sample(1, &sample).is_err() {
            // Refusing a history whose duration the movie header cannot express is fine:
            // the property only speaks about what the muxer accepts.
            return;
        }
        summed_secs += u32::MAX as u64;
    }
    writer.write_end().unwrap();

    let data = writer.into_writer().into_inner();
    let size = data.len() as u64;
    let reader = Mp4Reader::read_header(Cursor::new(data), size).unwrap();

    assert_eq!(reader.timescale(), u32::MAX);
    let track = reader.tracks().get(&1).unwrap();
    assert_eq!(track.duration().as_secs(), summed_secs); // 8589934590 s, exact

    let movie_secs = reader.duration().as_secs();
    assert!(
        movie_secs + 1 >= summed_secs && movie_secs <= summed_secs + 1,
        "movie duration {} s, summed sample durations {} s",
        movie_secs,
        summed_secs
    );
}
