//! C14 finding 2: `Mp4Track::duration()` converts to *micro*seconds in a u64 and
//! `Mp4Reader::duration()` to *milli*seconds in a u64 before building the `Duration`,
//! and both saturate. `std::time::Duration` itself holds u64 *seconds*, so durations the
//! file stores exactly (mdhd/mvhd version 1, 64-bit) are reported too short.

use mp4::*;
use std::io::Cursor;

fn mux(movie_timescale: u32, track_timescale: u32, samples: u64, duration: u32) -> Vec<u8> {
    let config = Mp4Config {
        major_brand: str::parse("isom").unwrap(),
        minor_version: 0,
        compatible_brands: vec![],
        timescale: movie_timescale,
    };
    let mut writer = Mp4Writer::write_start(Cursor::new(Vec::new()), &config).unwrap();
    writer
        .add_track(&TrackConfig {
            track_type: TrackType::Subtitle,
            timescale: track_timescale,
            language: String::from("und"),
            media_conf: MediaConfig::TtxtConfig(TtxtConfig {}),
        })
        .unwrap();
    let bytes = Bytes::from_static(b"x");
    for _ in 0..samples {
        writer
            .write_sample(
                1,
                &Mp4Sample {
                    start_time: 0,
                    duration,
                    rendering_offset: 0,
                    is_sync: true,
                    bytes: bytes.clone(),
                },
            )
            .unwrap();
    }
    writer.write_end().unwrap();
    writer.into_writer().into_inner()
}

/// 5000 samples of duration u32::MAX in a track with timescale 1.
#[test]
fn track_duration_is_the_summed_sample_durations() {
    let samples = 5000u64;
    let data = mux(1, 1, samples, u32::MAX);
    let size = data.len() as u64;
    let reader = Mp4Reader::read_header(Cursor::new(data), size).unwrap();
    let track = reader.tracks().get(&1).unwrap();

    let expected_secs = samples * u32::MAX as u64; // timescale 1: one tick is one second
    assert_eq!(track.trak.mdia.mdhd.duration, expected_secs); // the file is right
    assert_eq!(reader.duration().as_secs(), expected_secs); // the movie duration is right
    assert_eq!(
        track.duration().as_secs(),
        expected_secs,
        "track duration is off by {} s (one tick is 1 s)",
        expected_secs - track.duration().as_secs()
    );
}

/// Same for the movie duration; needs 1000x more (4.3 million one-byte samples, ~40 MB).
#[test]
fn movie_duration_is_the_summed_sample_durations() {
    let samples = 4_300_000u64;
    let data = mux(1, 1, samples, u32::MAX);
    let size = data.len() as u64;
    let reader = Mp4Reader::read_header(Cursor::new(data), size).unwrap();

    let expected_secs = samples * u32::MAX as u64;
    assert_eq!(reader.moov.mvhd.duration, expected_secs); // the file is right
    assert_eq!(
        reader.duration().as_secs(),
        expected_secs,
        "movie duration is off by {} s (one tick is 1 s)",
        expected_secs - reader.duration().as_secs()
    );
}
