//! C14 finding 1: after a chunk flush fails inside `write_sample`, the sample stays
//! buffered and accounted for in the track (by design, see the comment in
//! `Mp4TrackWriter::write_sample`), but `Mp4Writer` never learns the new track duration.
//! If that sample is the last one of the longest track, the finished file carries the
//! sample, the track duration includes it, and the movie duration does not.

use mp4::*;
use std::cell::Cell;
use std::io::{self, Cursor, Seek, SeekFrom, Write};
use std::rc::Rc;

/// A sink with a transient failure (think: EAGAIN / ENOSPC that goes away).
struct Flaky {
    inner: Cursor<Vec<u8>>,
    fail: Rc<Cell<bool>>,
}

impl Write for Flaky {
    fn write(&mut self, buf: &[u8]) -> io::Result<usize> {
        if self.fail.get() {
            return Err(io::Error::new(io::ErrorKind::Other, "transient failure"));
        }
        self.inner.write(buf)
    }
    fn flush(&mut self) -> io::Result<()> {
        Ok(())
    }
}

impl Seek for Flaky {
    fn seek(&mut self, pos: SeekFrom) -> io::Result<u64> {
        self.inner.seek(pos)
    }
}

fn sample(duration: u32) -> Mp4Sample {
    Mp4Sample {
        start_time: 0,
        duration,
        rendering_offset: 0,
        is_sync: true,
        bytes: Bytes::from(vec![0xAB; 16]),
    }
}

#[test]
fn movie_duration_covers_sample_whose_flush_failed() {
    let config = Mp4Config {
        major_brand: str::parse("isom").unwrap(),
        minor_version: 512,
        compatible_brands: vec![str::parse("isom").unwrap()],
        timescale: 1000,
    };
    let fail = Rc::new(Cell::new(false));
    let sink = Flaky {
        inner: Cursor::new(Vec::new()),
        fail: fail.clone(),
    };

    let mut writer = Mp4Writer::write_start(sink, &config).unwrap();
    writer
        .add_track(&TrackConfig {
            track_type: TrackType::Audio,
            timescale: 1000,
            language: String::from("eng"),
            media_conf: MediaConfig::AacConfig(AacConfig::default()),
        })
        .unwrap();

    // 1 s sample: fills a chunk (chunks are 1 s long), flush succeeds.
    writer.write_sample(1, &sample(1000)).unwrap();

    // 5 s sample: fills a chunk, the flush hits a transient error.
    fail.set(true);
    assert!(writer.write_sample(1, &sample(5000)).is_err());
    fail.set(false);

    // The sink works again; finishing the file flushes the buffered sample.
    writer.write_end().unwrap();

    let data = writer.into_writer().inner.into_inner();
    let size = data.len() as u64;
    let mut reader = Mp4Reader::read_header(Cursor::new(data), size).unwrap();

    // The file contains both samples with their durations ...
    assert_eq!(reader.sample_count(1).unwrap(), 2);
    let mut summed = 0u64;
    for id in 1..=2 {
        summed += reader.read_sample(1, id).unwrap().unwrap().duration as u64;
    }
    assert_eq!(summed, 6000);

    // ... the track duration is their sum ...
    let track_ms = reader.tracks().get(&1).unwrap().duration().as_millis() as u64;
    assert_eq!(track_ms, 6000);

    // ... and the movie duration must be too (both timescales are 1000: no rounding at all).
    let movie_ms = reader.duration().as_millis() as u64;
    assert_eq!(
        movie_ms, summed,
        "movie duration {movie_ms} ms, but the only track holds {summed} ms of samples"
    );
}
