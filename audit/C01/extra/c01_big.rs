use mp4::*;
use std::collections::HashMap;
use std::io::{self, Read, Seek, SeekFrom, Write};

const PAGE: u64 = 4096;

#[derive(Default, Clone)]
struct Sparse {
    pos: u64,
    len: u64,
    pages: HashMap<u64, Vec<u8>>,
}

impl Write for Sparse {
    fn write(&mut self, buf: &[u8]) -> io::Result<usize> {
        let big_zero = buf.len() >= (1 << 20) && buf.iter().all(|b| *b == 0);
        let mut off = self.pos;
        let end = self.pos + buf.len() as u64;
        let mut i = 0usize;
        while off < end {
            let p = off / PAGE;
            let in_page = (off % PAGE) as usize;
            let n = std::cmp::min(PAGE as usize - in_page, (end - off) as usize);
            if big_zero {
                if n == PAGE as usize {
                    self.pages.remove(&p);
                } else if let Some(pg) = self.pages.get_mut(&p) {
                    for b in &mut pg[in_page..in_page + n] {
                        *b = 0;
                    }
                }
            } else {
                let pg = self.pages.entry(p).or_insert_with(|| vec![0u8; PAGE as usize]);
                pg[in_page..in_page + n].copy_from_slice(&buf[i..i + n]);
            }
            off += n as u64;
            i += n;
        }
        self.pos = end;
        self.len = self.len.max(end);
        Ok(buf.len())
    }
    fn flush(&mut self) -> io::Result<()> {
        Ok(())
    }
}

impl Read for Sparse {
    fn read(&mut self, buf: &mut [u8]) -> io::Result<usize> {
        if self.pos >= self.len {
            return Ok(0);
        }
        let want = std::cmp::min(buf.len() as u64, self.len - self.pos);
        let p = self.pos / PAGE;
        let in_page = (self.pos % PAGE) as usize;
        let n = std::cmp::min(PAGE as usize - in_page, want as usize);
        match self.pages.get(&p) {
            Some(pg) => buf[..n].copy_from_slice(&pg[in_page..in_page + n]),
            None => {
                for b in &mut buf[..n] {
                    *b = 0
                }
            }
        }
        self.pos += n as u64;
        Ok(n)
    }
}

impl Seek for Sparse {
    fn seek(&mut self, s: SeekFrom) -> io::Result<u64> {
        let np = match s {
            SeekFrom::Start(o) => o as i128,
            SeekFrom::Current(d) => self.pos as i128 + d as i128,
            SeekFrom::End(d) => self.len as i128 + d as i128,
        };
        if np < 0 {
            return Err(io::Error::new(io::ErrorKind::InvalidInput, "neg"));
        }
        self.pos = np as u64;
        Ok(self.pos)
    }
}

#[test]
fn over_4gib() {
    let config = Mp4Config {
        major_brand: str::parse("isom").unwrap(),
        minor_version: 512,
        compatible_brands: vec![str::parse("isom").unwrap()],
        timescale: 1000,
    };
    let mut w = Mp4Writer::write_start(Sparse::default(), &config).unwrap();
    for _ in 0..3 {
        w.add_track(&TrackConfig {
            track_type: TrackType::Video,
            timescale: 1000,
            language: "und".into(),
            media_conf: MediaConfig::Vp9Config(Vp9Config {
                width: 1,
                height: 1,
            }),
        })
        .unwrap();
    }
    let big = Bytes::from(vec![0u8; 64 << 20]);
    let n = 66u32;
    // track 3: only early samples (stays stco)
    for k in 0..n {
        w.write_sample(
            1,
            &Mp4Sample {
                start_time: 0,
                duration: 1000,
                rendering_offset: 0,
                is_sync: true,
                bytes: big.clone(),
            },
        )
        .unwrap();
        let small: Vec<u8> = (0..100u32).map(|i| (i * 7 + k) as u8 | 1).collect();
        w.write_sample(
            2,
            &Mp4Sample {
                start_time: 0,
                duration: 1000,
                rendering_offset: k as i32,
                is_sync: k % 2 == 0,
                bytes: Bytes::from(small.clone()),
            },
        )
        .unwrap();
        if k < 3 {
            w.write_sample(
                3,
                &Mp4Sample {
                    start_time: 0,
                    duration: 1000,
                    rendering_offset: 0,
                    is_sync: false,
                    bytes: Bytes::from(small),
                },
            )
            .unwrap();
        }
    }
    w.write_end().unwrap();
    let mut sink = w.into_writer();
    let len = sink.len;
    assert!(len > u32::MAX as u64);
    sink.pos = 0;
    let mut r = Mp4Reader::read_header(sink, len).unwrap();
    assert_eq!(r.sample_count(1).unwrap(), n);
    assert_eq!(r.sample_count(2).unwrap(), n);
    assert_eq!(r.sample_count(3).unwrap(), 3);
    for k in 0..n {
        let small: Vec<u8> = (0..100u32).map(|i| (i * 7 + k) as u8 | 1).collect();
        let s = r.read_sample(2, k + 1).unwrap().unwrap();
        assert_eq!(&s.bytes[..], &small[..], "k={k}");
        assert_eq!(s.start_time, k as u64 * 1000);
        assert_eq!(s.rendering_offset, k as i32);
        assert_eq!(s.is_sync, k % 2 == 0);
        if k < 3 {
            let s = r.read_sample(3, k + 1).unwrap().unwrap();
            assert_eq!(&s.bytes[..], &small[..], "k={k}");
        }
        if k % 16 == 0 || k == n - 1 {
            let s = r.read_sample(1, k + 1).unwrap().unwrap();
            assert_eq!(s.bytes.len(), 64 << 20);
            assert!(s.bytes.iter().all(|b| *b == 0));
        }
    }
    assert!(r.read_sample(1, n + 1).unwrap().is_none());
    assert!(r.read_sample(2, n + 1).unwrap().is_none());
    assert!(r.read_sample(3, 4).unwrap().is_none());
}
