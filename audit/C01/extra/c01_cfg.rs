use mp4::*;
use std::convert::TryFrom;
use std::io::Cursor;

fn roundtrip(mc: Mp4Config, tcs: Vec<TrackConfig>) {
    let mut w = Mp4Writer::write_start(Cursor::new(Vec::<u8>::new()), &mc).unwrap();
    for tc in &tcs {
        w.add_track(tc).unwrap();
    }
    for (i, _) in tcs.iter().enumerate() {
        for k in 0..3u32 {
            w.write_sample(
                i as u32 + 1,
                &Mp4Sample {
                    start_time: 0,
                    duration: 10 + k,
                    rendering_offset: -(k as i32),
                    is_sync: k == 1,
                    bytes: Bytes::from(vec![i as u8; k as usize * 3]),
                },
            )
            .unwrap();
        }
    }
    w.write_end().unwrap();
    let data = w.into_writer().into_inner();
    let len = data.len() as u64;
    let mut r = Mp4Reader::read_header(Cursor::new(data), len)
        .unwrap_or_else(|e| panic!("open failed: {} for {:?}", e, tcs));
    assert_eq!(r.tracks().len(), tcs.len());
    for (i, _) in tcs.iter().enumerate() {
        assert_eq!(r.sample_count(i as u32 + 1).unwrap(), 3);
        let mut st = 0;
        for k in 0..3u32 {
            let s = r.read_sample(i as u32 + 1, k + 1).unwrap().unwrap();
            assert_eq!(&s.bytes[..], &vec![i as u8; k as usize * 3][..]);
            assert_eq!(s.duration, 10 + k);
            assert_eq!(s.rendering_offset, -(k as i32));
            assert_eq!(s.is_sync, k == 1);
            assert_eq!(s.start_time, st);
            st += 10 + k as u64;
        }
        assert!(matches!(r.read_sample(i as u32 + 1, 4), Ok(None) | Err(_)));
    }
}

fn mc() -> Mp4Config {
    Mp4Config {
        major_brand: str::parse("isom").unwrap(),
        minor_version: 512,
        compatible_brands: vec![],
        timescale: 1,
    }
}

#[test]
fn aac_all() {
    for p in 0..=255u8 {
        let profile = match AudioObjectType::try_from(p) {
            Ok(p) => p,
            Err(_) => continue,
        };
        for f in 0..16u8 {
            let freq_index = match SampleFreqIndex::try_from(f) {
                Ok(p) => p,
                Err(_) => continue,
            };
            for c in 0..16u8 {
                let chan_conf = match ChannelConfig::try_from(c) {
                    Ok(p) => p,
                    Err(_) => continue,
                };
                for tt in [TrackType::Video, TrackType::Audio, TrackType::Subtitle] {
                    roundtrip(
                        mc(),
                        vec![TrackConfig {
                            track_type: tt,
                            timescale: 7,
                            language: "".into(),
                            media_conf: MediaConfig::AacConfig(AacConfig {
                                bitrate: u32::MAX,
                                profile,
                                freq_index,
                                chan_conf,
                            }),
                        }],
                    );
                }
            }
        }
    }
}

#[test]
fn avc_extremes() {
    for (sl, pl) in [(4usize, 0usize), (65535, 65535), (65535, 0), (4, 65535), (5, 1)] {
        for fill in [0u8, 0xff, 0x1f] {
            for lang in ["", "und", "日本語", "abcdefgh", "\u{0}\u{0}\u{0}"] {
                roundtrip(
                    mc(),
                    vec![
                        TrackConfig {
                            track_type: TrackType::Subtitle,
                            timescale: u32::MAX,
                            language: lang.into(),
                            media_conf: MediaConfig::AvcConfig(AvcConfig {
                                width: 0xffff,
                                height: 0,
                                seq_param_set: vec![fill; sl],
                                pic_param_set: vec![fill; pl],
                            }),
                        },
                        TrackConfig {
                            track_type: TrackType::Audio,
                            timescale: 1,
                            language: lang.into(),
                            media_conf: MediaConfig::HevcConfig(HevcConfig {
                                width: 0xffff,
                                height: 0xffff,
                            }),
                        },
                        TrackConfig {
                            track_type: TrackType::Audio,
                            timescale: 1,
                            language: lang.into(),
                            media_conf: MediaConfig::TtxtConfig(TtxtConfig {}),
                        },
                    ],
                );
            }
        }
    }
}

#[test]
fn many_tracks() {
    let tcs: Vec<TrackConfig> = (0..300)
        .map(|i| TrackConfig {
            track_type: TrackType::Video,
            timescale: 1 + i,
            language: "und".into(),
            media_conf: match i % 5 {
                0 => MediaConfig::TtxtConfig(TtxtConfig {}),
                1 => MediaConfig::Vp9Config(Vp9Config::default()),
                2 => MediaConfig::HevcConfig(HevcConfig::default()),
                3 => MediaConfig::AacConfig(AacConfig::default()),
                _ => MediaConfig::AvcConfig(AvcConfig {
                    width: 1,
                    height: 1,
                    seq_param_set: vec![1, 2, 3, 4],
                    pic_param_set: vec![],
                }),
            },
        })
        .collect();
    roundtrip(mc(), tcs);
}
