use mp4::*;
use std::io::Cursor;

struct Rng(u64);
impl Rng {
    fn next(&mut self) -> u64 {
        self.0 ^= self.0 << 13;
        self.0 ^= self.0 >> 7;
        self.0 ^= self.0 << 17;
        self.0
    }
    fn below(&mut self, n: u64) -> u64 {
        self.next() % n
    }
}

fn media(rng: &mut Rng) -> MediaConfig {
    match rng.below(5) {
        0 => MediaConfig::AvcConfig(AvcConfig {
            width: rng.next() as u16,
            height: rng.next() as u16,
            seq_param_set: (0..4 + rng.below(20)).map(|_| rng.next() as u8).collect(),
            pic_param_set: (0..rng.below(20)).map(|_| rng.next() as u8).collect(),
        }),
        1 => MediaConfig::HevcConfig(HevcConfig {
            width: rng.next() as u16,
            height: rng.next() as u16,
        }),
        2 => MediaConfig::Vp9Config(Vp9Config {
            width: rng.next() as u16,
            height: rng.next() as u16,
        }),
        3 => MediaConfig::AacConfig(AacConfig {
            bitrate: rng.next() as u32,
            profile: AudioObjectType::AacLowComplexity,
            freq_index: SampleFreqIndex::Freq48000,
            chan_conf: ChannelConfig::Stereo,
        }),
        _ => MediaConfig::TtxtConfig(TtxtConfig {}),
    }
}

fn pick_u32(rng: &mut Rng) -> u32 {
    match rng.below(8) {
        0 => 0,
        1 => 1,
        2 => u32::MAX,
        3 => u32::MAX - 1,
        4 => 0x8000_0000,
        5 => rng.below(5) as u32,
        6 => rng.below(2000) as u32,
        _ => rng.next() as u32,
    }
}

fn pick_i32(rng: &mut Rng) -> i32 {
    match rng.below(8) {
        0 | 1 | 2 => 0,
        3 => i32::MIN,
        4 => i32::MAX,
        5 => -1,
        6 => rng.below(5) as i32,
        _ => rng.next() as i32,
    }
}

#[derive(Clone, Debug, PartialEq)]
struct S {
    bytes: Vec<u8>,
    dur: u32,
    off: i32,
    sync: bool,
}

fn one(seed: u64) {
    let mut rng = Rng(seed.wrapping_mul(0x9E3779B97F4A7C15) | 1);
    let ts = match rng.below(4) {
        0 => 1,
        1 => u32::MAX,
        2 => 1000,
        _ => pick_u32(&mut rng).max(1),
    };
    let config = Mp4Config {
        major_brand: str::parse("isom").unwrap(),
        minor_version: 512,
        compatible_brands: vec![str::parse("isom").unwrap()],
        timescale: ts,
    };
    let mut w = Mp4Writer::write_start(Cursor::new(Vec::<u8>::new()), &config).unwrap();
    let ntracks = rng.below(5) as usize;
    let mut model: Vec<Vec<S>> = Vec::new();
    let nops = rng.below(200);
    let sync_mode: Vec<u64> = (0..8).map(|_| rng.below(4)).collect();
    let size_mode: Vec<u64> = (0..8).map(|_| rng.below(4)).collect();
    let dur_mode: Vec<u64> = (0..8).map(|_| rng.below(4)).collect();
    for _ in 0..nops {
        // maybe add a track
        if model.len() < ntracks && rng.below(10) == 0 || model.is_empty() && ntracks > 0 {
            let tts = match rng.below(4) {
                0 => 1,
                1 => u32::MAX,
                2 => 1000,
                _ => pick_u32(&mut rng).max(1),
            };
            let tc = TrackConfig {
                track_type: TrackType::Video,
                timescale: tts,
                language: String::from("und"),
                media_conf: media(&mut rng),
            };
            w.add_track(&tc).unwrap();
            model.push(Vec::new());
            // rejected add
            if rng.below(3) == 0 {
                let bad = TrackConfig {
                    track_type: TrackType::Video,
                    timescale: 0,
                    language: String::from("und"),
                    media_conf: media(&mut rng),
                };
                assert!(w.add_track(&bad).is_err());
            }
        }
        // rejected write
        if rng.below(5) == 0 {
            let id = if rng.below(2) == 0 {
                0
            } else {
                model.len() as u32 + 1 + rng.below(3) as u32
            };
            let s = Mp4Sample {
                start_time: 0,
                duration: 77,
                rendering_offset: 5,
                is_sync: true,
                bytes: Bytes::from(vec![1, 2, 3]),
            };
            assert!(w.write_sample(id, &s).is_err());
        }
        if model.is_empty() {
            continue;
        }
        let t = rng.below(model.len() as u64) as usize;
        let size = match size_mode[t] {
            0 => 0,
            1 => 7,
            2 => rng.below(3),
            _ => rng.below(300),
        };
        let bytes: Vec<u8> = (0..size).map(|_| rng.next() as u8).collect();
        let dur = match dur_mode[t] {
            0 => 0,
            1 => 1000,
            2 => pick_u32(&mut rng),
            _ => rng.below(3) as u32,
        };
        let sync = match sync_mode[t] {
            0 => false,
            1 => true,
            _ => rng.below(2) == 0,
        };
        let off = pick_i32(&mut rng);
        let s = Mp4Sample {
            start_time: rng.next(),
            duration: dur,
            rendering_offset: off,
            is_sync: sync,
            bytes: Bytes::from(bytes.clone()),
        };
        w.write_sample(t as u32 + 1, &s).unwrap();
        model[t].push(S {
            bytes,
            dur,
            off,
            sync,
        });
    }
    w.write_end().unwrap();
    let data = w.into_writer().into_inner();
    let len = data.len() as u64;
    let mut r = Mp4Reader::read_header(Cursor::new(data), len)
        .unwrap_or_else(|e| panic!("seed {seed}: open failed: {e}"));
    assert_eq!(r.tracks().len(), model.len(), "seed {seed}");
    for (i, trak) in r.moov.traks.iter().enumerate() {
        assert_eq!(trak.tkhd.track_id, i as u32 + 1);
    }
    for (t, samples) in model.iter().enumerate() {
        let id = t as u32 + 1;
        assert_eq!(r.sample_count(id).unwrap(), samples.len() as u32, "seed {seed}");
        let mut start = 0u64;
        for (k, s) in samples.iter().enumerate() {
            let got = r
                .read_sample(id, k as u32 + 1)
                .unwrap_or_else(|e| panic!("seed {seed}: t{id} s{k}: {e}"))
                .unwrap_or_else(|| panic!("seed {seed}: t{id} s{k}: none"));
            assert_eq!(&got.bytes[..], &s.bytes[..], "seed {seed} t{id} k{k}");
            assert_eq!(got.duration, s.dur, "seed {seed} t{id} k{k}");
            assert_eq!(got.rendering_offset, s.off, "seed {seed} t{id} k{k}");
            assert_eq!(got.is_sync, s.sync, "seed {seed} t{id} k{k}");
            assert_eq!(got.start_time, start, "seed {seed} t{id} k{k}");
            start += s.dur as u64;
        }
        for past in [
            samples.len() as u32 + 1,
            samples.len() as u32 + 2,
            samples.len() as u32 + 100,
            u32::MAX,
            u32::MAX - 1,
            0x8000_0000,
        ] {
            if past as usize <= samples.len() {
                continue;
            }
            match r.read_sample(id, past) {
                Ok(Some(x)) => panic!("seed {seed}: t{id} past {past} yields {x:?}"),
                _ => {}
            }
        }
    }
}

#[test]
fn fuzz() {
    for seed in 1..3000 {
        one(seed);
    }
}
