use mp4::*;
use std::io::{self, Cursor, Seek, SeekFrom, Write};

struct Rng(u64);
impl Rng {
    fn next(&mut self) -> u64 {
        self.0 ^= self.0 << 13;
        self.0 ^= self.0 >> 7;
        self.0 ^= self.0 << 17;
        self.0
    }
    fn below(&mut self, n: u64) -> u64 {
        self.next() % n
    }
}

// A sink that does short writes and fails now and then (writes and seeks), possibly after
// having transferred part of the data.
struct Flaky {
    inner: Cursor<Vec<u8>>,
    rng: Rng,
    armed: std::rc::Rc<std::cell::Cell<bool>>,
    fails: u32,
}

impl Write for Flaky {
    fn write(&mut self, buf: &[u8]) -> io::Result<usize> {
        if self.armed.get() && self.rng.below(6) == 0 {
            self.fails += 1;
            return Err(io::Error::new(io::ErrorKind::Other, "disk full"));
        }
        let n = if buf.len() > 1 {
            1 + self.rng.below(buf.len() as u64) as usize
        } else {
            buf.len()
        };
        self.inner.write(&buf[..n])
    }
    fn flush(&mut self) -> io::Result<()> {
        Ok(())
    }
}
impl Seek for Flaky {
    fn seek(&mut self, s: SeekFrom) -> io::Result<u64> {
        if self.armed.get() && self.rng.below(10) == 0 {
            self.fails += 1;
            return Err(io::Error::new(io::ErrorKind::Other, "seek failed"));
        }
        self.inner.seek(s)
    }
}

#[derive(Clone)]
struct S {
    bytes: Vec<u8>,
    dur: u32,
    off: i32,
    sync: bool,
}

// Model A: an Err from write_sample means the sample was NOT written (the property's reading).
// Model B: an Err from write_sample (I/O) means the sample is retained.
fn one(seed: u64, retained_on_err: bool) -> std::result::Result<(), String> {
    let mut rng = Rng(seed.wrapping_mul(0x9E3779B97F4A7C15) | 1);
    let config = Mp4Config {
        major_brand: str::parse("isom").unwrap(),
        minor_version: 512,
        compatible_brands: vec![str::parse("isom").unwrap()],
        timescale: 1000,
    };
    let armed = std::rc::Rc::new(std::cell::Cell::new(false));
    let sink = Flaky {
        inner: Cursor::new(Vec::new()),
        rng: Rng(seed | 1),
        armed: armed.clone(),
        fails: 0,
    };
    let mut w = Mp4Writer::write_start(sink, &config).unwrap();
    let ntracks = 1 + rng.below(3) as usize;
    let mut model: Vec<Vec<S>> = vec![Vec::new(); ntracks];
    for _ in 0..ntracks {
        w.add_track(&TrackConfig {
            track_type: TrackType::Video,
            timescale: 1000,
            language: "und".into(),
            media_conf: MediaConfig::Vp9Config(Vp9Config::default()),
        })
        .unwrap();
    }
    let n = rng.below(60);
    for i in 0..n {
        let t = rng.below(ntracks as u64) as usize;
        let bytes: Vec<u8> = (0..rng.below(50)).map(|_| rng.next() as u8).collect();
        let s = S {
            bytes: bytes.clone(),
            dur: [0, 300, 1000, 5000][rng.below(4) as usize],
            off: rng.below(3) as i32 - 1,
            sync: rng.below(2) == 0,
        };
        let ms = Mp4Sample {
            start_time: 0,
            duration: s.dur,
            rendering_offset: s.off,
            is_sync: s.sync,
            bytes: Bytes::from(bytes),
        };
        // arm the failures only for sample writes
        // (we need write_end to go through to have an output at all)
        armed.set(true);
        let res = w.write_sample(t as u32 + 1, &ms);
        armed.set(false);
        match res {
            Ok(()) => model[t].push(s),
            Err(_) => {
                if retained_on_err {
                    model[t].push(s)
                }
            }
        }
        let _ = i;
    }
    w.write_end().map_err(|e| format!("write_end: {}", e))?;
    let sink = w.into_writer();
    let data = sink.inner.into_inner();
    let len = data.len() as u64;
    let mut r = Mp4Reader::read_header(Cursor::new(data), len).map_err(|e| format!("open: {}", e))?;
    for (t, samples) in model.iter().enumerate() {
        let id = t as u32 + 1;
        let c = r.sample_count(id).unwrap();
        if c != samples.len() as u32 {
            return Err(format!(
                "track {}: wrote {} samples successfully, read back {}",
                id,
                samples.len(),
                c
            ));
        }
        let mut st = 0u64;
        for (k, s) in samples.iter().enumerate() {
            let g = r
                .read_sample(id, k as u32 + 1)
                .map_err(|e| format!("read: {}", e))?
                .ok_or("none")?;
            if g.bytes[..] != s.bytes[..]
                || g.duration != s.dur
                || g.rendering_offset != s.off
                || g.is_sync != s.sync
                || g.start_time != st
            {
                return Err(format!("track {} sample {} differs", id, k + 1));
            }
            st += s.dur as u64;
        }
    }
    Ok(())
}

#[test]
fn model_err_means_not_written() {
    let mut bad = Vec::new();
    for seed in 1..400 {
        if let Err(e) = one(seed, false) {
            bad.push((seed, e));
        }
    }
    assert!(bad.is_empty(), "{} failures, first: {:?}", bad.len(), &bad[..bad.len().min(3)]);
}

#[test]
fn model_err_means_retained() {
    let mut bad = Vec::new();
    for seed in 1..400 {
        if let Err(e) = one(seed, true) {
            bad.push((seed, e));
        }
    }
    assert!(bad.is_empty(), "{} failures, first: {:?}", bad.len(), &bad[..bad.len().min(3)]);
}
