// C01 finding 1: a write_sample call that the muxer REJECTS (returns Err) because the
// sink failed while the chunk was flushed still leaves the sample in the output.
//
// run: cargo test --offline --test c01_finding_1
use mp4::{
    Bytes, MediaConfig, Mp4Config, Mp4Reader, Mp4Sample, Mp4Writer, TrackConfig, TrackType,
    Vp9Config,
};
use std::cell::Cell;
use std::io::{self, Cursor, Seek, SeekFrom, Write};
use std::rc::Rc;

/// An in-memory sink that fails exactly one `write` call when told to (think: disk full,
/// quota, a network file system hiccup) and works normally before and after.
struct FailOnce {
    inner: Cursor<Vec<u8>>,
    fail_next_write: Rc<Cell<bool>>,
}

impl Write for FailOnce {
    fn write(&mut self, buf: &[u8]) -> io::Result<usize> {
        if self.fail_next_write.replace(false) {
            return Err(io::Error::new(io::ErrorKind::Other, "no space left on device"));
        }
        self.inner.write(buf)
    }
    fn flush(&mut self) -> io::Result<()> {
        self.inner.flush()
    }
}

impl Seek for FailOnce {
    fn seek(&mut self, pos: SeekFrom) -> io::Result<u64> {
        self.inner.seek(pos)
    }
}

fn sample(tag: u8) -> Mp4Sample {
    Mp4Sample {
        start_time: 0,
        duration: 1000, // == track timescale: every sample completes a chunk and is flushed
        rendering_offset: 0,
        is_sync: true,
        bytes: Bytes::from(vec![tag; 16]),
    }
}

fn start(fail: &Rc<Cell<bool>>) -> Mp4Writer<FailOnce> {
    let config = Mp4Config {
        major_brand: str::parse("isom").unwrap(),
        minor_version: 512,
        compatible_brands: vec![str::parse("isom").unwrap()],
        timescale: 1000,
    };
    let sink = FailOnce {
        inner: Cursor::new(Vec::new()),
        fail_next_write: fail.clone(),
    };
    let mut w = Mp4Writer::write_start(sink, &config).unwrap();
    w.add_track(&TrackConfig {
        track_type: TrackType::Video,
        timescale: 1000,
        language: "und".into(),
        media_conf: MediaConfig::Vp9Config(Vp9Config {
            width: 16,
            height: 16,
        }),
    })
    .unwrap();
    w
}

fn read_back(w: Mp4Writer<FailOnce>) -> Vec<u8> {
    let data = w.into_writer().inner.into_inner();
    let len = data.len() as u64;
    let mut r = Mp4Reader::read_header(Cursor::new(data), len).unwrap();
    let n = r.sample_count(1).unwrap();
    (1..=n)
        .map(|k| r.read_sample(1, k).unwrap().unwrap().bytes[0])
        .collect()
}

/// The rejected call is simply dropped by the caller: it must leave no trace.
#[test]
fn rejected_write_sample_leaves_no_trace() {
    let fail = Rc::new(Cell::new(false));
    let mut w = start(&fail);

    w.write_sample(1, &sample(b'A')).unwrap();

    // control: a call rejected for an unknown track id leaves no trace
    assert!(w.write_sample(7, &sample(b'X')).is_err());

    fail.set(true);
    let rejected = w.write_sample(1, &sample(b'B'));
    assert!(rejected.is_err(), "the muxer rejected the call");

    w.write_sample(1, &sample(b'C')).unwrap();
    w.write_end().unwrap();

    // accepted calls: A, C
    assert_eq!(
        read_back(w),
        vec![b'A', b'C'],
        "the sample of the rejected call must not be in the output"
    );
}

/// The natural reaction to an Err is to retry the same sample: it then shows up twice.
#[test]
fn retrying_a_rejected_write_sample_duplicates_the_sample() {
    let fail = Rc::new(Cell::new(false));
    let mut w = start(&fail);

    w.write_sample(1, &sample(b'A')).unwrap();

    fail.set(true);
    assert!(w.write_sample(1, &sample(b'B')).is_err());
    w.write_sample(1, &sample(b'B')).unwrap(); // retry, accepted

    w.write_end().unwrap();

    // accepted calls: A, B
    assert_eq!(read_back(w), vec![b'A', b'B']);
}
