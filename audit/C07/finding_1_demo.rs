//! C07 finding 1: `hvcC` ignores the size of the box that contains it.
//!
//! `HvcCBox::read_box` (src/mp4box/hev1.rs) takes `_size` and never looks at it: the number of
//! arrays (u8), the number of NAL units per array (u16) and every NAL unit length (u16) are
//! followed wherever they lead, i.e. through everything that comes after the box in the file.
//! `Hev1Box::read_box` then seeks *back* to the declared end of the 122-byte `hev1` box, and the
//! enclosing `stbl` carries on with its next child.  A `stbl` may hold any number of `stsd`
//! boxes (a later one simply replaces an earlier one), so each of K tiny `stsd` boxes re-reads
//! (and copies into fresh `Vec`s) the same F bytes that follow them.
//!
//! With K*138 ~ F ~ n/2 the reader transfers ~ n^2/552 bytes to open an n-byte file.
//! The image is well-formed enough that `Mp4Reader::read_header` returns `Ok` on the audited
//! revision (the test prints `opened: true`).

use std::io::{Cursor, Read, Seek, SeekFrom};
use std::time::Instant;

// ---------------------------------------------------------------------------------------------
// A stream that counts what the parser does with it.
// ---------------------------------------------------------------------------------------------
struct Counting {
    inner: Cursor<Vec<u8>>,
    reads: u64,
    seeks: u64,
    bytes: u64,
}

impl Counting {
    fn new(data: Vec<u8>) -> Self {
        Counting {
            inner: Cursor::new(data),
            reads: 0,
            seeks: 0,
            bytes: 0,
        }
    }
}

impl Read for Counting {
    fn read(&mut self, buf: &mut [u8]) -> std::io::Result<usize> {
        let n = self.inner.read(buf)?;
        self.reads += 1;
        self.bytes += n as u64;
        Ok(n)
    }
}

impl Seek for Counting {
    fn seek(&mut self, pos: SeekFrom) -> std::io::Result<u64> {
        self.seeks += 1;
        self.inner.seek(pos)
    }
}

// ---------------------------------------------------------------------------------------------
// Box building helpers.
// ---------------------------------------------------------------------------------------------
fn bx(name: &[u8; 4], payload: &[u8]) -> Vec<u8> {
    let mut v = Vec::with_capacity(8 + payload.len());
    v.extend_from_slice(&((8 + payload.len()) as u32).to_be_bytes());
    v.extend_from_slice(name);
    v.extend_from_slice(payload);
    v
}

fn cat(parts: &[&[u8]]) -> Vec<u8> {
    parts.concat()
}

fn u32be(v: u32) -> [u8; 4] {
    v.to_be_bytes()
}

fn mvhd() -> Vec<u8> {
    let mut p = vec![0u8; 100];
    p[12..16].copy_from_slice(&u32be(1000)); // timescale
    bx(b"mvhd", &p)
}

fn tkhd(track_id: u32) -> Vec<u8> {
    let mut p = vec![0u8; 84];
    p[12..16].copy_from_slice(&u32be(track_id));
    bx(b"tkhd", &p)
}

fn mdhd() -> Vec<u8> {
    let mut p = vec![0u8; 24];
    p[12..16].copy_from_slice(&u32be(1000)); // timescale
    bx(b"mdhd", &p)
}

fn hdlr() -> Vec<u8> {
    let mut p = vec![0u8; 25];
    p[8..12].copy_from_slice(b"vide");
    bx(b"hdlr", &p)
}

fn dinf() -> Vec<u8> {
    bx(b"dinf", &bx(b"dref", &[0u8; 8]))
}

fn empty_table(name: &[u8; 4]) -> Vec<u8> {
    bx(name, &[0u8; 8]) // version/flags + entry_count = 0
}

fn stsz_empty() -> Vec<u8> {
    bx(b"stsz", &[0u8; 12])
}

const STSD_LEN: usize = 138;
const NALU: usize = 0x1_0000; // 2-byte length + 0xFFFE bytes of data

/// One `stsd` box of exactly 138 bytes whose `hvcC` announces one array of `num_nalus` NAL units
/// and whose last two bytes are the length of the first of them.
fn stsd_hev1(num_nalus: u16, first_nalu_len: u16) -> Vec<u8> {
    let mut hvcc_payload = vec![0u8; 22]; // configuration record up to lengthSizeMinusOne
    hvcc_payload.push(1); // num_of_arrays
    hvcc_payload.push(0x20); // array_completeness / nal_unit_type
    hvcc_payload.extend_from_slice(&num_nalus.to_be_bytes());
    hvcc_payload.extend_from_slice(&first_nalu_len.to_be_bytes());
    let hvcc = bx(b"hvcC", &hvcc_payload); // 36 bytes: that is all the box claims to be

    let mut hev1_payload = vec![0u8; 78]; // visual sample entry fields
    hev1_payload.extend_from_slice(&hvcc);
    let hev1 = bx(b"hev1", &hev1_payload); // 122 bytes

    let mut stsd_payload = vec![0u8; 4]; // version/flags
    stsd_payload.extend_from_slice(&u32be(1)); // entry_count
    stsd_payload.extend_from_slice(&hev1);
    let stsd = bx(b"stsd", &stsd_payload);
    assert_eq!(stsd.len(), STSD_LEN);
    stsd
}

/// An image of `k` tiny `stsd` boxes followed, still inside the `stbl`, by a `free` box of
/// `m * 64 KiB`.
fn image(k: usize, m: usize) -> Vec<u8> {
    assert!(k >= 1 && k + m <= u16::MAX as usize);
    let mut stbl_payload = Vec::new();
    for i in 0..k {
        // The NAL units of stsd #i are: one hop per remaining stsd box (each hop lands on the
        // last two bytes of the next stsd, which are that box's own first NAL unit length),
        // then the m 64 KiB units inside the `free` box.
        let num_nalus = (k - i + m) as u16;
        let hop = if i + 1 < k {
            (STSD_LEN - 2) as u16 // over the next stsd up to its last two bytes
        } else {
            8 // over the header of the `free` box
        };
        stbl_payload.extend_from_slice(&stsd_hev1(num_nalus, hop));
    }
    let mut filler = Vec::with_capacity(m * NALU);
    for _ in 0..m {
        filler.extend_from_slice(&0xFFFEu16.to_be_bytes());
        filler.resize(filler.len() + 0xFFFE, 0xAA);
    }
    stbl_payload.extend_from_slice(&bx(b"free", &filler));
    stbl_payload.extend_from_slice(&empty_table(b"stts"));
    stbl_payload.extend_from_slice(&empty_table(b"stsc"));
    stbl_payload.extend_from_slice(&stsz_empty());
    stbl_payload.extend_from_slice(&empty_table(b"stco"));
    let stbl = bx(b"stbl", &stbl_payload);

    let minf = bx(b"minf", &cat(&[&dinf(), &stbl]));
    let mdia = bx(b"mdia", &cat(&[&mdhd(), &hdlr(), &minf]));
    let trak = bx(b"trak", &cat(&[&tkhd(1), &mdia]));
    let moov = bx(b"moov", &cat(&[&mvhd(), &trak]));
    let ftyp = bx(b"ftyp", &cat(&[b"isom", &u32be(0), b"isom"]));
    cat(&[&ftyp, &moov])
}

struct Cost {
    n: u64,
    opened: bool,
    bytes: u64,
    reads: u64,
    seeks: u64,
    secs: f64,
}

fn open_cost(k: usize, m: usize) -> Cost {
    let data = image(k, m);
    let n = data.len() as u64;
    let mut stream = Counting::new(data);
    let t = Instant::now();
    let res = mp4::Mp4Reader::read_header(&mut stream, n);
    let secs = t.elapsed().as_secs_f64();
    // On the audited revision the image opens (`Ok`): nothing is rejected, the work is simply
    // done.  Whether a fixed reader accepts or rejects the image is irrelevant to C07, only
    // the cost of deciding is.
    let opened = res.is_ok();
    drop(res);
    Cost {
        n,
        opened,
        bytes: stream.bytes,
        reads: stream.reads,
        seeks: stream.seeks,
        secs,
    }
}

/// Sanity: the same image with a single `stsd` is read about once.
#[test]
fn baseline_single_stsd_reads_the_file_about_once() {
    let c = open_cost(1, 4);
    assert!(
        c.bytes <= 2 * c.n,
        "baseline transferred {} bytes for {} input bytes",
        c.bytes,
        c.n
    );
}

/// The claim: bytes transferred while opening are bounded by a fixed linear function of n.
/// Here the per-input-byte cost doubles every time n doubles.
#[test]
fn opening_transfers_a_linear_number_of_bytes() {
    // (k, m): k * 138 bytes of stsd boxes ~ m * 64 KiB of filler ~ n / 2
    let shapes = [(475usize, 1usize), (950, 2), (1900, 4)];
    let mut per_byte = Vec::new();
    for &(k, m) in shapes.iter() {
        let c = open_cost(k, m);
        let ratio = c.bytes as f64 / c.n as f64;
        eprintln!(
            "n = {:>8} bytes (opened: {}): transferred {:>12} bytes ({:>7.1} per input byte), {} reads, {} seeks, {:.3} s",
            c.n, c.opened, c.bytes, ratio, c.reads, c.seeks, c.secs
        );
        per_byte.push(ratio);
    }
    // A linear bound a*n + b means bytes/n stays bounded.  Allow a very generous constant.
    let worst = per_byte.iter().cloned().fold(0.0, f64::max);
    assert!(
        worst <= 32.0,
        "opening transferred {:.0} bytes per input byte; per-byte cost by size: {:?} (doubles with n: quadratic)",
        worst,
        per_byte
    );
}
