//! C07 finding 2: MPEG-4 descriptors inside `esds` are not bounded by the `esds` box.
//!
//! `EsdsBox::read_box` (src/mp4box/mp4a.rs) hands the 28-bit length it read from the
//! ES_Descriptor header to `ESDescriptor::read_desc`, whose loop
//! `while current < start + size { read_desc(); ...; skip_bytes(desc_size) }` runs until that
//! self-declared end, wherever it lies in the file (the same holds for
//! `DecoderConfigDescriptor::read_desc`).  Nothing compares the descriptor length, or the
//! position reached, with the end of the 25-byte `esds` box.  `EsdsBox::read_box` then seeks
//! *back* to the declared end of the box and the enclosing `stbl` continues with its next child.
//!
//! A `stbl` may hold any number of `stsd` boxes, so each of K 77-byte `stsd` boxes makes the
//! parser walk, two bytes (and four stream operations) at a time, over the same F bytes that
//! follow them.  With K*77 ~ F ~ n/2 opening costs ~ n^2/154 stream operations.
//! The image is well-formed enough that `Mp4Reader::read_header` returns `Ok` on the audited
//! revision (the test prints `opened: true`).

use std::io::{Cursor, Read, Seek, SeekFrom};
use std::time::Instant;

struct Counting {
    inner: Cursor<Vec<u8>>,
    reads: u64,
    seeks: u64,
    bytes: u64,
}

impl Counting {
    fn new(data: Vec<u8>) -> Self {
        Counting {
            inner: Cursor::new(data),
            reads: 0,
            seeks: 0,
            bytes: 0,
        }
    }
}

impl Read for Counting {
    fn read(&mut self, buf: &mut [u8]) -> std::io::Result<usize> {
        let n = self.inner.read(buf)?;
        self.reads += 1;
        self.bytes += n as u64;
        Ok(n)
    }
}

impl Seek for Counting {
    fn seek(&mut self, pos: SeekFrom) -> std::io::Result<u64> {
        self.seeks += 1;
        self.inner.seek(pos)
    }
}

fn bx(name: &[u8; 4], payload: &[u8]) -> Vec<u8> {
    let mut v = Vec::with_capacity(8 + payload.len());
    v.extend_from_slice(&((8 + payload.len()) as u32).to_be_bytes());
    v.extend_from_slice(name);
    v.extend_from_slice(payload);
    v
}

fn cat(parts: &[&[u8]]) -> Vec<u8> {
    parts.concat()
}

fn u32be(v: u32) -> [u8; 4] {
    v.to_be_bytes()
}

fn mvhd() -> Vec<u8> {
    let mut p = vec![0u8; 100];
    p[12..16].copy_from_slice(&u32be(1000));
    bx(b"mvhd", &p)
}

fn tkhd(track_id: u32) -> Vec<u8> {
    let mut p = vec![0u8; 84];
    p[12..16].copy_from_slice(&u32be(track_id));
    bx(b"tkhd", &p)
}

fn mdhd() -> Vec<u8> {
    let mut p = vec![0u8; 24];
    p[12..16].copy_from_slice(&u32be(1000));
    bx(b"mdhd", &p)
}

fn hdlr() -> Vec<u8> {
    let mut p = vec![0u8; 25];
    p[8..12].copy_from_slice(b"soun");
    bx(b"hdlr", &p)
}

fn dinf() -> Vec<u8> {
    bx(b"dinf", &bx(b"dref", &[0u8; 8]))
}

fn empty_table(name: &[u8; 4]) -> Vec<u8> {
    bx(name, &[0u8; 8])
}

fn stsz_empty() -> Vec<u8> {
    bx(b"stsz", &[0u8; 12])
}

/// descriptor header: tag + 4-byte expandable length (28 bits)
fn desc_header(tag: u8, len: u32) -> [u8; 5] {
    assert!(len < (1 << 28));
    [
        tag,
        0x80 | ((len >> 21) & 0x7F) as u8,
        0x80 | ((len >> 14) & 0x7F) as u8,
        0x80 | ((len >> 7) & 0x7F) as u8,
        (len & 0x7F) as u8,
    ]
}

const STSD_LEN: usize = 77;

/// A 77-byte `stsd` > `mp4a` > `esds` whose ES_Descriptor claims `es_len` bytes and starts with
/// one unknown descriptor of `jump` bytes (skipped with a relative seek).
fn stsd_mp4a(es_len: u32, jump: u32) -> Vec<u8> {
    let mut esds_payload = vec![0u8; 4]; // version/flags
    esds_payload.extend_from_slice(&desc_header(0x03, es_len)); // ES_Descriptor
    esds_payload.extend_from_slice(&[0, 1, 0]); // ES_ID, flags
    esds_payload.extend_from_slice(&desc_header(0x7F, jump)); // unknown descriptor: skipped
    let esds = bx(b"esds", &esds_payload); // 25 bytes: that is all the box claims to be

    let mut mp4a_payload = vec![0u8; 28]; // audio sample entry, version 0
    mp4a_payload[7] = 1; // data_reference_index
    mp4a_payload.extend_from_slice(&esds);
    let mp4a = bx(b"mp4a", &mp4a_payload); // 61 bytes

    let mut stsd_payload = vec![0u8; 4];
    stsd_payload.extend_from_slice(&u32be(1));
    stsd_payload.extend_from_slice(&mp4a);
    let stsd = bx(b"stsd", &stsd_payload);
    assert_eq!(stsd.len(), STSD_LEN);
    stsd
}

/// `k` tiny `stsd` boxes followed, still inside the `stbl`, by a `free` box of `f` bytes that
/// reads as f/2 empty descriptors (tag 0x01, length 0).
fn image(k: usize, f: usize) -> Vec<u8> {
    assert!(f % 2 == 0);
    let mut stbl_payload = Vec::new();
    for i in 0..k {
        // ES_Descriptor content starts 69 bytes into stsd #i; its first (unknown) descriptor
        // ends exactly at the end of stsd #i and jumps to the first filler byte.
        let jump = (STSD_LEN * (k - i - 1) + 8) as u32;
        // ... and the ES_Descriptor claims to reach the last filler byte.
        let es_len = (STSD_LEN * (k - i) + f - 61) as u32;
        stbl_payload.extend_from_slice(&stsd_mp4a(es_len, jump));
    }
    let filler: Vec<u8> = [0x01u8, 0x00].iter().cloned().cycle().take(f).collect();
    stbl_payload.extend_from_slice(&bx(b"free", &filler));
    stbl_payload.extend_from_slice(&empty_table(b"stts"));
    stbl_payload.extend_from_slice(&empty_table(b"stsc"));
    stbl_payload.extend_from_slice(&stsz_empty());
    stbl_payload.extend_from_slice(&empty_table(b"stco"));
    let stbl = bx(b"stbl", &stbl_payload);

    let minf = bx(b"minf", &cat(&[&dinf(), &stbl]));
    let mdia = bx(b"mdia", &cat(&[&mdhd(), &hdlr(), &minf]));
    let trak = bx(b"trak", &cat(&[&tkhd(1), &mdia]));
    let moov = bx(b"moov", &cat(&[&mvhd(), &trak]));
    let ftyp = bx(b"ftyp", &cat(&[b"isom", &u32be(0), b"isom"]));
    cat(&[&ftyp, &moov])
}

struct Cost {
    n: u64,
    opened: bool,
    ops: u64,
    bytes: u64,
    secs: f64,
}

fn open_cost(k: usize, f: usize) -> Cost {
    let data = image(k, f);
    let n = data.len() as u64;
    let mut stream = Counting::new(data);
    let t = Instant::now();
    let res = mp4::Mp4Reader::read_header(&mut stream, n);
    let secs = t.elapsed().as_secs_f64();
    // On the audited revision the image opens (`Ok`).  Whether a fixed reader accepts or
    // rejects the image is irrelevant to C07, only the cost of deciding is.
    let opened = res.is_ok();
    drop(res);
    Cost {
        n,
        opened,
        ops: stream.reads + stream.seeks,
        bytes: stream.bytes,
        secs,
    }
}

/// Sanity: with a single `stsd` the filler is walked once (2 ops per byte).
#[test]
fn baseline_single_stsd() {
    let c = open_cost(1, 1 << 15);
    assert!(
        c.ops <= 4 * c.n,
        "baseline: {} ops for {} bytes",
        c.ops,
        c.n
    );
}

/// The claim: the number of stream operations while opening is bounded by a fixed linear
/// function of n.  Here the per-input-byte cost doubles every time n doubles.
#[test]
fn opening_takes_a_linear_number_of_stream_operations() {
    // (k, f): k * 77 bytes of stsd boxes ~ f bytes of filler ~ n / 2
    let shapes = [(212usize, 1usize << 14), (425, 1 << 15), (851, 1 << 16)];
    let mut per_byte = Vec::new();
    for &(k, f) in shapes.iter() {
        let c = open_cost(k, f);
        let ratio = c.ops as f64 / c.n as f64;
        eprintln!(
            "n = {:>7} bytes (opened: {}): {:>11} stream operations ({:>6.1} per input byte), {:>10} bytes transferred, {:.3} s",
            c.n, c.opened, c.ops, ratio, c.bytes, c.secs
        );
        per_byte.push(ratio);
    }
    let worst = per_byte.iter().cloned().fold(0.0, f64::max);
    assert!(
        worst <= 32.0,
        "opening took {:.0} stream operations per input byte; per-byte cost by size: {:?} (doubles with n: quadratic)",
        worst,
        per_byte
    );
}
