//! C07 finding 3: one `read_sample` / `sample_offset` call on a fragmented track costs
//! (number of trafs) x (number of samples in the run), i.e. ~ n^2 CPU work for an n-byte file.
//!
//! `Mp4Track::sample_offset` (src/track.rs) adds up the sizes of the samples that precede the
//! requested one in its `trun` with
//! `for i in first_sample_in_trun..sample_id { ... self.sample_size(i)? ... }`,
//! and every `self.sample_size(i)` starts over with `find_traf_idx_and_sample_idx(i)`, a linear
//! scan over all `trafs` of the track.  A file whose track has K (empty, 24-byte) track
//! fragments followed by one fragment with a run of S samples therefore needs K*S steps to
//! locate the last sample.  With 24*K ~ 5*S ~ n/2 that is n^2/480 steps for ONE call.
//!
//! The image is a well-formed fragmented file: it opens, and every sample can be read.

use std::io::Cursor;
use std::time::Instant;

fn bx(name: &[u8; 4], payload: &[u8]) -> Vec<u8> {
    let mut v = Vec::with_capacity(8 + payload.len());
    v.extend_from_slice(&((8 + payload.len()) as u32).to_be_bytes());
    v.extend_from_slice(name);
    v.extend_from_slice(payload);
    v
}

fn cat(parts: &[&[u8]]) -> Vec<u8> {
    parts.concat()
}

fn u32be(v: u32) -> [u8; 4] {
    v.to_be_bytes()
}

fn mvhd() -> Vec<u8> {
    let mut p = vec![0u8; 100];
    p[12..16].copy_from_slice(&u32be(1000));
    bx(b"mvhd", &p)
}

fn tkhd(track_id: u32) -> Vec<u8> {
    let mut p = vec![0u8; 84];
    p[12..16].copy_from_slice(&u32be(track_id));
    bx(b"tkhd", &p)
}

fn mdhd() -> Vec<u8> {
    let mut p = vec![0u8; 24];
    p[12..16].copy_from_slice(&u32be(1000));
    bx(b"mdhd", &p)
}

fn hdlr() -> Vec<u8> {
    let mut p = vec![0u8; 25];
    p[8..12].copy_from_slice(b"vide");
    bx(b"hdlr", &p)
}

fn dinf() -> Vec<u8> {
    bx(b"dinf", &bx(b"dref", &[0u8; 8]))
}

fn empty_table(name: &[u8; 4]) -> Vec<u8> {
    bx(name, &[0u8; 8])
}

fn moov() -> Vec<u8> {
    let stbl = bx(
        b"stbl",
        &cat(&[
            &bx(b"stsd", &[0u8; 16]), // no sample entry (and 8 bytes of padding)
            &empty_table(b"stts"),
            &empty_table(b"stsc"),
            &bx(b"stsz", &[0u8; 12]),
            &empty_table(b"stco"),
        ]),
    );
    let minf = bx(b"minf", &cat(&[&dinf(), &stbl]));
    let mdia = bx(b"mdia", &cat(&[&mdhd(), &hdlr(), &minf]));
    let trak = bx(b"trak", &cat(&[&tkhd(1), &mdia]));
    bx(b"moov", &cat(&[&mvhd(), &trak]))
}

fn tfhd(track_id: u32) -> Vec<u8> {
    bx(b"tfhd", &cat(&[&u32be(0), &u32be(track_id)]))
}

/// ftyp, moov, one moof with `k` empty trafs and one traf with a run of `s` one-byte samples,
/// mdat with the `s` bytes.
fn image(k: usize, s: usize) -> Vec<u8> {
    let ftyp = bx(b"ftyp", &cat(&[b"isom", &u32be(0), b"isom"]));
    let moov = moov();

    let empty_traf = bx(b"traf", &tfhd(1)); // 24 bytes
    assert_eq!(empty_traf.len(), 24);

    // trun: flags = data-offset-present | sample-size-present
    let trun_len = 8 + 4 + 4 + 4 + 4 * s;
    let moof_len = 8 + 16 + 24 * k + (8 + 16 + trun_len);
    let mut trun_payload = Vec::with_capacity(trun_len - 8);
    trun_payload.extend_from_slice(&u32be(0x0000_0201));
    trun_payload.extend_from_slice(&u32be(s as u32));
    trun_payload.extend_from_slice(&u32be((moof_len + 8) as u32)); // first byte of the mdat payload
    for _ in 0..s {
        trun_payload.extend_from_slice(&u32be(1));
    }
    let trun = bx(b"trun", &trun_payload);
    assert_eq!(trun.len(), trun_len);
    let full_traf = bx(b"traf", &cat(&[&tfhd(1), &trun]));

    let mut moof_payload = bx(b"mfhd", &cat(&[&u32be(0), &u32be(1)]));
    for _ in 0..k {
        moof_payload.extend_from_slice(&empty_traf);
    }
    moof_payload.extend_from_slice(&full_traf);
    let moof = bx(b"moof", &moof_payload);
    assert_eq!(moof.len(), moof_len);

    let data: Vec<u8> = (0..s).map(|i| (i % 251) as u8).collect();
    let mdat = bx(b"mdat", &data);

    cat(&[&ftyp, &moov, &moof, &mdat])
}

struct Cost {
    n: usize,
    open_secs: f64,
    call_secs: f64,
}

fn cost(k: usize, s: usize) -> Cost {
    let data = image(k, s);
    let n = data.len();

    // yardstick: the fastest of three complete parses of the file
    let mut open_secs = f64::MAX;
    for _ in 0..2 {
        let t = Instant::now();
        let r = mp4::Mp4Reader::read_header(Cursor::new(&data[..]), n as u64).expect("image opens");
        open_secs = open_secs.min(t.elapsed().as_secs_f64());
        drop(r);
    }
    let t = Instant::now();
    let mut reader = mp4::Mp4Reader::read_header(Cursor::new(data), n as u64).expect("image opens");
    open_secs = open_secs.min(t.elapsed().as_secs_f64());

    assert!(reader.is_fragmented());
    assert_eq!(reader.sample_count(1).unwrap(), s as u32);

    // the first sample is cheap and correct
    let first = reader.read_sample(1, 1).unwrap().unwrap();
    assert_eq!(&first.bytes[..], &[0u8]);

    // ONE read of the last sample
    let t = Instant::now();
    let last = reader.read_sample(1, s as u32).unwrap().unwrap();
    let call_secs = t.elapsed().as_secs_f64();
    assert_eq!(&last.bytes[..], &[((s - 1) % 251) as u8]);

    Cost {
        n,
        open_secs,
        call_secs,
    }
}

/// The claim: each sample read completes within work bounded linearly in n plus the sample's
/// size.  Opening the file touches every byte of it (one stream read per 32-bit field), so it is
/// a generous yardstick for "work linear in n" that scales with the machine and build profile.
/// The 1-byte sample must not cost more than 10 such passes over the whole file.
#[test]
fn one_sample_read_costs_work_linear_in_n() {
    // (k, s): 24*k bytes of empty trafs ~ 5*s bytes of run + data ~ n / 2
    let shapes = [(1365usize, 6553usize), (2730, 13107), (5461, 26214), (10922, 52428)];
    let mut rows = Vec::new();
    for &(k, s) in shapes.iter() {
        let c = cost(k, s);
        eprintln!(
            "n = {:>7} bytes ({:>5} trafs, run of {:>5} samples): open {:>8.4} s, read_sample(last) {:>8.4} s = {:>6.1} x open, {:>7.1} ns per input byte",
            c.n,
            k + 1,
            s,
            c.open_secs,
            c.call_secs,
            c.call_secs / c.open_secs,
            c.call_secs * 1e9 / c.n as f64
        );
        rows.push(c);
    }
    let last = rows.last().unwrap();
    let first = &rows[0];
    let growth = (last.call_secs / last.n as f64) / (first.call_secs / first.n as f64);
    assert!(
        last.call_secs <= 10.0 * last.open_secs,
        "reading one 1-byte sample of a {}-byte file took {:.3} s, {:.0} times as long as parsing the whole file ({:.4} s); \
         the per-input-byte cost of the call grew {:.1}-fold while n grew 8-fold (quadratic)",
        last.n,
        last.call_secs,
        last.call_secs / last.open_secs,
        last.open_secs,
        growth
    );
}
