// C15 demonstration: the iTunes metadata list (`moov.udta.meta.ilst`) is held in a
// `std::collections::HashMap` with a per-instance random hasher seed, and both serialisers of
// the box walk that map in its iteration order. Opening the *same bytes* twice therefore gives
// two movie structures that
//   * render to different JSON through the crate's `Mp4Box::to_json`, and
//   * mux (through the crate's `WriteBox::write_box`) to different bytes,
// although nothing but the bytes went in.

use std::io::Cursor;

use mp4::{
    DataBox, DataType, FtypBox, IlstBox, MetaBox, MetadataKey, Mp4Box, Mp4Reader, MoovBox,
    UdtaBox, WriteBox,
};

/// ftyp + moov(mvhd, udta(meta(hdlr=mdir, ilst(title, year, poster, summary)))).
fn make_file() -> Vec<u8> {
    let mut ilst = IlstBox::default();
    for (key, data_type, data) in [
        (MetadataKey::Title, DataType::Text, b"a title".to_vec()),
        (MetadataKey::Year, DataType::Text, b"2026".to_vec()),
        (MetadataKey::Poster, DataType::Image, vec![0xff, 0xd8, 0xff, 0xe0]),
        (MetadataKey::Summary, DataType::Text, b"a summary".to_vec()),
    ] {
        // the item type is not nameable from outside the crate; Default::default() infers it
        ilst.items.insert(key.clone(), Default::default());
        ilst.items.get_mut(&key).unwrap().data = DataBox { data, data_type };
    }
    let moov = MoovBox {
        udta: Some(UdtaBox {
            meta: Some(MetaBox::Mdir {
                ilst: Some(ilst),
            }),
        }),
        ..MoovBox::default()
    };

    let mut out = Vec::new();
    FtypBox {
        major_brand: str::parse("isom").unwrap(),
        minor_version: 0,
        compatible_brands: vec![str::parse("isom").unwrap()],
    }
    .write_box(&mut out)
    .unwrap();
    moov.write_box(&mut out).unwrap();
    out
}

fn open(bytes: &[u8]) -> Mp4Reader<Cursor<&[u8]>> {
    Mp4Reader::read_header(Cursor::new(bytes), bytes.len() as u64).unwrap()
}

fn remux(moov: &MoovBox) -> Vec<u8> {
    let mut out = Vec::new();
    moov.write_box(&mut out).unwrap();
    out
}

#[test]
fn same_bytes_opened_twice_render_and_mux_identically() {
    let bytes = make_file();

    let first = open(&bytes);
    assert_eq!(first.moov.udta.as_ref().map(|u| u.meta.is_some()), Some(true));
    let first_json = first.moov.to_json().unwrap();
    let first_remux = remux(&first.moov);

    for attempt in 0..16 {
        let again = open(&bytes);
        // the derived PartialEq cannot see the difference ...
        assert_eq!(first.moov, again.moov);
        // ... every way of looking at the contents can
        assert_eq!(
            first_json,
            again.moov.to_json().unwrap(),
            "opening #{} of the same bytes renders to different JSON",
            attempt
        );
        assert!(
            first_remux == remux(&again.moov),
            "opening #{} of the same bytes muxes to different bytes",
            attempt
        );
    }
}

#[test]
fn muxing_the_same_metadata_twice_is_byte_identical() {
    // two runs of the same construction history
    let first = make_file();
    for attempt in 0..16 {
        assert!(
            first == make_file(),
            "run #{} of the same muxing history produced different bytes",
            attempt
        );
    }
}
