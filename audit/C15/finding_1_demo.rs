// C15 demonstration: `Mp4Reader::tracks()` is an accessor whose observable result (the order in
// which it yields the tracks, and its `Debug` rendering) does not depend only on the file: two
// readers opened over the very same bytes enumerate the tracks in different orders, because the
// map is a `std::collections::HashMap` with a per-instance random hasher seed.
//
// Consequence shown in the second test: the crate's own `examples/mp4copy.rs` recipe (iterate
// `tracks().values()` to `add_track`, iterate `tracks().keys()` to copy samples) run twice on
// the same input produces different output bytes.

use std::io::Cursor;

use mp4::{
    AacConfig, AvcConfig, Bytes, MediaConfig, MediaType, Mp4Config, Mp4Reader, Mp4Sample,
    Mp4Writer, TrackConfig, TrackType, TtxtConfig,
};

const TRACKS: u32 = 8;

fn config() -> Mp4Config {
    Mp4Config {
        major_brand: str::parse("isom").unwrap(),
        minor_version: 512,
        compatible_brands: vec![str::parse("isom").unwrap()],
        timescale: 1000,
    }
}

/// A small, perfectly ordinary file made by the crate's own muxer: alternating AVC / AAC /
/// subtitle tracks, three samples each.
fn make_file() -> Vec<u8> {
    let mut w = Mp4Writer::write_start(Cursor::new(Vec::new()), &config()).unwrap();
    for t in 0..TRACKS {
        let conf = match t % 3 {
            0 => TrackConfig::from(MediaConfig::AvcConfig(AvcConfig {
                width: 320 + t as u16,
                height: 240,
                seq_param_set: vec![0x67, 0x42, 0xc0, 0x1e, 0x01],
                pic_param_set: vec![0x68, 0xce, 0x3c, 0x80],
            })),
            1 => TrackConfig::from(MediaConfig::AacConfig(AacConfig::default())),
            _ => TrackConfig {
                track_type: TrackType::Subtitle,
                timescale: 1000 + t,
                language: String::from("und"),
                media_conf: MediaConfig::TtxtConfig(TtxtConfig {}),
            },
        };
        w.add_track(&conf).unwrap();
    }
    for s in 0..3u32 {
        for t in 1..=TRACKS {
            let sample = Mp4Sample {
                start_time: (s * 100) as u64,
                duration: 100,
                rendering_offset: 0,
                is_sync: true,
                bytes: Bytes::from(vec![t as u8; (t + s) as usize + 1]),
            };
            w.write_sample(t, &sample).unwrap();
        }
    }
    w.write_end().unwrap();
    w.into_writer().into_inner()
}

fn open(bytes: &[u8]) -> Mp4Reader<Cursor<&[u8]>> {
    Mp4Reader::read_header(Cursor::new(bytes), bytes.len() as u64).unwrap()
}

#[test]
fn tracks_accessor_is_the_same_for_every_opening_of_the_same_bytes() {
    let bytes = make_file();

    let first = open(&bytes);
    let first_order: Vec<u32> = first.tracks().keys().copied().collect();
    let first_debug = format!("{:?}", first.tracks());

    for attempt in 0..16 {
        let again = open(&bytes);
        let order: Vec<u32> = again.tracks().keys().copied().collect();
        assert_eq!(
            first_order, order,
            "opening #{} of the same bytes enumerates the tracks in another order",
            attempt
        );
        assert_eq!(
            first_debug,
            format!("{:?}", again.tracks()),
            "opening #{} of the same bytes renders tracks() differently",
            attempt
        );
    }
}

/// The recipe of examples/mp4copy.rs, verbatim in structure.
fn copy(src: &[u8]) -> Vec<u8> {
    let mut r = open(src);
    let mut w = Mp4Writer::write_start(
        Cursor::new(Vec::new()),
        &Mp4Config {
            major_brand: *r.major_brand(),
            minor_version: r.minor_version(),
            compatible_brands: r.compatible_brands().to_vec(),
            timescale: r.timescale(),
        },
    )
    .unwrap();

    for track in r.tracks().values() {
        let media_conf = match track.media_type().unwrap() {
            MediaType::H264 => MediaConfig::AvcConfig(AvcConfig {
                width: track.width(),
                height: track.height(),
                seq_param_set: track.sequence_parameter_set().unwrap().to_vec(),
                pic_param_set: track.picture_parameter_set().unwrap().to_vec(),
            }),
            MediaType::AAC => MediaConfig::AacConfig(AacConfig {
                bitrate: track.bitrate(),
                profile: track.audio_profile().unwrap(),
                freq_index: track.sample_freq_index().unwrap(),
                chan_conf: track.channel_config().unwrap(),
            }),
            MediaType::TTXT => MediaConfig::TtxtConfig(TtxtConfig {}),
            _ => unreachable!(),
        };
        w.add_track(&TrackConfig {
            track_type: track.track_type().unwrap(),
            timescale: track.timescale(),
            language: track.language().to_string(),
            media_conf,
        })
        .unwrap();
    }

    for track_id in r.tracks().keys().copied().collect::<Vec<u32>>() {
        for sample_id in 1..=r.sample_count(track_id).unwrap() {
            let sample = r.read_sample(track_id, sample_id).unwrap().unwrap();
            w.write_sample(track_id, &sample).unwrap();
        }
    }
    w.write_end().unwrap();
    w.into_writer().into_inner()
}

#[test]
fn copying_the_same_file_twice_gives_the_same_bytes() {
    let bytes = make_file();
    let first = copy(&bytes);
    for attempt in 0..16 {
        assert!(
            first == copy(&bytes),
            "copy #{} of the same input differs from the first copy",
            attempt
        );
    }
}
