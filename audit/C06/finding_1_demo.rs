//! C06 finding 1: `HvcCBox::read_box` ignores the size of the box it is parsing.
//!
//! The NAL-unit arrays of an `hvcC` box are followed wherever their (unchecked) 8/16-bit counts and
//! lengths lead, far past the end of `hvcC`, `hev1`, `stsd`, ... `moov`.  `Hev1Box::read_box` then
//! seeks *back* to the declared end of `hev1`, so the bytes that were swallowed are parsed again by
//! the enclosing boxes.  Every `trak` of a file can therefore make its `hvcC` walk over (and
//! allocate for) the same trailing bytes of the file, and every empty NAL unit (2 bytes in the
//! file) costs 32 bytes of heap that is kept alive in `Mp4Reader::moov` and again in
//! `Mp4Reader::tracks()`.
//!
//! Result: heap use is  (number of traks) x 16 x (size of the shared tail) x 2,  i.e. it grows with
//! the *square* of the file length.  The 170 KiB file built below makes `Mp4Reader::read_header`
//! hold about 400 MiB; the same layout with 157 traks and 255 arrays per hvcC (a 33 MiB file) asks
//! for ~170 GiB, which ends in `handle_alloc_error` -> `abort()` (or the OOM killer): the reader
//! does not "return a value or an error".
//!
//! Uses only std and the crate's public API.  `cargo test --offline --test c06_hvcc_unbounded`

use std::alloc::{GlobalAlloc, Layout, System};
use std::io::Cursor;
use std::sync::atomic::{AtomicUsize, Ordering::SeqCst};

// ---------------------------------------------------------------------------------------------
// A counting allocator: live bytes, peak, and an optional hard cap (a stand-in for `ulimit -v`
// or a container memory limit).
// ---------------------------------------------------------------------------------------------
struct Counting;
static LIVE: AtomicUsize = AtomicUsize::new(0);
static PEAK: AtomicUsize = AtomicUsize::new(0);
static CAP: AtomicUsize = AtomicUsize::new(usize::MAX);

fn account(add: usize) -> bool {
    let now = LIVE.fetch_add(add, SeqCst) + add;
    if now > CAP.load(SeqCst) {
        LIVE.fetch_sub(add, SeqCst);
        return false;
    }
    PEAK.fetch_max(now, SeqCst);
    true
}

unsafe impl GlobalAlloc for Counting {
    unsafe fn alloc(&self, l: Layout) -> *mut u8 {
        if !account(l.size()) {
            return std::ptr::null_mut();
        }
        System.alloc(l)
    }
    unsafe fn alloc_zeroed(&self, l: Layout) -> *mut u8 {
        if !account(l.size()) {
            return std::ptr::null_mut();
        }
        System.alloc_zeroed(l)
    }
    unsafe fn dealloc(&self, p: *mut u8, l: Layout) {
        LIVE.fetch_sub(l.size(), SeqCst);
        System.dealloc(p, l)
    }
    unsafe fn realloc(&self, p: *mut u8, l: Layout, new: usize) -> *mut u8 {
        if new > l.size() {
            if !account(new - l.size()) {
                return std::ptr::null_mut();
            }
        } else {
            LIVE.fetch_sub(l.size() - new, SeqCst);
        }
        System.realloc(p, l, new)
    }
}

#[global_allocator]
static A: Counting = Counting;

// ---------------------------------------------------------------------------------------------
// File construction
// ---------------------------------------------------------------------------------------------
fn boxed(name: &[u8; 4], body: &[u8]) -> Vec<u8> {
    let mut v = Vec::with_capacity(8 + body.len());
    v.extend_from_slice(&((8 + body.len()) as u32).to_be_bytes());
    v.extend_from_slice(name);
    v.extend_from_slice(body);
    v
}

fn full(name: &[u8; 4], body: &[u8]) -> Vec<u8> {
    // version 0, flags 0
    let mut b = vec![0u8; 4];
    b.extend_from_slice(body);
    boxed(name, &b)
}

fn cat(parts: &[&[u8]]) -> Vec<u8> {
    parts.iter().flat_map(|p| p.iter().copied()).collect()
}

/// One `trak` whose very last bytes are an `hvcC` box that announces `arrays` NAL-unit arrays, the
/// first of them holding 65535 NAL units, the first of which is `first_nalu_len` bytes long.
/// Everything after those announcements lies *outside* the trak.
fn trak(track_id: u32, arrays: u8, first_nalu_len: u16) -> Vec<u8> {
    // hvcC: 22 bytes of configuration, num_of_arrays, then the head of the first array
    let mut hvcc_body = vec![0u8; 22];
    hvcc_body[0] = 1; // configuration_version
    hvcc_body.push(arrays); // num_of_arrays
    hvcc_body.push(0x20); // array_completeness / nal_unit_type
    hvcc_body.extend_from_slice(&0xFFFFu16.to_be_bytes()); // num_nalus
    hvcc_body.extend_from_slice(&first_nalu_len.to_be_bytes()); // length of the first NAL unit
    let hvcc = boxed(b"hvcC", &hvcc_body);

    // hev1 sample entry: 78 bytes of fixed fields, then hvcC
    let mut hev1_body = vec![0u8; 78];
    hev1_body[7] = 1; // data_reference_index
    hev1_body.extend_from_slice(&hvcc);
    let hev1 = boxed(b"hev1", &hev1_body);

    let stsd = full(b"stsd", &cat(&[&1u32.to_be_bytes(), &hev1]));
    let stts = full(b"stts", &0u32.to_be_bytes());
    let stsc = full(b"stsc", &0u32.to_be_bytes());
    let stsz = full(b"stsz", &[0u8; 8]);
    let stco = full(b"stco", &0u32.to_be_bytes());
    // stsd goes last so that the hvcC payload starts exactly where the trak ends
    let stbl = boxed(b"stbl", &cat(&[&stts, &stsc, &stsz, &stco, &stsd]));

    let dref = full(b"dref", &0u32.to_be_bytes());
    let dinf = boxed(b"dinf", &dref);
    let minf = boxed(b"minf", &cat(&[&dinf, &stbl]));

    let mut mdhd_body = vec![0u8; 20];
    mdhd_body[8..12].copy_from_slice(&1000u32.to_be_bytes()); // timescale
    let mdhd = full(b"mdhd", &mdhd_body);
    let mut hdlr_body = vec![0u8; 21];
    hdlr_body[4..8].copy_from_slice(b"vide");
    let hdlr = full(b"hdlr", &hdlr_body);
    let mdia = boxed(b"mdia", &cat(&[&mdhd, &hdlr, &minf]));

    let mut tkhd_body = vec![0u8; 80];
    tkhd_body[8..12].copy_from_slice(&track_id.to_be_bytes());
    let tkhd = full(b"tkhd", &tkhd_body);

    boxed(b"trak", &cat(&[&tkhd, &mdia]))
}

/// `traks` video tracks + a tail of zero bytes that every track's hvcC reads as empty NAL units.
fn build(traks: usize, arrays: u8) -> Vec<u8> {
    let trak_len = trak(1, arrays, 0).len();
    assert!((traks - 1) * trak_len <= u16::MAX as usize);

    let mut mvhd_body = vec![0u8; 96];
    mvhd_body[8..12].copy_from_slice(&1000u32.to_be_bytes()); // timescale
    let mut moov_body = full(b"mvhd", &mvhd_body);
    for k in 0..traks {
        // the first NAL unit of trak k swallows the traks that follow it, up to the shared tail
        let hop = (traks - 1 - k) * trak_len;
        moov_body.extend_from_slice(&trak(k as u32 + 1, arrays, hop as u16));
    }

    let mut file = boxed(b"ftyp", b"isom\0\0\0\0isom");
    file.extend_from_slice(&boxed(b"moov", &moov_body));

    // Shared tail. Seen from the top level it is a box header with size 0 (parsing stops there);
    // seen from each hvcC it is: the remaining 65534 empty NAL units of array #1, then
    // (arrays-1) x [array header announcing 65535 NAL units + 65535 empty NAL units].
    file.extend(std::iter::repeat(0u8).take(65534 * 2));
    for _ in 1..arrays {
        file.extend_from_slice(&[0x21, 0xFF, 0xFF]);
        file.extend(std::iter::repeat(0u8).take(65535 * 2));
    }
    file
}

// ---------------------------------------------------------------------------------------------

/// Fails on the unmodified crate: opening a 170 KiB file keeps ~400 MiB of heap alive.
#[test]
fn opening_a_small_file_needs_memory_proportional_to_the_file() {
    let file = build(100, 1);
    assert!(file.len() < 200 * 1024, "file is {} bytes", file.len());

    PEAK.store(LIVE.load(SeqCst), SeqCst);
    let before = LIVE.load(SeqCst);
    let opened = mp4::Mp4Reader::read_header(Cursor::new(&file[..]), file.len() as u64);
    let peak = PEAK.load(SeqCst) - before;

    // On the unmodified crate this is the "successfully opened" path (no error is involved):
    // 100 tracks, each holding its own 65535-element NAL unit table read from the same bytes.
    // (A fixed reader may just as well reject the file; then there is nothing to look at.)
    match opened {
        Ok(mp4) => {
            let stsd = &mp4.moov.traks[0].mdia.minf.stbl.stsd;
            let nalus = stsd.hev1.as_ref().map_or(0, |h| h.hvcc.arrays[0].nalus.len());
            eprintln!(
                "opened: {} tracks, {} NAL units in the first track's hvcC",
                mp4.tracks().len(),
                nalus
            );
        }
        Err(e) => eprintln!("rejected: {}", e),
    }

    eprintln!(
        "file: {} bytes, peak heap while opening: {} bytes ({}x)",
        file.len(),
        peak,
        peak / file.len()
    );
    // A reader that only keeps what the file backs needs a small multiple of the file length
    // (each trak is cloned once into `tracks()`, table entries are widened, ...). 64x is generous.
    assert!(
        peak <= 64 * file.len(),
        "opening a {} byte file needed {} bytes of heap ({}x the file): heap use is quadratic in \
         the file length, a few MiB of input exhaust memory and abort the process",
        file.len(),
        peak,
        peak / file.len()
    );
}

/// The literal abort, under a heap limit (run explicitly:
/// `cargo test --offline --test c06_hvcc_unbounded -- --ignored`).
/// With at most 256 MiB of heap -- 1500x the size of the input -- `read_header` neither returns a
/// value nor an error: the process dies with "memory allocation of N bytes failed" / SIGABRT.
#[test]
#[ignore]
fn opening_a_small_file_aborts_under_a_256_mib_heap_limit() {
    let file = build(100, 1);
    CAP.store(LIVE.load(SeqCst) + 256 * 1024 * 1024, SeqCst);
    let r = mp4::Mp4Reader::read_header(Cursor::new(&file[..]), file.len() as u64);
    CAP.store(usize::MAX, SeqCst);
    // not reached on the unmodified crate
    assert!(r.is_ok() || r.is_err());
}
