// C11 counter-example: a fragmented file whose `moov` also describes samples
// (the layout ffmpeg writes for `-movflags frag_keyframe` without `empty_moov`:
// a regular mdat/moov pair holding the first part of the movie, followed by moof/mdat
// pairs).  As soon as a prefix loses the `moof` boxes of a track, `read_sample(track, n)`
// silently switches from "n-th sample of the fragments" to "n-th sample of the moov's
// sample table" and returns Ok(Some(..)) with other bytes and another timestamp than the
// complete file gives for the same (track, n).
//
// Only the crate's public API and std are used.

use mp4::*;
use std::convert::TryInto;
use std::io::Cursor;

fn pattern(seed: u8, len: usize) -> Vec<u8> {
    (0..len).map(|i| seed.wrapping_add(i as u8)).collect()
}

/// A regular two-track file made by the crate's own writer: ftyp, mdat, moov.
fn progressive_part() -> Vec<u8> {
    let cfg = Mp4Config {
        major_brand: str::parse("isom").unwrap(),
        minor_version: 512,
        compatible_brands: vec![str::parse("isom").unwrap(), str::parse("iso6").unwrap()],
        timescale: 1000,
    };
    let mut w = Mp4Writer::write_start(Cursor::new(Vec::new()), &cfg).unwrap();
    w.add_track(&TrackConfig {
        track_type: TrackType::Video,
        timescale: 1000,
        language: "und".into(),
        media_conf: MediaConfig::AvcConfig(AvcConfig {
            width: 16,
            height: 16,
            seq_param_set: vec![0x67, 0x42, 0x00, 0x1e, 0xab],
            pic_param_set: vec![0x68, 0xce, 0x3c, 0x80],
        }),
    })
    .unwrap();
    w.add_track(&TrackConfig {
        track_type: TrackType::Audio,
        timescale: 1000,
        language: "und".into(),
        media_conf: MediaConfig::AacConfig(AacConfig::default()),
    })
    .unwrap();
    for i in 0..4u32 {
        w.write_sample(
            1,
            &Mp4Sample {
                start_time: i as u64 * 250,
                duration: 250,
                rendering_offset: 0,
                is_sync: i == 0,
                bytes: Bytes::from(pattern(0x10 + i as u8, 20 + i as usize)),
            },
        )
        .unwrap();
        w.write_sample(
            2,
            &Mp4Sample {
                start_time: i as u64 * 250,
                duration: 250,
                rendering_offset: 0,
                is_sync: true,
                bytes: Bytes::from(pattern(0x60 + i as u8, 12)),
            },
        )
        .unwrap();
    }
    w.write_end().unwrap();
    w.into_writer().into_inner()
}

/// `mvex` with one `trex` per track (the crate's MoovBox writer does not emit it).
fn mvex(track_ids: &[u32]) -> Vec<u8> {
    let mut body = Vec::new();
    for id in track_ids {
        TrexBox {
            version: 0,
            flags: 0,
            track_id: *id,
            default_sample_description_index: 1,
            default_sample_duration: 0,
            default_sample_size: 0,
            default_sample_flags: 0,
        }
        .write_box(&mut body)
        .unwrap();
    }
    let mut out = ((body.len() + 8) as u32).to_be_bytes().to_vec();
    out.extend_from_slice(b"mvex");
    out.extend_from_slice(&body);
    out
}

/// One movie fragment (moof + mdat) for one track; sample data addressed relative to the moof.
fn fragment(seq: u32, track_id: u32, decode_time: u64, samples: &[Vec<u8>]) -> Vec<u8> {
    let build = |data_offset: i32| MoofBox {
        mfhd: MfhdBox {
            version: 0,
            flags: 0,
            sequence_number: seq,
        },
        trafs: vec![TrafBox {
            tfhd: TfhdBox {
                version: 0,
                flags: TfhdBox::FLAG_DEFAULT_BASE_IS_MOOF,
                track_id,
                ..Default::default()
            },
            tfdt: Some(TfdtBox {
                version: 1,
                flags: 0,
                base_media_decode_time: decode_time,
            }),
            trun: Some(TrunBox {
                version: 0,
                flags: TrunBox::FLAG_DATA_OFFSET
                    | TrunBox::FLAG_SAMPLE_DURATION
                    | TrunBox::FLAG_SAMPLE_SIZE,
                sample_count: samples.len() as u32,
                data_offset: Some(data_offset),
                first_sample_flags: None,
                sample_durations: vec![250; samples.len()],
                sample_sizes: samples.iter().map(|s| s.len() as u32).collect(),
                sample_flags: vec![],
                sample_cts: vec![],
            }),
        }],
    };
    let moof_size = build(0).box_size();
    let mut out = Vec::new();
    build(moof_size as i32 + 8).write_box(&mut out).unwrap();
    assert_eq!(out.len() as u64, moof_size);
    let payload: usize = samples.iter().map(|s| s.len()).sum();
    out.extend_from_slice(&((payload + 8) as u32).to_be_bytes());
    out.extend_from_slice(b"mdat");
    for s in samples {
        out.extend_from_slice(s);
    }
    out
}

/// ftyp, mdat, moov(with mvex), moof(track 1), mdat, moof(track 2), mdat
fn hybrid_file() -> Vec<u8> {
    let base = progressive_part();
    // locate the moov (last top-level box of the writer's output)
    let mut pos = 0usize;
    let mut moov_at = None;
    while pos + 8 <= base.len() {
        let size = u32::from_be_bytes(base[pos..pos + 4].try_into().unwrap()) as usize;
        if &base[pos + 4..pos + 8] == b"moov" {
            moov_at = Some(pos);
        }
        pos += size;
    }
    let moov_at = moov_at.unwrap();
    assert_eq!(pos, base.len());

    let mut out = base.clone();
    out.extend_from_slice(&mvex(&[1, 2])); // appended as the last child of moov
    let moov_size = (out.len() - moov_at) as u32;
    out[moov_at..moov_at + 4].copy_from_slice(&moov_size.to_be_bytes());

    out.extend_from_slice(&fragment(
        1,
        1,
        1000,
        &[pattern(0xA0, 9), pattern(0xA8, 10), pattern(0xB0, 11)],
    ));
    out.extend_from_slice(&fragment(2, 2, 1000, &[pattern(0xE0, 7), pattern(0xE8, 8)]));
    out
}

fn open(data: &[u8]) -> Result<Mp4Reader<Cursor<Vec<u8>>>> {
    Mp4Reader::read_header(Cursor::new(data.to_vec()), data.len() as u64)
}

#[test]
fn truncated_hybrid_file_yields_samples_the_complete_file_does_not_have_there() {
    let file = hybrid_file();

    // What the complete file says.
    let mut full = open(&file).expect("complete file opens");
    assert!(full.is_fragmented());
    let mut reference = Vec::new(); // (track, sample_id, sample)
    for track in [1u32, 2] {
        let n = full.sample_count(track).unwrap();
        assert!(n > 0);
        for id in 1..=n {
            let s = full
                .read_sample(track, id)
                .expect("complete file: read works")
                .expect("complete file: sample present");
            reference.push((track, id, s));
        }
    }

    // Every proper prefix, opened with its own length.
    let mut violations = Vec::new();
    let mut opened = 0;
    for cut in 0..file.len() {
        let mut rd = match open(&file[..cut]) {
            Ok(rd) => rd,
            Err(_) => continue, // failing to open is allowed
        };
        opened += 1;
        for (track, id, want) in &reference {
            match rd.read_sample(*track, *id) {
                Err(_) => {}   // allowed
                Ok(None) => {} // (not counted here)
                Ok(Some(got)) => {
                    if got.bytes != want.bytes
                        || got.start_time != want.start_time
                        || got.duration != want.duration
                        || got.rendering_offset != want.rendering_offset
                    {
                        violations.push(format!(
                            "cut {:4}: track {} sample {}: prefix gives start_time {} bytes {:02x?}.., complete file gives start_time {} bytes {:02x?}..",
                            cut, track, id,
                            got.start_time, &got.bytes[..4],
                            want.start_time, &want.bytes[..4],
                        ));
                    }
                }
            }
        }
    }
    assert!(opened > 0, "some prefixes must open for the test to mean anything");
    for v in violations.iter().take(8) {
        eprintln!("{}", v);
    }
    assert!(
        violations.is_empty(),
        "{} (prefix, track, sample) combinations returned Ok(Some(sample)) that differs from \
         the same sample of the complete file; first: {}",
        violations.len(),
        violations[0]
    );
}
