// exploratory harness (not a finding): sweep all cut points of several layouts
use mp4::*;
use std::collections::BTreeMap;
use std::convert::TryInto;
use std::io::Cursor;
use std::panic;

fn cfg() -> Mp4Config {
    Mp4Config {
        major_brand: str::parse("isom").unwrap(),
        minor_version: 512,
        compatible_brands: vec![str::parse("isom").unwrap(), str::parse("iso2").unwrap()],
        timescale: 1000,
    }
}

fn smp(start: u64, dur: u32, off: i32, sync: bool, fill: u8, len: usize) -> Mp4Sample {
    let bytes: Vec<u8> = (0..len).map(|i| fill.wrapping_add(i as u8)).collect();
    Mp4Sample {
        start_time: start,
        duration: dur,
        rendering_offset: off,
        is_sync: sync,
        bytes: Bytes::from(bytes),
    }
}

fn writer_file(with_audio: bool) -> Vec<u8> {
    let mut w = Mp4Writer::write_start(Cursor::new(Vec::new()), &cfg()).unwrap();
    w.add_track(&TrackConfig {
        track_type: TrackType::Video,
        timescale: 1000,
        language: "und".into(),
        media_conf: MediaConfig::AvcConfig(AvcConfig {
            width: 16,
            height: 16,
            seq_param_set: vec![0x67, 0x42, 0x00, 0x1e, 0xab],
            pic_param_set: vec![0x68, 0xce, 0x3c, 0x80],
        }),
    })
    .unwrap();
    if with_audio {
        w.add_track(&TrackConfig {
            track_type: TrackType::Audio,
            timescale: 1000,
            language: "und".into(),
            media_conf: MediaConfig::AacConfig(AacConfig::default()),
        })
        .unwrap();
    }
    let mut t = 0u64;
    for i in 0..7u32 {
        let s = smp(t, 300 + i, if i % 2 == 0 { 0 } else { 40 }, i % 3 == 0, 0x10 + i as u8, 20 + i as usize * 3);
        w.write_sample(1, &s).unwrap();
        t += (300 + i) as u64;
        if with_audio {
            let a = smp(i as u64 * 400, 400, 0, true, 0x80 + i as u8, 11);
            w.write_sample(2, &a).unwrap();
        }
    }
    w.write_end().unwrap();
    w.into_writer().into_inner()
}

fn top_boxes(data: &[u8]) -> Vec<(String, usize, usize)> {
    let mut v = Vec::new();
    let mut p = 0;
    while p + 8 <= data.len() {
        let mut s = u32::from_be_bytes(data[p..p + 4].try_into().unwrap()) as usize;
        if s == 1 {
            s = u64::from_be_bytes(data[p + 8..p + 16].try_into().unwrap()) as usize;
        }
        let n = String::from_utf8_lossy(&data[p + 4..p + 8]).to_string();
        assert!(s >= 8, "box {} size {}", n, s);
        v.push((n, p, s));
        p += s;
    }
    v
}

fn mvex_bytes(track_ids: &[u32]) -> Vec<u8> {
    let mut body = Vec::new();
    for id in track_ids {
        let trex = TrexBox {
            version: 0,
            flags: 0,
            track_id: *id,
            default_sample_description_index: 1,
            default_sample_duration: 0,
            default_sample_size: 0,
            default_sample_flags: 0,
        };
        trex.write_box(&mut body).unwrap();
    }
    let mut out = Vec::new();
    out.extend_from_slice(&((body.len() + 8) as u32).to_be_bytes());
    out.extend_from_slice(b"mvex");
    out.extend_from_slice(&body);
    out
}

fn moov_with_mvex(moov: &[u8], ids: &[u32]) -> Vec<u8> {
    let mut out = moov.to_vec();
    out.extend_from_slice(&mvex_bytes(ids));
    let l = out.len() as u32;
    out[0..4].copy_from_slice(&l.to_be_bytes());
    out
}

fn fragment(seq: u32, track_id: u32, base: u64, samples: &[(u32, Vec<u8>, u32)]) -> Vec<u8> {
    let mut trun = TrunBox {
        version: 0,
        flags: TrunBox::FLAG_DATA_OFFSET
            | TrunBox::FLAG_SAMPLE_DURATION
            | TrunBox::FLAG_SAMPLE_SIZE
            | TrunBox::FLAG_SAMPLE_CTS,
        sample_count: samples.len() as u32,
        data_offset: Some(0),
        first_sample_flags: None,
        sample_durations: samples.iter().map(|s| s.0).collect(),
        sample_sizes: samples.iter().map(|s| s.1.len() as u32).collect(),
        sample_flags: vec![],
        sample_cts: samples.iter().map(|s| s.2).collect(),
    };
    let mk = |trun: TrunBox| MoofBox {
        mfhd: MfhdBox {
            version: 0,
            flags: 0,
            sequence_number: seq,
        },
        trafs: vec![TrafBox {
            tfhd: TfhdBox {
                version: 0,
                flags: TfhdBox::FLAG_DEFAULT_BASE_IS_MOOF,
                track_id,
                ..Default::default()
            },
            tfdt: Some(TfdtBox {
                version: 1,
                flags: 0,
                base_media_decode_time: base,
            }),
            trun: Some(trun),
        }],
    };
    let size = mk(trun.clone()).box_size();
    trun.data_offset = Some(size as i32 + 8);
    let mut out = Vec::new();
    mk(trun).write_box(&mut out).unwrap();
    assert_eq!(out.len() as u64, size);
    let total: usize = samples.iter().map(|s| s.1.len()).sum();
    out.extend_from_slice(&((total + 8) as u32).to_be_bytes());
    out.extend_from_slice(b"mdat");
    for s in samples {
        out.extend_from_slice(&s.1);
    }
    out
}

fn frag_samples(seed: u8, n: usize) -> Vec<(u32, Vec<u8>, u32)> {
    (0..n)
        .map(|i| {
            (
                100 + i as u32,
                (0..(9 + i * 2)).map(|k| seed.wrapping_add((k * 7 + i) as u8)).collect(),
                (i as u32 % 2) * 10,
            )
        })
        .collect()
}

/// ftyp, mdat, moov(+mvex), then fragments
fn hybrid_moov_mid() -> Vec<u8> {
    let base = writer_file(false);
    let boxes = top_boxes(&base);
    let (_, mp, ms) = boxes.iter().find(|b| b.0 == "moov").unwrap().clone();
    let mut out = base[..mp].to_vec();
    out.extend_from_slice(&moov_with_mvex(&base[mp..mp + ms], &[1]));
    out.extend_from_slice(&fragment(1, 1, 5000, &frag_samples(0xA0, 3)));
    out.extend_from_slice(&fragment(2, 1, 6000, &frag_samples(0xC0, 2)));
    out
}

/// ftyp, moov (offsets shifted), mdat
fn faststart(base: &[u8], mvex_ids: Option<&[u32]>) -> Vec<u8> {
    let boxes = top_boxes(base);
    let (_, fp, fs) = boxes.iter().find(|b| b.0 == "ftyp").unwrap().clone();
    let (_, mp, ms) = boxes.iter().find(|b| b.0 == "moov").unwrap().clone();
    let rd = Mp4Reader::read_header(Cursor::new(base.to_vec()), base.len() as u64).unwrap();
    let mut moov = rd.moov.clone();
    let ser = |m: &MoovBox| {
        let mut v = Vec::new();
        m.write_box(&mut v).unwrap();
        match mvex_ids {
            Some(ids) => moov_with_mvex(&v, ids),
            None => v,
        }
    };
    let shift = ser(&moov).len() as u64;
    // data region = everything between ftyp end and moov start
    for trak in moov.traks.iter_mut() {
        if let Some(stco) = trak.mdia.minf.stbl.stco.as_mut() {
            for e in stco.entries.iter_mut() {
                *e += shift as u32;
            }
        }
        if let Some(co64) = trak.mdia.minf.stbl.co64.as_mut() {
            for e in co64.entries.iter_mut() {
                *e += shift;
            }
        }
    }
    let mut out = base[fp..fp + fs].to_vec();
    let m = ser(&moov);
    assert_eq!(m.len() as u64, shift);
    out.extend_from_slice(&m);
    out.extend_from_slice(&base[fp + fs..mp]);
    assert_eq!(mp + ms, base.len());
    out
}

fn hybrid_faststart() -> Vec<u8> {
    let mut out = faststart(&writer_file(true), Some(&[1, 2]));
    out.extend_from_slice(&fragment(1, 1, 5000, &frag_samples(0xA0, 3)));
    out.extend_from_slice(&fragment(2, 2, 5000, &frag_samples(0xB0, 4)));
    out.extend_from_slice(&fragment(3, 1, 6000, &frag_samples(0xC0, 2)));
    out
}

fn pure_fragmented() -> Vec<u8> {
    let mut out = std::fs::read("tests/samples/minimal_init.mp4").unwrap();
    out.extend_from_slice(&std::fs::read("tests/samples/minimal_fragment.m4s").unwrap());
    out
}


fn empty_writer_file() -> Vec<u8> {
    let mut w = Mp4Writer::write_start(Cursor::new(Vec::new()), &cfg()).unwrap();
    w.add_track(&TrackConfig {
        track_type: TrackType::Video,
        timescale: 1000,
        language: "und".into(),
        media_conf: MediaConfig::AvcConfig(AvcConfig {
            width: 16,
            height: 16,
            seq_param_set: vec![0x67, 0x42, 0x00, 0x1e, 0xab],
            pic_param_set: vec![0x68, 0xce, 0x3c, 0x80],
        }),
    })
    .unwrap();
    w.add_track(&TrackConfig {
        track_type: TrackType::Audio,
        timescale: 1000,
        language: "und".into(),
        media_conf: MediaConfig::AacConfig(AacConfig::default()),
    })
    .unwrap();
    w.write_end().unwrap();
    w.into_writer().into_inner()
}

fn emsg(v: u8) -> Vec<u8> {
    let e = EmsgBox {
        version: v,
        flags: 0,
        timescale: 1000,
        presentation_time: if v == 1 { Some(77) } else { None },
        presentation_time_delta: if v == 0 { Some(5) } else { None },
        event_duration: 9,
        id: 3,
        scheme_id_uri: "urn:x".into(),
        value: "v".into(),
        message_data: vec![1, 2, 3, 4, 5],
    };
    let mut o = Vec::new();
    e.write_box(&mut o).unwrap();
    o
}

fn pure_frag_multi() -> Vec<u8> {
    let mut out = faststart(&empty_writer_file(), Some(&[1, 2]));
    out.extend_from_slice(&emsg(0));
    out.extend_from_slice(&fragment(1, 1, 0, &frag_samples(0xA0, 3)));
    out.extend_from_slice(&fragment(2, 2, 0, &frag_samples(0xB0, 4)));
    out.extend_from_slice(&emsg(1));
    out.extend_from_slice(&fragment(3, 1, 303, &frag_samples(0xC0, 2)));
    out.extend_from_slice(&fragment(4, 2, 406, &frag_samples(0xD0, 5)));
    out
}

/// ftyp, moov, mdat with a 64-bit size
fn faststart_large_mdat() -> Vec<u8> {
    let base = writer_file(true);
    let fs = faststart(&base, None);
    let boxes = top_boxes(&fs);
    let (_, mp, ms) = boxes.iter().find(|b| b.0 == "moov").unwrap().clone();
    let (_, dp, ds) = boxes.iter().find(|b| b.0 == "mdat").unwrap().clone();
    let rd = Mp4Reader::read_header(Cursor::new(fs.clone()), fs.len() as u64).unwrap();
    let mut moov = rd.moov.clone();
    for trak in moov.traks.iter_mut() {
        if let Some(stco) = trak.mdia.minf.stbl.stco.as_mut() {
            for e in stco.entries.iter_mut() {
                *e += 8;
            }
        }
    }
    let mut out = fs[..mp].to_vec();
    let mut m = Vec::new();
    moov.write_box(&mut m).unwrap();
    assert_eq!(m.len(), ms);
    out.extend_from_slice(&m);
    out.extend_from_slice(&1u32.to_be_bytes());
    out.extend_from_slice(b"mdat");
    out.extend_from_slice(&((ds + 8) as u64).to_be_bytes());
    out.extend_from_slice(&fs[dp + 8..]);
    out
}


fn many_codecs() -> Vec<u8> {
    let mut w = Mp4Writer::write_start(Cursor::new(Vec::new()), &cfg()).unwrap();
    let confs = vec![
        (TrackType::Video, MediaConfig::HevcConfig(HevcConfig { width: 8, height: 8 })),
        (TrackType::Video, MediaConfig::Vp9Config(Vp9Config { width: 8, height: 8 })),
        (TrackType::Subtitle, MediaConfig::TtxtConfig(TtxtConfig {})),
        (TrackType::Audio, MediaConfig::AacConfig(AacConfig::default())),
    ];
    for (t, c) in confs {
        w.add_track(&TrackConfig { track_type: t, timescale: 90000, language: "eng".into(), media_conf: c }).unwrap();
    }
    for i in 0..5u32 {
        for t in 1..=4u32 {
            let s = smp(i as u64 * 3000, 3000, (t as i32 - 2) * 100, i % 2 == 0, (t * 40 + i) as u8, if t == 3 && i == 2 { 0 } else { 5 + (t + i) as usize });
            w.write_sample(t, &s).unwrap();
        }
    }
    w.write_end().unwrap();
    w.into_writer().into_inner()
}

type Dump = BTreeMap<u32, Vec<Option<Mp4Sample>>>;

fn dump_full(data: &[u8]) -> Dump {
    let mut rd = Mp4Reader::read_header(Cursor::new(data.to_vec()), data.len() as u64).unwrap();
    let ids: Vec<u32> = rd.tracks().keys().copied().collect();
    let mut d = Dump::new();
    for id in ids {
        let n = rd.sample_count(id).unwrap();
        let mut v = Vec::new();
        for s in 1..=n + 1 {
            v.push(rd.read_sample(id, s).ok().flatten());
        }
        d.insert(id, v);
    }
    d
}

fn sweep(name: &str, data: &[u8], step: usize) -> usize {
    let full = dump_full(data);
    let total: usize = full.values().map(|v| v.iter().filter(|s| s.is_some()).count()).sum();
    println!("== {} len {} boxes {:?} samples {}", name, data.len(), top_boxes(data).iter().map(|b| (b.0.clone(), b.1)).collect::<Vec<_>>(), total);
    let mut bad = 0;
    let mut opened = 0;
    let mut cats: BTreeMap<String, usize> = BTreeMap::new();
    let mut cut = 0;
    while cut < data.len() {
        let prefix = data[..cut].to_vec();
        let full = &full;
        let r = panic::catch_unwind(move || {
            let mut msgs = Vec::new();
            let mut ok = false;
            if let Ok(mut rd) = Mp4Reader::read_header(Cursor::new(prefix), cut as u64) {
                ok = true;
                for (id, exp) in full.iter() {
                    for (i, e) in exp.iter().enumerate() {
                        let sid = i as u32 + 1;
                        match rd.read_sample(*id, sid) {
                            Err(_) => {}
                            Ok(None) => {
                                if e.is_some() {
                                    msgs.push(format!("soft: cut {} trk {} smp {}: Ok(None) but full has sample", cut, id, sid));
                                }
                            }
                            Ok(Some(s)) => match e {
                                Some(f) => {
                                    if s.bytes != f.bytes || s.start_time != f.start_time || s.duration != f.duration || s.rendering_offset != f.rendering_offset {
                                        msgs.push(format!("HARD: cut {} trk {} smp {}: differs (got start {} len {}, full start {} len {})", cut, id, sid, s.start_time, s.bytes.len(), f.start_time, f.bytes.len()));
                                    } else if s.is_sync != f.is_sync {
                                        msgs.push(format!("sync: cut {} trk {} smp {}: is_sync differs", cut, id, sid));
                                    }
                                }
                                None => msgs.push(format!("HARD: cut {} trk {} smp {}: sample where full has none", cut, id, sid)),
                            },
                        }
                    }
                }
            }
            (ok, msgs)
        });
        match r {
            Err(_) => {
                println!("PANIC at cut {}", cut);
                bad += 1;
            }
            Ok((ok, msgs)) => {
                if ok {
                    opened += 1;
                }
                for m in msgs {
                    let k = m.split(':').next().unwrap().to_string();
                    let c = cats.entry(k).or_insert(0usize);
                    *c += 1;
                    if *c <= 3 {
                        println!("{}", m);
                    }
                    if m.starts_with("HARD") {
                        bad += 1;
                    }
                }
            }
        }
        cut += step;
    }
    println!("   opened at {} cuts, hard violations {} cats {:?}", opened, bad, cats);
    bad
}

#[test]
fn sweep_all() {
    let mut bad = 0;
    bad += sweep("writer moov-last 2trk", &writer_file(true), 1);
    bad += sweep("faststart 2trk", &faststart(&writer_file(true), None), 1);
    bad += sweep("pure fragmented", &pure_fragmented(), 1);
    bad += sweep("hybrid moov-mid", &hybrid_moov_mid(), 1);
    bad += sweep("hybrid faststart", &hybrid_faststart(), 1);
    bad += sweep("minimal.mp4", &std::fs::read("tests/samples/minimal.mp4").unwrap(), 1);
    bad += sweep("ext audio", &std::fs::read("tests/samples/extended_audio_object_type.mp4").unwrap(), 1);
    bad += sweep("pure frag multi + emsg", &pure_frag_multi(), 1);
    bad += sweep("faststart large mdat", &faststart_large_mdat(), 1);
    bad += sweep("many codecs moov-last", &many_codecs(), 1);
    bad += sweep("many codecs faststart", &faststart(&many_codecs(), None), 1);
    let bbb = std::fs::read("tests/samples/big_buck_bunny_metadata.m4v").unwrap();
    bad += sweep("bbb metadata", &bbb, 101);
    assert_eq!(bad, 0);
}
