//! Storage faults: what can happen to stored bytes between (or during) phases. Faults are
//! explicit values (offsets resolved at generation time) so that a case replays from its JSON.

use crate::boxtree::{walk, Node};
use crate::prng::Rng;
use serde::{Deserialize, Serialize};

#[derive(Clone, Debug, PartialEq, Eq, Serialize, Deserialize)]
pub enum StorageFault {
    /// media rot
    BitFlip { off: u64, bit: u8 },
    /// stuck cell
    SetByte { off: u64, val: u8 },
    /// torn / garbled sector landing on a big-endian field of `width` bytes
    SetField { off: u64, width: u8, val: u64 },
    /// lost write / unwritten block
    ZeroRange { off: u64, len: u64 },
    /// misdirected write
    CopyRange { src: u64, dst: u64, len: u64 },
    /// lost block (the rest shifts down)
    DropRange { off: u64, len: u64 },
    /// replayed block (the rest shifts up)
    DupRange { off: u64, len: u64 },
    /// torn tail
    Cut { at: u64 },
    /// garbled four-character code
    SetType { off: u64, typ: [u8; 4] },
}

impl StorageFault {
    pub fn kind(&self) -> &'static str {
        match self {
            StorageFault::BitFlip { .. } => "bit_flip",
            StorageFault::SetByte { .. } => "set_byte",
            StorageFault::SetField { .. } => "set_field",
            StorageFault::ZeroRange { .. } => "zero_range",
            StorageFault::CopyRange { .. } => "copy_range",
            StorageFault::DropRange { .. } => "drop_range",
            StorageFault::DupRange { .. } => "dup_range",
            StorageFault::Cut { .. } => "cut",
            StorageFault::SetType { .. } => "set_type",
        }
    }

    pub fn apply(&self, img: &mut Vec<u8>) {
        let n = img.len() as u64;
        match *self {
            StorageFault::BitFlip { off, bit } => {
                if off < n {
                    img[off as usize] ^= 1 << (bit & 7);
                }
            }
            StorageFault::SetByte { off, val } => {
                if off < n {
                    img[off as usize] = val;
                }
            }
            StorageFault::SetField { off, width, val } => {
                let w = width as u64;
                if off + w <= n {
                    let b = val.to_be_bytes();
                    img[off as usize..(off + w) as usize].copy_from_slice(&b[8 - width as usize..]);
                }
            }
            StorageFault::ZeroRange { off, len } => {
                if off < n {
                    let e = std::cmp::min(n, off + len);
                    for b in &mut img[off as usize..e as usize] {
                        *b = 0;
                    }
                }
            }
            StorageFault::CopyRange { src, dst, len } => {
                if src < n && dst < n {
                    let l = std::cmp::min(len, std::cmp::min(n - src, n - dst));
                    let tmp = img[src as usize..(src + l) as usize].to_vec();
                    img[dst as usize..(dst + l) as usize].copy_from_slice(&tmp);
                }
            }
            StorageFault::DropRange { off, len } => {
                if off < n {
                    let e = std::cmp::min(n, off + len);
                    img.drain(off as usize..e as usize);
                }
            }
            StorageFault::DupRange { off, len } => {
                if off < n {
                    let e = std::cmp::min(n, off + len);
                    let tmp = img[off as usize..e as usize].to_vec();
                    let at = e as usize;
                    img.splice(at..at, tmp);
                }
            }
            StorageFault::Cut { at } => {
                if at < n {
                    img.truncate(at as usize);
                }
            }
            StorageFault::SetType { off, typ } => {
                if off + 4 <= n {
                    img[off as usize..off as usize + 4].copy_from_slice(&typ);
                }
            }
        }
    }
}

/// A field worth aiming at: a big-endian integer that drives a loop, a division, an allocation
/// or a seek in a parser.
#[derive(Clone, Debug)]
pub struct Field {
    pub box_path: String,
    pub name: String,
    pub off: u64,
    pub width: u8,
    pub current: u64,
}

fn rd(img: &[u8], off: usize, width: usize) -> u64 {
    let mut v = 0u64;
    for i in 0..width {
        v = (v << 8) | img[off + i] as u64;
    }
    v
}

/// Fields of one box: header fields for every box; for leaves, every aligned 32-bit word of the
/// first 64 body bytes, 16-bit words of the first 32, the last word, and for large 64-bit
/// forms the obvious 64-bit positions.
fn fields_of(img: &[u8], n: &Node, out: &mut Vec<Field>) {
    let push = |out: &mut Vec<Field>, name: String, off: usize, width: usize| {
        if off + width <= img.len() {
            out.push(Field {
                box_path: n.path.clone(),
                name,
                off: off as u64,
                width: width as u8,
                current: rd(img, off, width),
            });
        }
    };
    push(out, "size".into(), n.start, 4);
    if n.hdr == 16 {
        push(out, "largesize".into(), n.start + 8, 8);
    }
    let body = n.body();
    let end = n.end().min(img.len());
    let leaf_end = match n.kids {
        Some((k, _)) => k.min(end), // the fixed part in front of the children
        None => end,
    };
    let span = leaf_end.saturating_sub(body);
    let mut o = 0;
    while o + 4 <= span && o < 64 {
        push(out, format!("w{o}"), body + o, 4);
        o += 4;
    }
    let mut o = 0;
    while o + 2 <= span && o < 32 {
        push(out, format!("h{o}"), body + o, 2);
        o += 2;
    }
    if span >= 72 {
        push(out, "w_last".into(), body + (span - 4), 4);
    }
    if n.kids.is_none() {
        let mut o = 4;
        while o + 8 <= span && o < 40 {
            push(out, format!("q{o}"), body + o, 8);
            o += 8;
        }
        // table entries: a few words spread over a long body
        if span > 96 {
            for k in 1..4 {
                let p = (span / 4 * k) & !3;
                push(out, format!("w_mid{k}"), body + p, 4);
            }
        }
    }
}

pub fn field_map(img: &[u8]) -> (Vec<Node>, Vec<Field>) {
    let nodes = walk(img);
    let mut f = Vec::new();
    for n in &nodes {
        if n.is(b"mdat") && n.depth == 0 {
            // only the header of media data
            f.push(Field { box_path: n.path.clone(), name: "size".into(), off: n.start as u64, width: 4, current: rd(img, n.start, 4) });
            continue;
        }
        fields_of(img, n, &mut f);
    }
    (nodes, f)
}

pub fn boundary_value(r: &mut Rng, width: u8, current: u64) -> u64 {
    let max: u64 = if width >= 8 { u64::MAX } else { (1u64 << (8 * width as u32)) - 1 };
    let v = match r.below(20) {
        0 => 0,
        1 => 1,
        2 => 2,
        3 => *r.pick(&[7u64, 8, 9, 15, 16, 17]),
        4 => current.wrapping_add(1),
        5 => current.wrapping_sub(1),
        6 => current.wrapping_add(8),
        7 => current.wrapping_sub(8),
        8 => {
            let k = r.below(8 * width as u64);
            1u64 << k
        }
        9 => {
            let k = r.below(8 * width as u64);
            (1u64 << k).wrapping_sub(1)
        }
        10 => {
            let k = r.below(8 * width as u64);
            (1u64 << k).wrapping_add(1)
        }
        11 => max >> 1,              // 7FFF..
        12 => (max >> 1) + 1,        // 8000..
        13 => max - 1,
        14 | 15 => max,
        16 => current.wrapping_mul(2),
        17 => current / 2,
        18 => r.below(1000),
        _ => r.next_u64(),
    };
    v & max
}

const SIBLING_TYPES: [&[u8; 4]; 28] = [
    b"free", b"moov", b"trak", b"mdia", b"minf", b"stbl", b"stsd", b"stts", b"stsc", b"stsz", b"stco", b"co64", b"ctts", b"stss", b"mdat",
    b"moof", b"traf", b"trun", b"tfhd", b"tfdt", b"meta", b"udta", b"ilst", b"data", b"hdlr", b"emsg", b"avcC", b"esds",
];

/// Draw one storage fault for `img`; >= 60 % are aimed at located fields.
pub fn gen_fault(r: &mut Rng, img: &[u8], nodes: &[Node], fields: &[Field]) -> (StorageFault, String) {
    let n = img.len() as u64;
    if n == 0 {
        return (StorageFault::Cut { at: 0 }, "empty".into());
    }
    let meta_ranges: Vec<(u64, u64)> = nodes
        .iter()
        .filter(|x| x.depth == 0 && !x.is(b"mdat"))
        .map(|x| (x.start as u64, x.end() as u64))
        .collect();
    let meta_off = |r: &mut Rng| -> u64 {
        if meta_ranges.is_empty() || r.chance(1, 8) {
            r.below(n)
        } else {
            let (a, b) = meta_ranges[r.usize_below(meta_ranges.len())];
            a + r.below((b - a).max(1))
        }
    };
    match r.below(100) {
        0..=61 if !fields.is_empty() => {
            let f = &fields[r.usize_below(fields.len())];
            let val = boundary_value(r, f.width, f.current);
            (StorageFault::SetField { off: f.off, width: f.width, val }, format!("{}:{}", f.box_path, f.name))
        }
        0..=69 => (StorageFault::BitFlip { off: meta_off(r), bit: r.below(8) as u8 }, "bit".into()),
        70..=77 => (StorageFault::SetByte { off: meta_off(r), val: *r.pick(&[0u8, 1, 0x7F, 0x80, 0xFF]) }, "byte".into()),
        78..=81 => {
            if !nodes.is_empty() && r.chance(1, 2) {
                let b = &nodes[r.usize_below(nodes.len())];
                (StorageFault::ZeroRange { off: b.body() as u64, len: (b.size - b.hdr) as u64 }, format!("{}:body", b.path))
            } else {
                (StorageFault::ZeroRange { off: meta_off(r), len: 1 + r.below(64) }, "range".into())
            }
        }
        82..=85 => {
            if nodes.len() >= 2 && r.chance(1, 2) {
                let a = &nodes[r.usize_below(nodes.len())];
                let b = &nodes[r.usize_below(nodes.len())];
                (StorageFault::CopyRange { src: a.start as u64, dst: b.start as u64, len: a.size as u64 }, format!("{}->{}", a.path, b.path))
            } else {
                (StorageFault::CopyRange { src: meta_off(r), dst: meta_off(r), len: 1 + r.below(48) }, "range".into())
            }
        }
        86..=89 => {
            if !nodes.is_empty() && r.chance(1, 2) {
                let b = &nodes[r.usize_below(nodes.len())];
                (StorageFault::DropRange { off: b.start as u64, len: b.size as u64 }, format!("{}:box", b.path))
            } else {
                (StorageFault::DropRange { off: meta_off(r), len: 1 + r.below(16) }, "range".into())
            }
        }
        90..=92 => {
            if !nodes.is_empty() && r.chance(1, 2) {
                let b = &nodes[r.usize_below(nodes.len())];
                (StorageFault::DupRange { off: b.start as u64, len: b.size as u64 }, format!("{}:box", b.path))
            } else {
                (StorageFault::DupRange { off: meta_off(r), len: 1 + r.below(16) }, "range".into())
            }
        }
        93..=95 => (StorageFault::Cut { at: if r.chance(1, 2) { meta_off(r) } else { r.below(n) } }, "cut".into()),
        _ => {
            if nodes.is_empty() {
                (StorageFault::BitFlip { off: r.below(n), bit: 0 }, "bit".into())
            } else {
                let b = &nodes[r.usize_below(nodes.len())];
                let typ = **r.pick(&SIBLING_TYPES);
                (StorageFault::SetType { off: b.start as u64 + 4, typ }, format!("{}:type", b.path))
            }
        }
    }
}
