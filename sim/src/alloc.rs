//! Allocator seam: `System` behind a counting `GlobalAlloc`. The harness arms a measurement
//! window around one library call and reads the largest single request, the peak of live bytes
//! above the baseline and the cumulative bytes requested inside the window.
//!
//! Requests up to `SERVE_LIMIT` are served (untouched zero pages cost nothing, so a 4 GiB buffer
//! sized by a corrupt field is *observed*, not fatal); larger ones get a null pointer, which
//! makes the standard library abort - the supervisor sees that as the death of the worker.

use std::alloc::{GlobalAlloc, Layout, System};
use std::sync::atomic::{AtomicBool, AtomicUsize, Ordering::Relaxed};
use std::sync::Mutex;

pub struct Counting;

pub const SERVE_LIMIT: usize = 6 << 30;

static LIVE: AtomicUsize = AtomicUsize::new(0);
static ARMED: AtomicBool = AtomicBool::new(false);
static BASE: AtomicUsize = AtomicUsize::new(0);
static PEAK: AtomicUsize = AtomicUsize::new(0);
static CUM: AtomicUsize = AtomicUsize::new(0);
static MAXREQ: AtomicUsize = AtomicUsize::new(0);
static NREQ: AtomicUsize = AtomicUsize::new(0);
/// single-request size above which a backtrace is captured (0 = never)
static TRACE_ABOVE: AtomicUsize = AtomicUsize::new(0);
static IN_CAPTURE: AtomicBool = AtomicBool::new(false);
static TRACE: Mutex<Option<(usize, String)>> = Mutex::new(None);

#[inline]
fn on_alloc(size: usize) {
    let live = LIVE.fetch_add(size, Relaxed) + size;
    if ARMED.load(Relaxed) && !IN_CAPTURE.load(Relaxed) {
        CUM.fetch_add(size, Relaxed);
        NREQ.fetch_add(1, Relaxed);
        if size > MAXREQ.load(Relaxed) {
            MAXREQ.store(size, Relaxed);
        }
        if live > PEAK.load(Relaxed) {
            PEAK.store(live, Relaxed);
        }
        let t = TRACE_ABOVE.load(Relaxed);
        if t != 0 && size > t && !IN_CAPTURE.swap(true, Relaxed) {
            // first offender of this window: remember where it came from
            let already = TRACE.lock().map(|g| g.is_some()).unwrap_or(true);
            if !already {
                // what the capture itself allocates and keeps (the symboliser caches the parsed
                // debug information, tens of MB) is the harness's memory, not the library's:
                // move the baseline by whatever stays live
                let before = LIVE.load(Relaxed);
                let bt = std::backtrace::Backtrace::force_capture();
                let frame = crate::panicx::frame_from_backtrace(&format!("{bt}"));
                if let Ok(mut g) = TRACE.lock() {
                    *g = Some((size, frame));
                }
                let kept = LIVE.load(Relaxed).saturating_sub(before);
                BASE.fetch_add(kept, Relaxed);
                PEAK.fetch_add(kept, Relaxed);
            }
            IN_CAPTURE.store(false, Relaxed);
        }
    }
}

unsafe impl GlobalAlloc for Counting {
    unsafe fn alloc(&self, l: Layout) -> *mut u8 {
        if l.size() > SERVE_LIMIT {
            if ARMED.load(Relaxed) && l.size() > MAXREQ.load(Relaxed) {
                MAXREQ.store(l.size(), Relaxed);
            }
            // the process is about to abort (handle_alloc_error); whatever the abort path
            // allocates (message, backtrace) must not be traced, or it deadlocks on std's
            // backtrace lock
            IN_CAPTURE.store(true, Relaxed);
            return std::ptr::null_mut();
        }
        let p = System.alloc(l);
        if !p.is_null() {
            on_alloc(l.size());
        }
        p
    }
    unsafe fn alloc_zeroed(&self, l: Layout) -> *mut u8 {
        if l.size() > SERVE_LIMIT {
            if ARMED.load(Relaxed) && l.size() > MAXREQ.load(Relaxed) {
                MAXREQ.store(l.size(), Relaxed);
            }
            IN_CAPTURE.store(true, Relaxed);
            return std::ptr::null_mut();
        }
        let p = System.alloc_zeroed(l);
        if !p.is_null() {
            on_alloc(l.size());
        }
        p
    }
    unsafe fn dealloc(&self, p: *mut u8, l: Layout) {
        LIVE.fetch_sub(l.size(), Relaxed);
        System.dealloc(p, l)
    }
    unsafe fn realloc(&self, p: *mut u8, l: Layout, new_size: usize) -> *mut u8 {
        if new_size > SERVE_LIMIT {
            IN_CAPTURE.store(true, Relaxed);
            return std::ptr::null_mut();
        }
        let q = System.realloc(p, l, new_size);
        if !q.is_null() {
            LIVE.fetch_sub(l.size(), Relaxed);
            on_alloc(new_size);
        }
        q
    }
}

#[derive(Clone, Copy, Debug, Default)]
pub struct AllocReport {
    pub max_request: usize,
    pub peak_over_base: usize,
    pub cumulative: usize,
    pub requests: usize,
}

/// Open a measurement window.
pub fn arm(trace_above: usize) {
    let live = LIVE.load(Relaxed);
    BASE.store(live, Relaxed);
    PEAK.store(live, Relaxed);
    CUM.store(0, Relaxed);
    MAXREQ.store(0, Relaxed);
    NREQ.store(0, Relaxed);
    TRACE_ABOVE.store(trace_above, Relaxed);
    if let Ok(mut g) = TRACE.lock() {
        *g = None;
    }
    ARMED.store(true, Relaxed);
}

/// Close the window and report.
pub fn disarm() -> (AllocReport, Option<(usize, String)>) {
    ARMED.store(false, Relaxed);
    let r = AllocReport {
        max_request: MAXREQ.load(Relaxed),
        peak_over_base: PEAK.load(Relaxed).saturating_sub(BASE.load(Relaxed)),
        cumulative: CUM.load(Relaxed),
        requests: NREQ.load(Relaxed),
    };
    let t = TRACE.lock().ok().and_then(|mut g| g.take());
    (r, t)
}

/// The panic hook symbolises a backtrace (which allocates, sometimes a lot, under std's
/// backtrace lock): counting and, above all, tracing must be off meanwhile, or the allocator
/// would try to capture a backtrace while one is being captured.
pub fn suspend() -> bool {
    IN_CAPTURE.swap(true, Relaxed)
}

pub fn resume(prev: bool) {
    IN_CAPTURE.store(prev, Relaxed);
}
