//! Independent ISO-BMFF parser (oracle). Written from ISO/IEC 14496-12 (box structure, movie
//! and track headers, sample tables), 14496-14 (esds), 14496-15 (avcC, hvcC), the VP9-in-ISOBMFF
//! binding (vpcC) and 3GPP TS 26.245 (tx3g). It shares no code with the `mp4` crate: it reads
//! big-endian integers out of byte slices obtained from a `Src`.

use crate::simdisk::SimDisk;

pub trait Src {
    fn len(&self) -> u64;
    fn read(&self, off: u64, n: usize) -> Vec<u8>;
}

impl Src for SimDisk {
    fn len(&self) -> u64 {
        SimDisk::len(self)
    }
    fn read(&self, off: u64, n: usize) -> Vec<u8> {
        self.read_vec(off, n)
    }
}

impl Src for Vec<u8> {
    fn len(&self) -> u64 {
        <[u8]>::len(self) as u64
    }
    fn read(&self, off: u64, n: usize) -> Vec<u8> {
        let l = <[u8]>::len(self) as u64;
        if off >= l {
            return vec![];
        }
        let e = std::cmp::min(l, off + n as u64);
        self[off as usize..e as usize].to_vec()
    }
}

/// (invariant name, detail)
pub type PErr = (&'static str, String);

fn perr<T>(inv: &'static str, d: impl Into<String>) -> Result<T, PErr> {
    Err((inv, d.into()))
}

pub fn be16(b: &[u8], o: usize) -> u16 {
    u16::from_be_bytes([b[o], b[o + 1]])
}
pub fn be32(b: &[u8], o: usize) -> u32 {
    u32::from_be_bytes([b[o], b[o + 1], b[o + 2], b[o + 3]])
}
pub fn be64(b: &[u8], o: usize) -> u64 {
    let mut x = [0u8; 8];
    x.copy_from_slice(&b[o..o + 8]);
    u64::from_be_bytes(x)
}

pub fn t4(t: &[u8; 4]) -> String {
    t.iter()
        .map(|c| if c.is_ascii_graphic() || *c == b' ' { *c as char } else { '?' })
        .collect()
}

#[derive(Clone, Debug)]
pub struct Bx {
    pub typ: [u8; 4],
    pub start: u64,
    pub hdr: u64,
    pub size: u64,
    /// true if the 64-bit size form was used
    pub large: bool,
}

impl Bx {
    pub fn body(&self) -> u64 {
        self.start + self.hdr
    }
    pub fn end(&self) -> u64 {
        self.start + self.size
    }
    pub fn is(&self, t: &[u8; 4]) -> bool {
        &self.typ == t
    }
}

/// Read one box header at `off`; the box must lie inside `[off, limit)`.
pub fn box_at(src: &dyn Src, off: u64, limit: u64) -> Result<Bx, PErr> {
    if off + 8 > limit {
        return perr("box_header_truncated", format!("header at {off} does not fit before {limit}"));
    }
    let h = src.read(off, 16);
    if h.len() < 8 {
        return perr("box_header_truncated", format!("short read at {off}"));
    }
    let s32 = be32(&h, 0);
    let mut typ = [0u8; 4];
    typ.copy_from_slice(&h[4..8]);
    let (hdr, size, large) = if s32 == 1 {
        if h.len() < 16 || off + 16 > limit {
            return perr("box_header_truncated", format!("largesize at {off} truncated"));
        }
        (16u64, be64(&h, 8), true)
    } else if s32 == 0 {
        (8u64, limit - off, false)
    } else {
        (8u64, s32 as u64, false)
    };
    if size < hdr {
        return perr("box_size_too_small", format!("'{}' at {off}: size {size} < header {hdr}", t4(&typ)));
    }
    if off.checked_add(size).map(|e| e > limit).unwrap_or(true) {
        return perr(
            "box_overruns_parent",
            format!("'{}' at {off}: size {size} runs past {limit}", t4(&typ)),
        );
    }
    Ok(Bx { typ, start: off, hdr, size, large })
}

/// Boxes that exactly tile `[from, to)`.
pub fn tile(src: &dyn Src, from: u64, to: u64) -> Result<Vec<Bx>, PErr> {
    let mut v = Vec::new();
    let mut off = from;
    while off < to {
        let b = box_at(src, off, to)?;
        off = b.end();
        v.push(b);
    }
    Ok(v)
}

fn one<'a>(kids: &'a [Bx], t: &[u8; 4], parent: &str) -> Result<&'a Bx, PErr> {
    let mut it = kids.iter().filter(|b| b.is(t));
    let first = it.next();
    if it.next().is_some() {
        return perr("duplicate_box", format!("more than one '{}' in {parent}", t4(t)));
    }
    match first {
        Some(b) => Ok(b),
        None => perr("missing_box", format!("no '{}' in {parent}", t4(t))),
    }
}

fn opt<'a>(kids: &'a [Bx], t: &[u8; 4], parent: &str) -> Result<Option<&'a Bx>, PErr> {
    let mut it = kids.iter().filter(|b| b.is(t));
    let first = it.next();
    if it.next().is_some() {
        return perr("duplicate_box", format!("more than one '{}' in {parent}", t4(t)));
    }
    Ok(first)
}

fn body(src: &dyn Src, b: &Bx, min: usize, name: &str) -> Result<Vec<u8>, PErr> {
    let n = (b.size - b.hdr) as usize;
    if n < min {
        return perr("leaf_too_small", format!("'{name}' body {n} < {min}"));
    }
    if n > (256 << 20) {
        return perr("leaf_too_big", format!("'{name}' body {n}"));
    }
    let v = src.read(b.body(), n);
    if v.len() != n {
        return perr("leaf_truncated", format!("'{name}'"));
    }
    Ok(v)
}

#[derive(Clone, Debug, Default)]
pub struct AvcC {
    pub version: u8,
    pub profile: u8,
    pub compat: u8,
    pub level: u8,
    pub length_size_minus_one: u8,
    pub sps: Vec<Vec<u8>>,
    pub pps: Vec<Vec<u8>>,
}

#[derive(Clone, Debug, Default)]
pub struct Esds {
    pub es_id: u16,
    pub object_type_indication: u8,
    pub stream_type: u8,
    pub buffer_size_db: u32,
    pub max_bitrate: u32,
    pub avg_bitrate: u32,
    pub audio_object_type: u8,
    pub freq_index: u8,
    pub chan_conf: u8,
    pub asc_bytes: Vec<u8>,
}

#[derive(Clone, Debug)]
pub enum Codec {
    Avc(AvcC),
    Hevc { config_version: u8, num_arrays: u8 },
    Vp9 { profile: u8, level: u8, bit_depth: u8 },
    Aac { channelcount: u16, samplesize: u16, samplerate_16_16: u32, esds: Option<Esds> },
    Tx3g,
    Other,
}

#[derive(Clone, Debug)]
pub struct SampleEntry {
    pub fourcc: [u8; 4],
    pub data_reference_index: u16,
    pub width: u16,
    pub height: u16,
    pub codec: Codec,
}

#[derive(Clone, Debug)]
pub struct ITrack {
    pub tkhd_version: u8,
    pub tkhd_flags: u32,
    pub track_id: u32,
    pub tkhd_duration: u64,
    pub tkhd_width_16_16: u32,
    pub tkhd_height_16_16: u32,
    pub mdhd_version: u8,
    pub timescale: u32,
    pub mdhd_duration: u64,
    pub language: u16,
    pub handler: [u8; 4],
    pub has_vmhd: bool,
    pub has_smhd: bool,
    pub entry_count: u32,
    pub entry: SampleEntry,
    pub stts: Vec<(u32, u32)>,
    pub ctts: Option<(u8, Vec<(u32, i64)>)>,
    pub stss: Option<Vec<u32>>,
    pub stsc: Vec<(u32, u32, u32)>,
    pub stsz_sample_size: u32,
    pub stsz_count: u32,
    pub stsz_sizes: Vec<u32>,
    pub chunk_offsets: Vec<u64>,
    pub is_co64: bool,
    /// byte positions of interesting boxes (for fault targeting and reports)
    pub pos: Vec<(String, Bx)>,
}

#[derive(Clone, Debug)]
pub struct IMovie {
    pub top: Vec<Bx>,
    pub major: [u8; 4],
    pub minor: u32,
    pub compat: Vec<[u8; 4]>,
    pub mvhd_version: u8,
    pub timescale: u32,
    pub duration: u64,
    pub next_track_id: u32,
    pub tracks: Vec<ITrack>,
    /// payload ranges of all top-level mdat boxes
    pub mdat: Vec<(u64, u64)>,
    pub mdat_large: Vec<bool>,
    pub moov: Bx,
}

fn fullbox(b: &[u8]) -> (u8, u32) {
    (b[0], be32(b, 0) & 0x00FF_FFFF)
}

fn parse_descr_len(b: &[u8], o: &mut usize) -> Result<u32, PErr> {
    let mut size = 0u32;
    for _ in 0..4 {
        if *o >= b.len() {
            return perr("esds_truncated", "descriptor length");
        }
        let c = b[*o];
        *o += 1;
        size = (size << 7) | (c & 0x7F) as u32;
        if c & 0x80 == 0 {
            return Ok(size);
        }
    }
    Ok(size)
}

fn parse_esds(b: &[u8]) -> Result<Esds, PErr> {
    // b = FullBox body
    if b.len() < 4 {
        return perr("esds_truncated", "fullbox");
    }
    let mut o = 4usize;
    let mut e = Esds::default();
    if o >= b.len() || b[o] != 0x03 {
        return perr("esds_structure", "ES_Descriptor tag 0x03 expected");
    }
    o += 1;
    let es_len = parse_descr_len(b, &mut o)? as usize;
    let es_end = o + es_len;
    if es_end > b.len() || es_len < 3 {
        return perr("esds_structure", format!("ES_Descriptor length {es_len} does not fit"));
    }
    e.es_id = be16(b, o);
    let flags = b[o + 2];
    o += 3;
    if flags & 0x80 != 0 {
        o += 2;
    }
    if flags & 0x40 != 0 {
        if o >= es_end {
            return perr("esds_structure", "URL flag");
        }
        o += 1 + b[o] as usize;
    }
    if flags & 0x20 != 0 {
        o += 2;
    }
    let mut seen_dc = false;
    let mut seen_sl = false;
    while o < es_end {
        let tag = b[o];
        o += 1;
        let len = parse_descr_len(b, &mut o)? as usize;
        let end = o + len;
        if end > es_end {
            return perr("esds_structure", format!("descriptor {tag:#x} length {len} overruns ES_Descriptor"));
        }
        match tag {
            0x04 => {
                if len < 13 {
                    return perr("esds_structure", "DecoderConfigDescriptor shorter than 13");
                }
                seen_dc = true;
                e.object_type_indication = b[o];
                e.stream_type = b[o + 1] >> 2;
                e.buffer_size_db = ((b[o + 2] as u32) << 16) | ((b[o + 3] as u32) << 8) | b[o + 4] as u32;
                e.max_bitrate = be32(b, o + 5);
                e.avg_bitrate = be32(b, o + 9);
                let mut p = o + 13;
                while p < end {
                    let t2 = b[p];
                    p += 1;
                    let l2 = parse_descr_len(b, &mut p)? as usize;
                    if p + l2 > end {
                        return perr("esds_structure", "DecoderSpecificInfo overruns DecoderConfigDescriptor");
                    }
                    if t2 == 0x05 {
                        let asc = &b[p..p + l2];
                        e.asc_bytes = asc.to_vec();
                        // AudioSpecificConfig bit reader
                        let mut bits = BitR { b: asc, pos: 0 };
                        let mut aot = bits.get(5)? as u8;
                        if aot == 31 {
                            aot = 32 + bits.get(6)? as u8;
                        }
                        let fi = bits.get(4)? as u8;
                        if fi == 15 {
                            bits.get(24)?;
                        }
                        let cc = bits.get(4)? as u8;
                        e.audio_object_type = aot;
                        e.freq_index = fi;
                        e.chan_conf = cc;
                    }
                    p += l2;
                }
            }
            0x06 => {
                seen_sl = true;
            }
            _ => {}
        }
        o = end;
    }
    if !seen_dc {
        return perr("esds_structure", "no DecoderConfigDescriptor");
    }
    if !seen_sl {
        return perr("esds_structure", "no SLConfigDescriptor");
    }
    if es_end != b.len() {
        return perr("esds_structure", format!("ES_Descriptor ends at {es_end}, box body is {}", b.len()));
    }
    Ok(e)
}

struct BitR<'a> {
    b: &'a [u8],
    pos: usize,
}
impl<'a> BitR<'a> {
    fn get(&mut self, n: usize) -> Result<u32, PErr> {
        let mut v = 0u32;
        for _ in 0..n {
            let byte = self.pos / 8;
            if byte >= self.b.len() {
                return perr("asc_truncated", "AudioSpecificConfig too short");
            }
            let bit = (self.b[byte] >> (7 - self.pos % 8)) & 1;
            v = (v << 1) | bit as u32;
            self.pos += 1;
        }
        Ok(v)
    }
}

fn parse_avcc(b: &[u8]) -> Result<AvcC, PErr> {
    if b.len() < 7 {
        return perr("avcc_truncated", "fixed part");
    }
    let mut a = AvcC {
        version: b[0],
        profile: b[1],
        compat: b[2],
        level: b[3],
        length_size_minus_one: b[4] & 3,
        ..Default::default()
    };
    let mut o = 5;
    let nsps = b[o] & 0x1F;
    o += 1;
    for _ in 0..nsps {
        if o + 2 > b.len() {
            return perr("avcc_truncated", "sps length");
        }
        let l = be16(b, o) as usize;
        o += 2;
        if o + l > b.len() {
            return perr("avcc_truncated", "sps data");
        }
        a.sps.push(b[o..o + l].to_vec());
        o += l;
    }
    if o >= b.len() {
        return perr("avcc_truncated", "pps count");
    }
    let npps = b[o];
    o += 1;
    for _ in 0..npps {
        if o + 2 > b.len() {
            return perr("avcc_truncated", "pps length");
        }
        let l = be16(b, o) as usize;
        o += 2;
        if o + l > b.len() {
            return perr("avcc_truncated", "pps data");
        }
        a.pps.push(b[o..o + l].to_vec());
        o += l;
    }
    // High profiles may carry an extension; anything else left over is garbage.
    if o != b.len() && !matches!(a.profile, 100 | 110 | 122 | 144) {
        return perr("avcc_trailing_bytes", format!("{} bytes after the parameter sets", b.len() - o));
    }
    Ok(a)
}

fn parse_sample_entry(src: &dyn Src, e: &Bx) -> Result<SampleEntry, PErr> {
    let name = t4(&e.typ);
    let b = body(src, e, 8, &name)?;
    let dri = be16(&b, 6);
    let body_off = e.body();
    let mut se = SampleEntry {
        fourcc: e.typ,
        data_reference_index: dri,
        width: 0,
        height: 0,
        codec: Codec::Other,
    };
    match &e.typ {
        b"avc1" | b"hev1" | b"hvc1" | b"vp09" => {
            if b.len() < 78 {
                return perr("sample_entry_truncated", format!("visual entry '{name}' body {}", b.len()));
            }
            se.width = be16(&b, 24);
            se.height = be16(&b, 26);
            let kids = tile(src, body_off + 78, e.end())?;
            match &e.typ {
                b"avc1" => {
                    let c = one(&kids, b"avcC", "avc1")?;
                    se.codec = Codec::Avc(parse_avcc(&body(src, c, 7, "avcC")?)?);
                }
                b"hev1" | b"hvc1" => {
                    let c = one(&kids, b"hvcC", "hev1")?;
                    let hb = body(src, c, 23, "hvcC")?;
                    // walk the arrays so that the declared structure fits the box
                    let mut o = 23usize;
                    for _ in 0..hb[22] {
                        if o + 3 > hb.len() {
                            return perr("hvcc_truncated", "array header");
                        }
                        let n = be16(&hb, o + 1);
                        o += 3;
                        for _ in 0..n {
                            if o + 2 > hb.len() {
                                return perr("hvcc_truncated", "nalu length");
                            }
                            let l = be16(&hb, o) as usize;
                            o += 2 + l;
                            if o > hb.len() {
                                return perr("hvcc_truncated", "nalu data");
                            }
                        }
                    }
                    if o != hb.len() {
                        return perr("hvcc_trailing_bytes", format!("{} bytes", hb.len() - o));
                    }
                    se.codec = Codec::Hevc { config_version: hb[0], num_arrays: hb[22] };
                }
                _ => {
                    let c = one(&kids, b"vpcC", "vp09")?;
                    let vb = body(src, c, 12, "vpcC")?;
                    se.codec = Codec::Vp9 { profile: vb[4], level: vb[5], bit_depth: vb[6] >> 4 };
                }
            }
        }
        b"mp4a" => {
            if b.len() < 28 {
                return perr("sample_entry_truncated", format!("audio entry body {}", b.len()));
            }
            let channelcount = be16(&b, 16);
            let samplesize = be16(&b, 18);
            let samplerate = be32(&b, 24);
            let kids = tile(src, body_off + 28, e.end())?;
            let esds = match opt(&kids, b"esds", "mp4a")? {
                Some(c) => Some(parse_esds(&body(src, c, 4, "esds")?)?),
                None => None,
            };
            se.codec = Codec::Aac { channelcount, samplesize, samplerate_16_16: samplerate, esds };
        }
        b"tx3g" => {
            if b.len() < 38 {
                return perr("sample_entry_truncated", format!("tx3g body {}", b.len()));
            }
            tile(src, body_off + 38, e.end())?;
            se.codec = Codec::Tx3g;
        }
        _ => {}
    }
    Ok(se)
}

fn table<'a>(src: &dyn Src, b: &Bx, name: &'static str, fixed: usize, entry: usize, count_at: usize) -> Result<(Vec<u8>, u32), PErr> {
    let v = body(src, b, fixed, name)?;
    let n = be32(&v, count_at);
    let need = fixed as u64 + n as u64 * entry as u64;
    if need > v.len() as u64 {
        return perr("table_overruns_box", format!("'{name}' declares {n} entries ({need} bytes) in a body of {}", v.len()));
    }
    Ok((v, n))
}

fn parse_trak(src: &dyn Src, trak: &Bx) -> Result<ITrack, PErr> {
    let mut pos: Vec<(String, Bx)> = Vec::new();
    let kids = tile(src, trak.body(), trak.end())?;
    let tkhd = one(&kids, b"tkhd", "trak")?;
    let mdia = one(&kids, b"mdia", "trak")?;
    pos.push(("tkhd".into(), tkhd.clone()));
    let tb = body(src, tkhd, 4, "tkhd")?;
    let (tv, tflags) = fullbox(&tb);
    let (track_id, tkhd_duration, rest) = match tv {
        0 => {
            if tb.len() < 4 + 20 + 60 {
                return perr("leaf_too_small", "tkhd v0");
            }
            (be32(&tb, 12), be32(&tb, 20) as u64, 24)
        }
        1 => {
            if tb.len() < 4 + 32 + 60 {
                return perr("leaf_too_small", "tkhd v1");
            }
            (be32(&tb, 20), be64(&tb, 28), 36)
        }
        v => return perr("bad_version", format!("tkhd version {v}")),
    };
    // rest: reserved8 layer2 altgroup2 volume2 reserved2 matrix36 width4 height4
    let w = be32(&tb, rest + 8 + 8 + 36);
    let h = be32(&tb, rest + 8 + 8 + 36 + 4);

    let mk = tile(src, mdia.body(), mdia.end())?;
    let mdhd = one(&mk, b"mdhd", "mdia")?;
    let hdlr = one(&mk, b"hdlr", "mdia")?;
    let minf = one(&mk, b"minf", "mdia")?;
    pos.push(("mdhd".into(), mdhd.clone()));
    let mb = body(src, mdhd, 4, "mdhd")?;
    let (mv, _) = fullbox(&mb);
    let (timescale, mdhd_duration, lang_at) = match mv {
        0 => {
            if mb.len() < 24 {
                return perr("leaf_too_small", "mdhd v0");
            }
            (be32(&mb, 12), be32(&mb, 16) as u64, 20)
        }
        1 => {
            if mb.len() < 36 {
                return perr("leaf_too_small", "mdhd v1");
            }
            (be32(&mb, 20), be64(&mb, 24), 32)
        }
        v => return perr("bad_version", format!("mdhd version {v}")),
    };
    let language = be16(&mb, lang_at) & 0x7FFF;
    let hb = body(src, hdlr, 24, "hdlr")?;
    let mut handler = [0u8; 4];
    handler.copy_from_slice(&hb[8..12]);
    if !hb[24..].contains(&0) {
        return perr("hdlr_name_unterminated", "handler name has no terminator");
    }

    let ik = tile(src, minf.body(), minf.end())?;
    let has_vmhd = opt(&ik, b"vmhd", "minf")?.is_some();
    let has_smhd = opt(&ik, b"smhd", "minf")?.is_some();
    let dinf = one(&ik, b"dinf", "minf")?;
    let dk = tile(src, dinf.body(), dinf.end())?;
    let dref = one(&dk, b"dref", "dinf")?;
    let db = body(src, dref, 8, "dref")?;
    let dn = be32(&db, 4);
    let de = tile(src, dref.body() + 8, dref.end())?;
    if de.len() as u32 != dn {
        return perr("dref_count", format!("dref declares {dn} entries, holds {}", de.len()));
    }
    let stbl = one(&ik, b"stbl", "minf")?;
    let sk = tile(src, stbl.body(), stbl.end())?;
    let stsd = one(&sk, b"stsd", "stbl")?;
    let sb = src.read(stsd.body(), 8);
    if sb.len() < 8 {
        return perr("leaf_too_small", "stsd");
    }
    let entry_count = be32(&sb, 4);
    let entries = tile(src, stsd.body() + 8, stsd.end())?;
    if entries.len() as u32 != entry_count {
        return perr("stsd_count", format!("stsd declares {entry_count} entries, holds {}", entries.len()));
    }
    if entries.is_empty() {
        return perr("stsd_count", "stsd holds no sample entry");
    }
    let entry = parse_sample_entry(src, &entries[0])?;

    let stts_b = one(&sk, b"stts", "stbl")?;
    pos.push(("stts".into(), stts_b.clone()));
    let (v, n) = table(src, stts_b, "stts", 8, 8, 4)?;
    let stts = (0..n as usize).map(|i| (be32(&v, 8 + 8 * i), be32(&v, 12 + 8 * i))).collect();

    let ctts = match opt(&sk, b"ctts", "stbl")? {
        Some(b) => {
            pos.push(("ctts".into(), b.clone()));
            let (v, n) = table(src, b, "ctts", 8, 8, 4)?;
            let ver = v[0];
            Some((
                ver,
                (0..n as usize)
                    .map(|i| {
                        let raw = be32(&v, 12 + 8 * i);
                        // version 0: unsigned; version 1: signed. Writers commonly store signed
                        // values in version 0 too; keep the raw bits as a signed 32-bit value.
                        (be32(&v, 8 + 8 * i), raw as i32 as i64)
                    })
                    .collect(),
            ))
        }
        None => None,
    };
    let stss = match opt(&sk, b"stss", "stbl")? {
        Some(b) => {
            pos.push(("stss".into(), b.clone()));
            let (v, n) = table(src, b, "stss", 8, 4, 4)?;
            Some((0..n as usize).map(|i| be32(&v, 8 + 4 * i)).collect())
        }
        None => None,
    };
    let stsc_b = one(&sk, b"stsc", "stbl")?;
    pos.push(("stsc".into(), stsc_b.clone()));
    let (v, n) = table(src, stsc_b, "stsc", 8, 12, 4)?;
    let stsc = (0..n as usize)
        .map(|i| (be32(&v, 8 + 12 * i), be32(&v, 12 + 12 * i), be32(&v, 16 + 12 * i)))
        .collect();
    let stsz_b = one(&sk, b"stsz", "stbl")?;
    pos.push(("stsz".into(), stsz_b.clone()));
    let zb = body(src, stsz_b, 12, "stsz")?;
    let stsz_sample_size = be32(&zb, 4);
    let stsz_count = be32(&zb, 8);
    let mut stsz_sizes = Vec::new();
    if stsz_sample_size == 0 {
        if 12 + 4 * stsz_count as u64 > zb.len() as u64 {
            return perr("table_overruns_box", format!("'stsz' declares {stsz_count} sizes in a body of {}", zb.len()));
        }
        stsz_sizes = (0..stsz_count as usize).map(|i| be32(&zb, 12 + 4 * i)).collect();
    }
    let stco = opt(&sk, b"stco", "stbl")?;
    let co64 = opt(&sk, b"co64", "stbl")?;
    let (chunk_offsets, is_co64) = match (stco, co64) {
        (Some(b), None) => {
            pos.push(("stco".into(), b.clone()));
            let (v, n) = table(src, b, "stco", 8, 4, 4)?;
            ((0..n as usize).map(|i| be32(&v, 8 + 4 * i) as u64).collect::<Vec<_>>(), false)
        }
        (None, Some(b)) => {
            pos.push(("co64".into(), b.clone()));
            let (v, n) = table(src, b, "co64", 8, 8, 4)?;
            ((0..n as usize).map(|i| be64(&v, 8 + 8 * i)).collect::<Vec<_>>(), true)
        }
        (Some(_), Some(_)) => return perr("duplicate_box", "both stco and co64 in stbl"),
        (None, None) => return perr("missing_box", "neither stco nor co64 in stbl"),
    };
    Ok(ITrack {
        tkhd_version: tv,
        tkhd_flags: tflags,
        track_id,
        tkhd_duration,
        tkhd_width_16_16: w,
        tkhd_height_16_16: h,
        mdhd_version: mv,
        timescale,
        mdhd_duration,
        language,
        handler,
        has_vmhd,
        has_smhd,
        entry_count,
        entry,
        stts,
        ctts,
        stss,
        stsc,
        stsz_sample_size,
        stsz_count,
        stsz_sizes,
        chunk_offsets,
        is_co64,
        pos,
    })
}

/// Parse a complete (non-fragmented) file occupying `[start, end)` of `src`.
pub fn parse(src: &dyn Src, start: u64, end: u64) -> Result<IMovie, PErr> {
    let top = tile(src, start, end)?;
    if top.is_empty() {
        return perr("missing_box", "empty file");
    }
    if !top[0].is(b"ftyp") {
        return perr("ftyp_not_first", format!("first box is '{}'", t4(&top[0].typ)));
    }
    let ftyp = one(&top, b"ftyp", "file")?;
    let moov = one(&top, b"moov", "file")?.clone();
    let fb = body(src, ftyp, 8, "ftyp")?;
    if (fb.len() - 8) % 4 != 0 {
        return perr("ftyp_brands", "compatible brand list is not a multiple of 4 bytes");
    }
    let mut major = [0u8; 4];
    major.copy_from_slice(&fb[0..4]);
    let minor = be32(&fb, 4);
    let compat = fb[8..]
        .chunks(4)
        .map(|c| {
            let mut x = [0u8; 4];
            x.copy_from_slice(c);
            x
        })
        .collect();
    let mut mdat = Vec::new();
    let mut mdat_large = Vec::new();
    for b in top.iter() {
        if b.is(b"mdat") {
            mdat.push((b.body(), b.end()));
            mdat_large.push(b.large);
        }
    }
    let kids = tile(src, moov.body(), moov.end())?;
    let mvhd = one(&kids, b"mvhd", "moov")?;
    let mb = body(src, mvhd, 4, "mvhd")?;
    let (mv, _) = fullbox(&mb);
    let (timescale, duration, rest) = match mv {
        0 => {
            if mb.len() < 4 + 16 + 80 {
                return perr("leaf_too_small", "mvhd v0");
            }
            (be32(&mb, 12), be32(&mb, 16) as u64, 20)
        }
        1 => {
            if mb.len() < 4 + 28 + 80 {
                return perr("leaf_too_small", "mvhd v1");
            }
            (be32(&mb, 20), be64(&mb, 24), 32)
        }
        v => return perr("bad_version", format!("mvhd version {v}")),
    };
    let next_track_id = be32(&mb, rest + 76);
    let mut tracks = Vec::new();
    for k in kids.iter().filter(|b| b.is(b"trak")) {
        tracks.push(parse_trak(src, k)?);
    }
    Ok(IMovie {
        top,
        major,
        minor,
        compat,
        mvhd_version: mv,
        timescale,
        duration,
        next_track_id,
        tracks,
        mdat,
        mdat_large,
        moov,
    })
}

#[derive(Clone, Debug)]
pub struct Chunk {
    pub offset: u64,
    pub first_sample: u32, // 1-based
    pub nsamples: u32,
    pub bytes: u64,
}

impl ITrack {
    pub fn size_of(&self, k: u32) -> Option<u32> {
        if self.stsz_sample_size != 0 {
            if k >= 1 && k <= self.stsz_count {
                Some(self.stsz_sample_size)
            } else {
                None
            }
        } else {
            self.stsz_sizes.get(k as usize - 1).copied()
        }
    }

    /// Expand stsc over the chunk offset table (14496-12 8.7.4).
    pub fn chunks(&self) -> Result<Vec<Chunk>, PErr> {
        let nchunks = self.chunk_offsets.len() as u32;
        let mut out = Vec::with_capacity(nchunks as usize);
        if self.stsc.is_empty() {
            if nchunks != 0 {
                return perr("stsc_shape", format!("{nchunks} chunks but empty stsc"));
            }
            return Ok(out);
        }
        if self.stsc[0].0 != 1 {
            return perr("stsc_shape", format!("first stsc entry starts at chunk {}", self.stsc[0].0));
        }
        let mut sample: u64 = 1;
        for (i, (first, spc, sdi)) in self.stsc.iter().enumerate() {
            if *spc == 0 {
                return perr("stsc_shape", format!("entry {i} has samples_per_chunk 0"));
            }
            if *sdi != 1 {
                return perr("stsc_shape", format!("entry {i} has sample_description_index {sdi}"));
            }
            let next = if i + 1 < self.stsc.len() {
                let nf = self.stsc[i + 1].0;
                if nf <= *first {
                    return perr("stsc_shape", format!("first_chunk not increasing at entry {}", i + 1));
                }
                nf
            } else {
                nchunks + 1
            };
            if next > nchunks + 1 || *first > nchunks {
                return perr("stsc_shape", format!("entry {i} refers to chunk {first}..{next} of {nchunks}"));
            }
            for c in *first..next {
                let mut bytes = 0u64;
                for k in 0..*spc {
                    let id = sample + k as u64;
                    if id > u32::MAX as u64 {
                        return perr("stsc_shape", "sample number overflow");
                    }
                    match self.size_of(id as u32) {
                        Some(s) => bytes += s as u64,
                        None => {
                            return perr(
                                "table_totals",
                                format!("stsc covers sample {id} but stsz holds {}", self.stsz_count),
                            )
                        }
                    }
                }
                out.push(Chunk {
                    offset: self.chunk_offsets[c as usize - 1],
                    first_sample: sample as u32,
                    nsamples: *spc,
                    bytes,
                });
                sample += *spc as u64;
            }
        }
        Ok(out)
    }
}
