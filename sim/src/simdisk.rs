//! Storage seam. `SimDisk` is a sparse byte store (so that a 4 GiB movie costs a few KB),
//! `Sim` is the simulator state shared by all handles of one run (disk, global stream-call
//! counter = simulated time, fault plan, event-log digest, per-API-call budgets), and `SimFile`
//! is a handle implementing `Read + Write + Seek` with `std::fs::File` / `Cursor` semantics.

use crate::prng::{mix, Rng};
use serde::{Deserialize, Serialize};
use std::cell::RefCell;
use std::collections::BTreeMap;
use std::io::{self, ErrorKind, Read, Seek, SeekFrom, Write};
use std::rc::Rc;

#[derive(Clone, Debug)]
pub enum Extent {
    Raw(Vec<u8>),
    Fill(u8, u64),
}

impl Extent {
    fn len(&self) -> u64 {
        match self {
            Extent::Raw(v) => v.len() as u64,
            Extent::Fill(_, n) => *n,
        }
    }
    fn slice(&self, a: u64, b: u64) -> Extent {
        match self {
            Extent::Raw(v) => Extent::Raw(v[a as usize..b as usize].to_vec()),
            Extent::Fill(x, _) => Extent::Fill(*x, b - a),
        }
    }
}

const MERGE_LIMIT: usize = 4 << 20;
const FILL_MIN: usize = 4096;

#[derive(Clone, Debug, Default)]
pub struct SimDisk {
    ext: BTreeMap<u64, Extent>,
    len: u64,
    /// logical truncation: when set, the disk behaves as if it ended here (torn tail) without
    /// copying the image; writes are not allowed while a cap is in place
    cap: Option<u64>,
}

impl SimDisk {
    pub fn new() -> Self {
        Self::default()
    }

    pub fn from_bytes(v: Vec<u8>) -> Self {
        let mut d = Self::new();
        d.len = v.len() as u64;
        if !v.is_empty() {
            d.ext.insert(0, Extent::Raw(v));
        }
        d
    }

    pub fn len(&self) -> u64 {
        match self.cap {
            Some(c) => self.len.min(c),
            None => self.len,
        }
    }

    pub fn set_cap(&mut self, cap: Option<u64>) {
        self.cap = cap;
    }

    pub fn extent_count(&self) -> usize {
        self.ext.len()
    }

    /// Bytes actually held in memory (Raw extents only).
    pub fn resident_bytes(&self) -> u64 {
        self.ext
            .values()
            .map(|e| match e {
                Extent::Raw(v) => v.len() as u64,
                Extent::Fill(..) => 0,
            })
            .sum()
    }

    /// Remove everything stored in `[a, b)`, splitting extents that straddle the borders.
    fn carve(&mut self, a: u64, b: u64) {
        if a >= b {
            return;
        }
        let mut keys: Vec<u64> = Vec::new();
        if let Some((k, e)) = self.ext.range(..a).next_back() {
            if *k + e.len() > a {
                keys.push(*k);
            }
        }
        for (k, _) in self.ext.range(a..b) {
            keys.push(*k);
        }
        for k in keys {
            let e = self.ext.remove(&k).unwrap();
            let end = k + e.len();
            if k < a {
                self.ext.insert(k, e.slice(0, a - k));
            }
            if end > b {
                self.ext.insert(b, e.slice(b - k, end - k));
            }
        }
    }

    pub fn write_at(&mut self, off: u64, data: &[u8]) {
        if data.is_empty() {
            return;
        }
        assert!(self.cap.is_none(), "write to a capped (read-only) simulated disk");
        let end = off + data.len() as u64;
        // Fast paths: overwrite inside, or append to, the Raw extent that covers / precedes `off`.
        if let Some((k, e)) = self.ext.range_mut(..=off).next_back() {
            if let Extent::Raw(v) = e {
                let k = *k;
                let eend = k + v.len() as u64;
                if end <= eend {
                    let s = (off - k) as usize;
                    v[s..s + data.len()].copy_from_slice(data);
                    return;
                }
                if off == eend && v.len() + data.len() <= MERGE_LIMIT && !uniform_big(data) {
                    // append, provided nothing is stored in [off, end)
                    let clear = self.ext.range(off..end).next().is_none();
                    if clear {
                        if let Some(Extent::Raw(v)) = self.ext.get_mut(&k) {
                            v.extend_from_slice(data);
                        }
                        if end > self.len {
                            self.len = end;
                        }
                        return;
                    }
                }
            }
        }
        self.carve(off, end);
        if uniform_big(data) {
            self.ext.insert(off, Extent::Fill(data[0], data.len() as u64));
        } else {
            self.ext.insert(off, Extent::Raw(data.to_vec()));
        }
        if end > self.len {
            self.len = end;
        }
    }

    pub fn write_fill(&mut self, off: u64, byte: u8, n: u64) {
        if n == 0 {
            return;
        }
        self.carve(off, off + n);
        self.ext.insert(off, Extent::Fill(byte, n));
        if off + n > self.len {
            self.len = off + n;
        }
    }

    /// Copy up to `buf.len()` bytes stored at `off`; returns how many exist (holes read as 0).
    pub fn read_at(&self, off: u64, buf: &mut [u8]) -> usize {
        let len = self.len();
        if off >= len || buf.is_empty() {
            return 0;
        }
        let n = std::cmp::min(buf.len() as u64, len - off) as usize;
        let end = off + n as u64;
        let mut zeroed = false;
        // Common case: one Raw extent covers everything.
        if let Some((k, Extent::Raw(v))) = self.ext.range(..=off).next_back() {
            if *k + v.len() as u64 >= end {
                let s = (off - *k) as usize;
                buf[..n].copy_from_slice(&v[s..s + n]);
                return n;
            }
        }
        let first = self.ext.range(..=off).next_back().map(|(k, _)| *k).unwrap_or(off);
        for (k, e) in self.ext.range(first..end) {
            let es = *k;
            let ee = es + e.len();
            if ee <= off {
                continue;
            }
            if !zeroed {
                for b in buf[..n].iter_mut() {
                    *b = 0;
                }
                zeroed = true;
            }
            let a = std::cmp::max(es, off);
            let b = std::cmp::min(ee, end);
            let dst = &mut buf[(a - off) as usize..(b - off) as usize];
            match e {
                Extent::Raw(v) => dst.copy_from_slice(&v[(a - es) as usize..(b - es) as usize]),
                Extent::Fill(x, _) => {
                    for d in dst.iter_mut() {
                        *d = *x;
                    }
                }
            }
        }
        if !zeroed {
            for b in buf[..n].iter_mut() {
                *b = 0;
            }
        }
        n
    }

    pub fn truncate(&mut self, new_len: u64) {
        if new_len < self.len {
            self.carve(new_len, self.len);
            self.len = new_len;
        } else {
            self.len = new_len;
        }
    }

    pub fn byte(&self, off: u64) -> Option<u8> {
        let mut b = [0u8; 1];
        if self.read_at(off, &mut b) == 1 {
            Some(b[0])
        } else {
            None
        }
    }

    pub fn read_vec(&self, off: u64, n: usize) -> Vec<u8> {
        let mut v = vec![0u8; n];
        let got = self.read_at(off, &mut v);
        v.truncate(got);
        v
    }

    /// Whole image as a vector. Panics (harness bug) if the image is not small.
    pub fn to_vec(&self) -> Vec<u8> {
        assert!(self.len <= 1 << 30, "to_vec on a huge sparse image");
        self.read_vec(0, self.len as usize)
    }

    /// Content digest that does not materialise Fill extents and does not depend on how the
    /// logical byte string happens to be split into extents.
    pub fn digest(&self) -> u64 {
        let mut sh = StreamHash::new();
        let mut pos = 0u64;
        for (k, e) in self.ext.iter() {
            if *k > pos {
                sh.feed_run(0, *k - pos);
            }
            match e {
                Extent::Fill(b, n) => sh.feed_run(*b, *n),
                Extent::Raw(v) => sh.feed_bytes(v),
            }
            pos = *k + e.len();
        }
        if self.len > pos {
            sh.feed_run(0, self.len - pos);
        }
        sh.finish(self.len)
    }

    /// Logical equality of two images (used for determinism and "no trace" comparisons).
    pub fn same_content(&self, other: &SimDisk) -> bool {
        if self.len != other.len {
            return false;
        }
        if self.len <= 64 << 20 {
            // compare in 1 MiB windows
            let mut off = 0u64;
            let mut a = vec![0u8; 1 << 20];
            let mut b = vec![0u8; 1 << 20];
            while off < self.len {
                let n = self.read_at(off, &mut a);
                let m = other.read_at(off, &mut b);
                if n != m || a[..n] != b[..m] {
                    return false;
                }
                off += n as u64;
            }
            true
        } else {
            // Large sparse images: compare extent boundaries' union piecewise.
            let mut cuts: Vec<u64> = vec![0, self.len];
            for d in [self, other] {
                for (k, e) in d.ext.iter() {
                    cuts.push(*k);
                    cuts.push(*k + e.len());
                }
            }
            cuts.sort_unstable();
            cuts.dedup();
            for w in cuts.windows(2) {
                let (a, b) = (w[0], w[1]);
                if b > self.len {
                    break;
                }
                let pa = self.piece(a, b);
                let pb = other.piece(a, b);
                let same = match (&pa, &pb) {
                    (Extent::Fill(x, _), Extent::Fill(y, _)) => x == y,
                    _ => {
                        let va = self.read_vec(a, (b - a) as usize);
                        let vb = other.read_vec(a, (b - a) as usize);
                        va == vb
                    }
                };
                if !same {
                    return false;
                }
            }
            true
        }
    }

    /// Describe `[a,b)`, which must not straddle an extent boundary.
    fn piece(&self, a: u64, b: u64) -> Extent {
        if let Some((k, e)) = self.ext.range(..=a).next_back() {
            if *k + e.len() >= b {
                return e.slice(a - *k, b - *k);
            }
        }
        Extent::Fill(0, b - a)
    }
}

/// Streaming hash over a logical byte string given as byte slices and (byte, length) runs.
/// Canonical: the result depends only on the byte string, not on how it was cut up. The
/// string is consumed as 8-byte words; words made of one repeated byte are run-length coded.
struct StreamHash {
    h: u64,
    buf: [u8; 8],
    fill: usize,
    run_byte: u8,
    run_words: u64,
}

impl StreamHash {
    fn new() -> Self {
        StreamHash { h: 0x5157_4449_534b, buf: [0; 8], fill: 0, run_byte: 0, run_words: 0 }
    }
    #[inline]
    fn flush_run(&mut self) {
        if self.run_words > 0 {
            self.h = mix(self.h, 0xF111_0000_0000_0000 | self.run_byte as u64);
            self.h = mix(self.h, self.run_words);
            self.run_words = 0;
        }
    }
    #[inline]
    fn word(&mut self, w: [u8; 8]) {
        let b = w[0];
        if w.iter().all(|x| *x == b) {
            if self.run_words > 0 && self.run_byte != b {
                self.flush_run();
            }
            self.run_byte = b;
            self.run_words += 1;
        } else {
            self.flush_run();
            self.h = mix(self.h, u64::from_le_bytes(w));
        }
    }
    #[inline]
    fn byte(&mut self, b: u8) {
        self.buf[self.fill] = b;
        self.fill += 1;
        if self.fill == 8 {
            self.fill = 0;
            let w = self.buf;
            self.word(w);
        }
    }
    fn feed_bytes(&mut self, mut v: &[u8]) {
        while self.fill != 0 && !v.is_empty() {
            self.byte(v[0]);
            v = &v[1..];
        }
        let mut it = v.chunks_exact(8);
        for c in &mut it {
            let mut w = [0u8; 8];
            w.copy_from_slice(c);
            self.word(w);
        }
        for b in it.remainder() {
            self.byte(*b);
        }
    }
    fn feed_run(&mut self, b: u8, mut n: u64) {
        while self.fill != 0 && n > 0 {
            self.byte(b);
            n -= 1;
        }
        let k = n / 8;
        if k > 0 {
            if self.run_words > 0 && self.run_byte != b {
                self.flush_run();
            }
            self.run_byte = b;
            self.run_words += k;
        }
        for _ in 0..(n % 8) {
            self.byte(b);
        }
    }
    fn finish(mut self, len: u64) -> u64 {
        self.flush_run();
        if self.fill > 0 {
            let mut w = [0u8; 8];
            w[..self.fill].copy_from_slice(&self.buf[..self.fill]);
            self.h = mix(self.h, u64::from_le_bytes(w));
            self.h = mix(self.h, self.fill as u64);
        }
        mix(self.h, len)
    }
}

fn uniform_big(data: &[u8]) -> bool {
    data.len() >= FILL_MIN && {
        let b = data[0];
        data.iter().all(|x| *x == b)
    }
}

// -------------------------------------------------------------------------------------------
// Faults and the per-run simulator state
// -------------------------------------------------------------------------------------------

#[derive(Clone, Copy, Debug, PartialEq, Eq, Hash, Serialize, Deserialize, PartialOrd, Ord)]
pub enum OpKind {
    Read,
    Write,
    Seek,
    Flush,
}

#[derive(Clone, Copy, Debug, PartialEq, Eq, Hash, Serialize, Deserialize, PartialOrd, Ord)]
pub enum ErrK {
    Other,
    BrokenPipe,
    PermissionDenied,
    StorageFull,
    TimedOut,
    InvalidInput,
    /// a *non-retryable* kind std's helpers must not swallow
    WouldBlock,
}

impl ErrK {
    pub const ALL: [ErrK; 7] = [
        ErrK::Other,
        ErrK::BrokenPipe,
        ErrK::PermissionDenied,
        ErrK::StorageFull,
        ErrK::TimedOut,
        ErrK::InvalidInput,
        ErrK::WouldBlock,
    ];
    pub fn kind(self) -> ErrorKind {
        match self {
            ErrK::Other => ErrorKind::Other,
            ErrK::BrokenPipe => ErrorKind::BrokenPipe,
            ErrK::PermissionDenied => ErrorKind::PermissionDenied,
            ErrK::StorageFull => ErrorKind::StorageFull,
            ErrK::TimedOut => ErrorKind::TimedOut,
            ErrK::InvalidInput => ErrorKind::InvalidInput,
            ErrK::WouldBlock => ErrorKind::WouldBlock,
        }
    }
}

#[derive(Clone, Copy, Debug, PartialEq, Eq, Hash, Serialize, Deserialize, PartialOrd, Ord)]
pub enum Fault {
    /// the call fails with this kind and the marker message, nothing is transferred
    Err(ErrK),
    /// `read`/`write` report 0 bytes: std turns that into UnexpectedEof / WriteZero
    Zero,
    /// transfer only `m` bytes (1 <= m < requested) — legal, must be transparent
    Short(u64),
    /// ErrorKind::Interrupted, nothing transferred — legal, must be transparent (read/write)
    Interrupted,
}

impl Fault {
    pub fn is_hard(self) -> bool {
        matches!(self, Fault::Err(_) | Fault::Zero)
    }
    pub fn name(self) -> &'static str {
        match self {
            Fault::Err(ErrK::Other) => "err_other",
            Fault::Err(ErrK::BrokenPipe) => "err_broken_pipe",
            Fault::Err(ErrK::PermissionDenied) => "err_permission_denied",
            Fault::Err(ErrK::StorageFull) => "err_storage_full",
            Fault::Err(ErrK::TimedOut) => "err_timed_out",
            Fault::Err(ErrK::InvalidInput) => "err_invalid_input",
            Fault::Err(ErrK::WouldBlock) => "err_would_block",
            Fault::Zero => "zero_transfer",
            Fault::Short(_) => "short_transfer",
            Fault::Interrupted => "interrupted",
        }
    }
}

pub const FAULT_MARKER: &str = "simfault";
pub const BUDGET_MARKER: &str = "simbudget";

#[derive(Clone, Copy, Debug, PartialEq, Eq, Serialize, Deserialize)]
pub enum Chunking {
    /// every read/write transfers everything asked for (stream calls == library calls)
    Full,
    /// at most n bytes per call
    Max(u32),
    /// per-call limit drawn from an own PRNG stream: 1..=16 bytes mostly, sometimes all
    Random(u64),
}

#[derive(Clone, Debug)]
pub struct Event {
    pub seq: u64,
    pub api: u32,
    pub kind: OpKind,
    pub pos: u64,
    pub len: u64,
    /// 0 ok, 1 injected hard fault, 2 natural error, 3 transparent fault, 4 budget
    pub outcome: u8,
    pub moved: u64,
}

#[derive(Clone, Debug, Default)]
pub struct Fired {
    pub hard_err: u64,
    pub zero: u64,
    pub short: u64,
    pub interrupted: u64,
    pub chunked_calls: u64,
    pub budget: u64,
    pub repositioned: u64,
}

pub struct Sim {
    pub disk: SimDisk,
    /// global stream-call counter: the simulated clock
    pub seq: u64,
    /// index of the API call in progress (set by the harness)
    pub api: u32,
    /// planned faults: (stream-call seq, fault); consumed when fired
    pub plan: Vec<(u64, Fault)>,
    /// a fault aimed at the `nth` stream call (0-based) of API call `api`, lasting `len`
    /// consecutive stream calls (an outage may span into the next API call)
    pub plan_api: Option<(u32, u64, Fault, u8)>,
    pub chunking: Chunking,
    chunk_rng: Rng,
    /// probability (per million read/write calls) of a transparent Interrupted
    pub intr_ppm: u32,
    pub digest: u64,
    pub record: Option<Vec<Event>>,
    pub fired: Fired,
    /// per-API-call work counters (reset by `begin_api`)
    pub ops_in_call: u64,
    pub bytes_in_call: u64,
    pub max_ops_in_call: u64,
    pub max_bytes_in_call: u64,
    /// budgets; 0 = unlimited
    pub budget_ops: u64,
    pub budget_bytes: u64,
    pub budget_tripped: bool,
    /// seq at which the last hard fault fired (None if none yet)
    pub last_hard: Option<(u64, Fault, OpKind)>,
    pub total_ops: u64,
    pub total_bytes: u64,
    /// "the storage dies": every stream call with seq >= this fails (crash of the medium)
    pub dead_from: Option<u64>,
    /// "somebody else moved the shared file offset": before API call `.0` the stream's
    /// position becomes `.1` (a second handle on the same open file was used in between)
    pub reposition: Option<(u32, u64)>,
    pos_override: Option<u64>,
    /// "the application writes the movie into two regions of one big file": at the listed API
    /// calls the shared offset alternates between the low region (where writing started) and a
    /// high region `gap` bytes beyond everything written so far. Nothing written is ever
    /// overwritten (`region_collision` records the exception), so the finished file is intact.
    pub regions: Option<RegionPlan>,
    region_target_high: Option<bool>,
    in_high: bool,
    low_cursor: u64,
    high_cursor: Option<u64>,
    high_start: u64,
    pub region_moves: u64,
    pub region_collision: bool,
}

#[derive(Clone, Debug, PartialEq, Eq, serde::Serialize, serde::Deserialize)]
pub struct RegionPlan {
    /// API call indices at which the offset changes region
    pub toggles: Vec<u32>,
    pub gap: u64,
    /// API call (write_end) before which the offset must stand in the high region again
    pub final_api: u32,
}

pub type SimRef = Rc<RefCell<Sim>>;

impl Sim {
    pub fn new(disk: SimDisk) -> Self {
        Sim {
            disk,
            seq: 0,
            api: 0,
            plan: Vec::new(),
            plan_api: None,
            chunking: Chunking::Full,
            chunk_rng: Rng::new(0),
            intr_ppm: 0,
            digest: 0x6d70_3473_696d,
            record: None,
            fired: Fired::default(),
            ops_in_call: 0,
            bytes_in_call: 0,
            max_ops_in_call: 0,
            max_bytes_in_call: 0,
            budget_ops: 0,
            budget_bytes: 0,
            budget_tripped: false,
            last_hard: None,
            total_ops: 0,
            total_bytes: 0,
            dead_from: None,
            reposition: None,
            pos_override: None,
            regions: None,
            region_target_high: None,
            in_high: false,
            low_cursor: 0,
            high_cursor: None,
            high_start: u64::MAX,
            region_moves: 0,
            region_collision: false,
        }
    }

    pub fn shared(disk: SimDisk) -> SimRef {
        Rc::new(RefCell::new(Sim::new(disk)))
    }

    pub fn set_chunking(&mut self, c: Chunking) {
        self.chunking = c;
        if let Chunking::Random(s) = c {
            self.chunk_rng = Rng::new(s);
        }
    }

    pub fn set_transparent(&mut self, c: Chunking, intr_ppm: u32, seed: u64) {
        self.chunking = c;
        self.intr_ppm = intr_ppm;
        self.chunk_rng = Rng::new(match c {
            Chunking::Random(s) => s,
            _ => seed,
        });
    }

    pub fn begin_api(&mut self, api: u32) {
        self.api = api;
        self.ops_in_call = 0;
        self.bytes_in_call = 0;
        if let Some((a, p)) = self.reposition {
            if a == api {
                self.pos_override = Some(p);
                self.reposition = None;
            }
        }
        if let Some(plan) = &self.regions {
            let now_high = self.region_target_high.unwrap_or(self.in_high);
            let mut want = now_high;
            if plan.toggles.contains(&api) {
                want = !want;
            }
            if api == plan.final_api && (self.high_start != u64::MAX || want || self.region_target_high == Some(true)) {
                want = true;
            }
            self.region_target_high = if want != self.in_high { Some(want) } else { None };
        }
    }

    /// No further moves of the offset (called before the read-back).
    pub fn clear_moves(&mut self) {
        self.reposition = None;
        self.pos_override = None;
        self.regions = None;
        self.region_target_high = None;
    }

    /// Applied at the start of every stream call of a handle: where the handle stands now.
    fn moved_position(&mut self, cur: u64) -> Option<u64> {
        if let Some(p) = self.pos_override.take() {
            self.fired.repositioned += 1;
            return Some(p);
        }
        let want = self.region_target_high.take()?;
        if want == self.in_high {
            return None;
        }
        self.region_moves += 1;
        self.in_high = want;
        if want {
            self.low_cursor = cur;
            let gap = self.regions.as_ref().map(|p| p.gap).unwrap_or(0);
            let p = match self.high_cursor {
                Some(h) => h,
                None => {
                    let h = self.disk.len().max(cur).saturating_add(gap);
                    self.high_start = h;
                    h
                }
            };
            Some(p)
        } else {
            self.high_cursor = Some(cur);
            Some(self.low_cursor)
        }
    }

    fn take_fault(&mut self, seq: u64) -> Option<Fault> {
        if let Some((api, nth, f, len)) = self.plan_api {
            if api == self.api && self.ops_in_call == nth + 1 {
                self.plan_api = None;
                for i in 1..len as u64 {
                    self.plan.push((seq + i, f));
                }
                return Some(f);
            }
        }
        if self.plan.is_empty() {
            return None;
        }
        if let Some(i) = self.plan.iter().position(|(s, _)| *s == seq) {
            Some(self.plan.swap_remove(i).1)
        } else {
            None
        }
    }

    fn log(&mut self, kind: OpKind, pos: u64, len: u64, outcome: u8, moved: u64) {
        let seq = self.seq;
        let mut h = mix(self.digest, seq);
        h = mix(h, ((self.api as u64) << 8) | kind as u64);
        h = mix(h, pos);
        h = mix(h, len);
        h = mix(h, ((outcome as u64) << 56) ^ moved);
        self.digest = h;
        if let Some(r) = self.record.as_mut() {
            r.push(Event {
                seq,
                api: self.api,
                kind,
                pos,
                len,
                outcome,
                moved,
            });
        }
    }

    /// Common prologue of every stream call: advances the clock, accounts work, consults the
    /// budget and the fault plan. Returns Err(..) if the call must fail right away.
    fn enter(&mut self, kind: OpKind, pos: u64, len: u64) -> Result<Option<Fault>, io::Error> {
        let seq = self.seq;
        self.ops_in_call += 1;
        self.total_ops += 1;
        if self.ops_in_call > self.max_ops_in_call {
            self.max_ops_in_call = self.ops_in_call;
        }
        if (self.budget_ops > 0 && self.ops_in_call > self.budget_ops)
            || (self.budget_bytes > 0 && self.bytes_in_call > self.budget_bytes)
        {
            self.budget_tripped = true;
            self.fired.budget += 1;
            self.log(kind, pos, len, 4, 0);
            self.seq += 1;
            return Err(io::Error::new(ErrorKind::Other, BUDGET_MARKER));
        }
        if let Some(d) = self.dead_from {
            if seq >= d {
                self.fired.hard_err += 1;
                if self.last_hard.is_none() {
                    self.last_hard = Some((seq, Fault::Err(ErrK::Other), kind));
                }
                self.log(kind, pos, len, 1, 0);
                self.seq += 1;
                return Err(io::Error::new(ErrorKind::Other, FAULT_MARKER));
            }
        }
        let f = self.take_fault(seq);
        match f {
            Some(Fault::Err(k)) => {
                self.fired.hard_err += 1;
                self.last_hard = Some((seq, Fault::Err(k), kind));
                self.log(kind, pos, len, 1, 0);
                self.seq += 1;
                Err(io::Error::new(k.kind(), FAULT_MARKER))
            }
            Some(Fault::Interrupted) if kind == OpKind::Read || kind == OpKind::Write => {
                self.fired.interrupted += 1;
                self.log(kind, pos, len, 3, 0);
                self.seq += 1;
                Err(io::Error::new(ErrorKind::Interrupted, "siminterrupt"))
            }
            other => Ok(other),
        }
    }

    /// How many bytes this read/write call may move, given the request size.
    fn allowance(&mut self, want: usize, fault: Option<Fault>) -> usize {
        if want == 0 {
            return 0;
        }
        let mut n = want;
        match self.chunking {
            Chunking::Full => {}
            Chunking::Max(m) => n = n.min(m.max(1) as usize),
            Chunking::Random(_) => {
                let r = self.chunk_rng.below(8);
                let lim = match r {
                    0 => usize::MAX,
                    1 => 1,
                    2 => 2,
                    3 => 3,
                    4 => 7,
                    _ => 1 + self.chunk_rng.below(16) as usize,
                };
                n = n.min(lim);
            }
        }
        if n < want {
            self.fired.chunked_calls += 1;
        }
        if let Some(Fault::Short(m)) = fault {
            let m = (m as usize).clamp(1, want);
            if m < want {
                self.fired.short += 1;
            }
            n = n.min(m);
        }
        n
    }

    fn maybe_interrupt(&mut self, kind: OpKind, pos: u64, len: u64) -> Option<io::Error> {
        if self.intr_ppm > 0 && self.chunk_rng.below(1_000_000) < self.intr_ppm as u64 {
            self.fired.interrupted += 1;
            self.log(kind, pos, len, 3, 0);
            self.seq += 1;
            return Some(io::Error::new(ErrorKind::Interrupted, "siminterrupt"));
        }
        None
    }
}

pub struct SimFile {
    pub sim: SimRef,
    pub pos: u64,
}

impl SimFile {
    pub fn new(sim: &SimRef) -> Self {
        SimFile {
            sim: sim.clone(),
            pos: 0,
        }
    }
    pub fn at(sim: &SimRef, pos: u64) -> Self {
        SimFile {
            sim: sim.clone(),
            pos,
        }
    }
}

impl Read for SimFile {
    fn read(&mut self, buf: &mut [u8]) -> io::Result<usize> {
        let mut s = self.sim.borrow_mut();
        if let Some(p) = s.moved_position(self.pos) {
            self.pos = p;
        }
        let fault = s.enter(OpKind::Read, self.pos, buf.len() as u64)?;
        if let Some(e) = s.maybe_interrupt(OpKind::Read, self.pos, buf.len() as u64) {
            return Err(e);
        }
        if let Some(Fault::Zero) = fault {
            s.fired.zero += 1;
            let seq = s.seq;
            s.last_hard = Some((seq, Fault::Zero, OpKind::Read));
            s.log(OpKind::Read, self.pos, buf.len() as u64, 1, 0);
            s.seq += 1;
            return Ok(0);
        }
        let n = s.allowance(buf.len(), fault);
        let got = s.disk.read_at(self.pos, &mut buf[..n]);
        s.bytes_in_call += got as u64;
        s.total_bytes += got as u64;
        if s.bytes_in_call > s.max_bytes_in_call {
            s.max_bytes_in_call = s.bytes_in_call;
        }
        s.log(OpKind::Read, self.pos, buf.len() as u64, 0, got as u64);
        s.seq += 1;
        self.pos += got as u64;
        Ok(got)
    }
}

impl Write for SimFile {
    fn write(&mut self, buf: &[u8]) -> io::Result<usize> {
        let mut s = self.sim.borrow_mut();
        if let Some(p) = s.moved_position(self.pos) {
            self.pos = p;
        }
        let fault = s.enter(OpKind::Write, self.pos, buf.len() as u64)?;
        if let Some(e) = s.maybe_interrupt(OpKind::Write, self.pos, buf.len() as u64) {
            return Err(e);
        }
        if let Some(Fault::Zero) = fault {
            s.fired.zero += 1;
            let seq = s.seq;
            s.last_hard = Some((seq, Fault::Zero, OpKind::Write));
            s.log(OpKind::Write, self.pos, buf.len() as u64, 1, 0);
            s.seq += 1;
            return Ok(0);
        }
        let n = s.allowance(buf.len(), fault);
        if !s.in_high && s.high_cursor.is_some() && self.pos.saturating_add(n as u64) > s.high_start {
            s.region_collision = true;
        }
        s.disk.write_at(self.pos, &buf[..n]);
        s.bytes_in_call += n as u64;
        s.total_bytes += n as u64;
        if s.bytes_in_call > s.max_bytes_in_call {
            s.max_bytes_in_call = s.bytes_in_call;
        }
        s.log(OpKind::Write, self.pos, buf.len() as u64, 0, n as u64);
        s.seq += 1;
        self.pos += n as u64;
        Ok(n)
    }

    fn flush(&mut self) -> io::Result<()> {
        let mut s = self.sim.borrow_mut();
        if let Some(p) = s.moved_position(self.pos) {
            self.pos = p;
        }
        s.enter(OpKind::Flush, self.pos, 0)?;
        s.log(OpKind::Flush, self.pos, 0, 0, 0);
        s.seq += 1;
        Ok(())
    }
}

impl Seek for SimFile {
    fn seek(&mut self, to: SeekFrom) -> io::Result<u64> {
        let mut s = self.sim.borrow_mut();
        if let Some(p) = s.moved_position(self.pos) {
            self.pos = p;
        }
        let (tag, arg) = match to {
            SeekFrom::Start(n) => (0u64, n),
            SeekFrom::Current(n) => (1, n as u64),
            SeekFrom::End(n) => (2, n as u64),
        };
        s.enter(OpKind::Seek, self.pos, arg ^ (tag << 62))?;
        let target: Option<u64> = match to {
            SeekFrom::Start(n) => Some(n),
            SeekFrom::Current(d) => self.pos.checked_add_signed(d),
            SeekFrom::End(d) => s.disk.len().checked_add_signed(d),
        };
        match target {
            Some(p) => {
                s.log(OpKind::Seek, self.pos, arg ^ (tag << 62), 0, p);
                s.seq += 1;
                self.pos = p;
                Ok(p)
            }
            None => {
                s.log(OpKind::Seek, self.pos, arg ^ (tag << 62), 2, 0);
                s.seq += 1;
                Err(io::Error::new(
                    ErrorKind::InvalidInput,
                    "invalid seek to a negative or overflowing position",
                ))
            }
        }
    }
}

#[cfg(test)]
mod tests {
    use super::*;

    /// SimDisk against a flat Vec model under random writes/fills/truncates.
    #[test]
    fn disk_matches_flat_model() {
        for seed in 0..300u64 {
            let mut r = Rng::new(seed);
            let mut d = SimDisk::new();
            let mut m: Vec<u8> = Vec::new();
            for _ in 0..60 {
                match r.below(5) {
                    0 | 1 => {
                        let off = r.below(20_000);
                        let n = if r.chance(1, 4) { 4096 + r.below(9000) } else { r.below(300) } as usize;
                        let mut data = vec![0u8; n];
                        if r.chance(1, 3) {
                            let b = r.below(256) as u8;
                            data.iter_mut().for_each(|x| *x = b);
                        } else {
                            r.fill(&mut data);
                        }
                        d.write_at(off, &data);
                        if n > 0 {
                            if m.len() < off as usize + n {
                                m.resize(off as usize + n, 0);
                            }
                            m[off as usize..off as usize + n].copy_from_slice(&data);
                        }
                    }
                    2 => {
                        let off = r.below(20_000);
                        let n = r.below(10_000);
                        let b = r.below(256) as u8;
                        d.write_fill(off, b, n);
                        if n > 0 {
                            if m.len() < (off + n) as usize {
                                m.resize((off + n) as usize, 0);
                            }
                            m[off as usize..(off + n) as usize].iter_mut().for_each(|x| *x = b);
                        }
                    }
                    3 => {
                        let nl = r.below(25_000);
                        d.truncate(nl);
                        m.resize(nl as usize, 0);
                    }
                    _ => {
                        let off = r.below(26_000);
                        let n = r.below(9_000) as usize;
                        let got = d.read_vec(off, n);
                        let exp: Vec<u8> = if (off as usize) < m.len() {
                            m[off as usize..std::cmp::min(m.len(), off as usize + n)].to_vec()
                        } else {
                            vec![]
                        };
                        assert_eq!(got, exp, "seed {seed}");
                    }
                }
                assert_eq!(d.len(), m.len() as u64);
            }
            assert_eq!(d.to_vec(), m, "seed {seed}");
            let d2 = SimDisk::from_bytes(m.clone());
            assert!(d.same_content(&d2));
            assert_eq!(d.digest(), d2.digest(), "seed {seed}");
        }
    }
}
