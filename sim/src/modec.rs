//! Mode C: call-fault enumeration. For one scenario (a muxing history and/or a reader schedule
//! over an image) run it once cleanly, recording every stream call; then re-run it once per
//! (stream call index k, fault kind) with exactly that fault injected.

use crate::model::{Opened, Player, SampleOutcome};
use crate::mux::{run_mux, CallResult, ErrSummary};
use crate::panicx::guard;
use crate::prng::{mix, Rng};
use crate::scenario::*;
use crate::seeds::{build, SeedSpec};
use crate::simdisk::{Chunking, ErrK, Event, Fault, OpKind, Sim, SimDisk, SimFile, SimRef};
use crate::stats::{hash_str, Stats};
use crate::verdict::Violation;
use serde::{Deserialize, Serialize};

#[derive(Clone, Debug, PartialEq, Eq, Serialize, Deserialize)]
pub enum RCall {
    ReadSample { t: u32, k: u32 },
    SampleOffset { t: u32, k: u32 },
    SampleCount { t: u32 },
}

#[derive(Clone, Debug, Serialize, Deserialize)]
pub enum IoSrc {
    /// mux this history (faults are enumerated over the muxing too), then read its output
    Mux(MuxScenario),
    /// read this seed image
    Seed(SeedSpec),
}

#[derive(Clone, Debug, Serialize, Deserialize)]
pub struct IoCase {
    pub src: IoSrc,
    pub sched: Vec<RCall>,
    /// upper bound on enumerated call indices per phase (all when the phase is shorter)
    pub max_k: u64,
    pub pick_seed: u64,
}

pub fn hard_faults_for(kind: OpKind, k: u64) -> Vec<Fault> {
    let extra = ErrK::ALL[(k as usize) % ErrK::ALL.len()];
    let mut v = vec![Fault::Err(ErrK::Other)];
    if extra != ErrK::Other {
        v.push(Fault::Err(extra));
    }
    if kind == OpKind::Read || kind == OpKind::Write {
        v.push(Fault::Zero);
    }
    v
}

pub fn transparent_faults_for(kind: OpKind, len: u64) -> Vec<Fault> {
    let mut v = Vec::new();
    if kind == OpKind::Read || kind == OpKind::Write {
        v.push(Fault::Interrupted);
        if len > 1 {
            v.push(Fault::Short(1));
            if len > 2 {
                v.push(Fault::Short(len - 1));
            }
            if len > 4 {
                v.push(Fault::Short(len / 2));
            }
        }
    }
    v
}

fn api_name_mux(sc: &MuxScenario, api: u32) -> &'static str {
    if api == 0 {
        return "write_start";
    }
    match sc.ops.get(api as usize - 1) {
        Some(Op::AddTrack(_)) => "add_track",
        Some(Op::Write { .. }) => "write_sample",
        Some(Op::End) => "write_end",
        None => "?",
    }
}

fn opk(k: OpKind) -> &'static str {
    match k {
        OpKind::Read => "read",
        OpKind::Write => "write",
        OpKind::Seek => "seek",
        OpKind::Flush => "flush",
    }
}

/// Is `r` "an I/O error carrying the injected fault"?
fn is_injected_io_error(r: &ErrSummary, f: Fault, op: OpKind) -> bool {
    if r.variant != "IoError" {
        return false;
    }
    match f {
        Fault::Err(k) => r.has_fault_marker && r.io_kind == Some(k.kind()),
        Fault::Zero => match op {
            OpKind::Write => r.io_kind == Some(std::io::ErrorKind::WriteZero),
            _ => r.io_kind == Some(std::io::ErrorKind::UnexpectedEof),
        },
        _ => false,
    }
}

fn judge_hard(prop: &str, api: &'static str, op: OpKind, f: Fault, res: &CallResult, fired: bool, out: &mut Vec<Violation>) {
    if !fired {
        return;
    }
    let disc = format!("api={api} op={} fault={}", opk(op), f.name());
    match res {
        CallResult::Err(e) if is_injected_io_error(e, f, op) => {}
        CallResult::Err(e) => out.push(Violation::new(prop, "io_error_misreported", disc, format!("{api} returned {} instead of the injected I/O error", e.key()))),
        CallResult::Ok => out.push(Violation::new(prop, "io_error_swallowed", disc, format!("{api} returned Ok although its stream call failed"))),
        CallResult::Panic(p) => out.push(Violation::new(prop, "panic_on_io_error", format!("{disc} {}", p.discriminator()), format!("{} at {}", p.msg, p.location))),
        CallResult::NotRun => {}
    }
}

// ---------------------------------------------------------------------------------------------
// mux phase
// ---------------------------------------------------------------------------------------------

fn mux_with(sc: &MuxScenario, plan: &[(u64, Fault)], chunk: Chunking, intr: u32, record: bool, stop_after: Option<usize>) -> (SimRef, Vec<CallResult>) {
    let sim = Sim::shared(SimDisk::new());
    {
        let mut s = sim.borrow_mut();
        s.set_transparent(chunk, intr, sc.io.io_seed);
        s.plan = plan.to_vec();
        if record {
            s.record = Some(Vec::new());
        }
    }
    let skip: Option<Vec<bool>> = stop_after.map(|a| (0..sc.ops.len()).map(|i| i + 1 > a).collect());
    let run = run_mux(sc, &sim, skip.as_deref());
    (sim, run.results)
}

fn pick_ks(n: u64, max_k: u64, events: &[Event], r: &mut Rng) -> Vec<u64> {
    if n <= max_k {
        return (0..n).collect();
    }
    // first and last stream call of every API call, one of every (api, op kind), then seeded
    let mut set = std::collections::BTreeSet::new();
    let mut last_api = u32::MAX;
    for (i, e) in events.iter().enumerate() {
        if e.api != last_api {
            set.insert(i as u64);
            if i > 0 {
                set.insert(i as u64 - 1);
            }
            last_api = e.api;
        }
    }
    set.insert(n - 1);
    while (set.len() as u64) < max_k {
        set.insert(r.below(n));
    }
    set.into_iter().collect()
}

pub fn mux_phase(prop: &str, sc: &MuxScenario, max_k: u64, r: &mut Rng, st: &mut Stats, out: &mut Vec<Violation>) -> Option<Vec<u8>> {
    let (csim, cres) = mux_with(sc, &[], Chunking::Full, 0, true, None);
    let events = csim.borrow_mut().record.take().unwrap_or_default();
    let clean_codes: Vec<String> = cres.iter().map(|c| c.code()).collect();
    let clean_digest = csim.borrow().disk.digest();
    st.case_digest = mix(st.case_digest, csim.borrow().digest);
    if cres.iter().any(|c| matches!(c, CallResult::Panic(_))) {
        st.inc("clean_run_panicked");
        return None;
    }
    let n = events.len() as u64;
    st.add("stream_calls_enumerable", n);
    for k in pick_ks(n, max_k, &events, r) {
        let e = &events[k as usize];
        let api = api_name_mux(sc, e.api);
        for f in hard_faults_for(e.kind, k) {
            let (sim, res) = mux_with(sc, &[(k, f)], Chunking::Full, 0, false, Some(e.api as usize));
            let fired = sim.borrow().last_hard.is_some();
            st.inc("fault_runs");
            if fired {
                st.inc(&format!("fired.{}.{}.{}", f.name(), api, opk(e.kind)));
                st.distinct.insert(hash_str(&format!("{api}|{}|{}|{k}", opk(e.kind), f.name())));
            }
            judge_hard(prop, api, e.kind, f, &res[e.api as usize], fired, out);
            st.absorb_sim(&sim.borrow());
        }
        for f in transparent_faults_for(e.kind, e.len) {
            let (sim, res) = mux_with(sc, &[(k, f)], Chunking::Full, 0, false, None);
            st.inc("fault_runs");
            st.inc(&format!("fired.{}.{}.{}", f.name(), api, opk(e.kind)));
            st.distinct.insert(hash_str(&format!("{api}|{}|{}|{k}", opk(e.kind), f.name())));
            let codes: Vec<String> = res.iter().map(|c| c.code()).collect();
            let same_img = sim.borrow().disk.digest() == clean_digest;
            if codes != clean_codes || !same_img {
                out.push(Violation::new(prop, "transparent_fault_visible", format!("api={api} op={} fault={}", opk(e.kind), f.name()), format!("results_equal={} image_equal={same_img} (stream call {k})", codes == clean_codes)));
            }
            st.absorb_sim(&sim.borrow());
        }
    }
    // whole-run chunkings
    for (name, chunk, intr) in [
        ("one_byte_per_call", Chunking::Max(1), 0u32),
        ("random_chunks", Chunking::Random(r.next_u64()), 0),
        ("interrupt_half_of_calls", Chunking::Full, 500_000),
        ("three_bytes_and_interrupts", Chunking::Max(3), 200_000),
    ] {
        let (sim, res) = mux_with(sc, &[], chunk, intr, false, None);
        st.inc("fault_runs");
        st.inc(&format!("fired.whole_run.{name}"));
        let codes: Vec<String> = res.iter().map(|c| c.code()).collect();
        let same_img = sim.borrow().disk.digest() == clean_digest;
        if codes != clean_codes || !same_img {
            out.push(Violation::new(prop, "transparent_fault_visible", format!("api=mux whole_run={name}"), format!("results_equal={} image_equal={same_img}", codes == clean_codes)));
        }
        st.absorb_sim(&sim.borrow());
    }
    if sc.start_pos > (1 << 30) {
        // a sparse sink that begins beyond 4 GiB is not materialised: muxing only
        st.inc("scenario.mux_only_beyond_4gib");
        return None;
    }
    let img = csim.borrow().disk.to_vec();
    if cres.last().map(|c| c.is_ok()).unwrap_or(false) {
        Some(img)
    } else {
        None
    }
}

// ---------------------------------------------------------------------------------------------
// reader phase
// ---------------------------------------------------------------------------------------------

fn sample_code(o: &SampleOutcome) -> String {
    match o {
        SampleOutcome::Some(s) => {
            let mut h = 0xabcdu64;
            for c in s.bytes.chunks(8) {
                let mut w = [0u8; 8];
                w[..c.len()].copy_from_slice(c);
                h = mix(h, u64::from_le_bytes(w));
            }
            format!("some:{}:{}:{}:{}:{}:{h:x}", s.bytes.len(), s.start_time, s.duration, s.rendering_offset, s.is_sync)
        }
        SampleOutcome::None => "none".into(),
        SampleOutcome::Err(e) => format!("err:{}", e.key()),
        SampleOutcome::Panic(p) => format!("panic:{}", p.discriminator()),
    }
}

fn to_callresult_sample(o: &SampleOutcome) -> CallResult {
    match o {
        SampleOutcome::Some(_) | SampleOutcome::None => CallResult::Ok,
        SampleOutcome::Err(e) => CallResult::Err(e.clone()),
        SampleOutcome::Panic(p) => CallResult::Panic(p.clone()),
    }
}

pub struct ReadRun {
    pub codes: Vec<String>,
    pub results: Vec<CallResult>,
    pub apis: Vec<&'static str>,
}

/// api index 0 = read_header, [1 = read_header(init) + 2 = read_fragment_header when split], then the schedule.
pub fn read_with(img: &[u8], split: Option<usize>, sched: &[RCall], plan: &[(u64, Fault)], chunk: Chunking, intr: u32, seed: u64, record: bool, stop_after: Option<usize>) -> (Vec<SimRef>, ReadRun) {
    let mut rr = ReadRun { codes: vec![], results: vec![], apis: vec![] };
    let sim = Sim::shared(SimDisk::from_bytes(match split {
        Some(l) => img[..l.min(img.len())].to_vec(),
        None => img.to_vec(),
    }));
    {
        let mut s = sim.borrow_mut();
        s.set_transparent(chunk, intr, seed);
        s.plan = plan.to_vec();
        if record {
            s.record = Some(Vec::new());
        }
    }
    let mut sims = vec![sim.clone()];
    let size = sim.borrow().disk.len();
    let mut api = 0u32;
    let opened = Player::open(&sim, 0, size, api);
    rr.apis.push("read_header");
    let mut player = match opened {
        Opened::Ok(p) => {
            rr.codes.push("ok".into());
            rr.results.push(CallResult::Ok);
            Some(p)
        }
        Opened::Err(e) => {
            rr.codes.push(format!("err:{}", e.key()));
            rr.results.push(CallResult::Err(e));
            None
        }
        Opened::Panic(p) => {
            rr.codes.push(format!("panic:{}", p.discriminator()));
            rr.results.push(CallResult::Panic(p));
            None
        }
    };
    api += 1;
    if stop_after == Some(0) {
        return (sims, rr);
    }
    if let (Some(l), Some(init)) = (split, player.as_ref()) {
        // open the media part as a separate stream against the init part; the same simulator
        // state (clock, plan) keeps driving: give the segment its own disk but a shared plan
        let seg = img[l.min(img.len())..].to_vec();
        let ssim = Sim::shared(SimDisk::from_bytes(seg));
        {
            let mut s = ssim.borrow_mut();
            let p = sim.borrow();
            s.set_transparent(chunk, intr, seed ^ 0x5e6);
            s.seq = p.seq; // continue the global clock so that plan indices stay unique
            s.plan = p.plan.clone();
            if record {
                s.record = Some(Vec::new());
            }
        }
        sims.push(ssim.clone());
        let f = SimFile::new(&ssim);
        let slen = ssim.borrow().disk.len();
        ssim.borrow_mut().begin_api(api);
        rr.apis.push("read_fragment_header");
        let r = guard(|| init.reader.read_fragment_header(f, slen));
        api += 1;
        match r {
            Ok(Ok(reader)) => {
                rr.codes.push("ok".into());
                rr.results.push(CallResult::Ok);
                player = Some(Player { sim: ssim.clone(), reader, api });
            }
            Ok(Err(e)) => {
                let es = ErrSummary::of(&e);
                rr.codes.push(format!("err:{}", es.key()));
                rr.results.push(CallResult::Err(es));
                player = None;
            }
            Err(p) => {
                rr.codes.push(format!("panic:{}", p.discriminator()));
                rr.results.push(CallResult::Panic(p));
                player = None;
            }
        }
        if stop_after == Some(1) {
            return (sims, rr);
        }
    }
    let Some(mut p) = player else { return (sims, rr) };
    p.api = api;
    for c in sched {
        let idx = rr.results.len();
        match c {
            RCall::ReadSample { t, k } => {
                rr.apis.push("read_sample");
                let o = p.read_sample(*t, *k);
                rr.codes.push(sample_code(&o));
                rr.results.push(to_callresult_sample(&o));
            }
            RCall::SampleOffset { t, k } => {
                rr.apis.push("sample_offset");
                match p.sample_offset(*t, *k) {
                    Ok(Ok(v)) => {
                        rr.codes.push(format!("ok:{v}"));
                        rr.results.push(CallResult::Ok);
                    }
                    Ok(Err(e)) => {
                        rr.codes.push(format!("err:{}", e.key()));
                        rr.results.push(CallResult::Err(e));
                    }
                    Err(pi) => {
                        rr.codes.push(format!("panic:{}", pi.discriminator()));
                        rr.results.push(CallResult::Panic(pi));
                    }
                }
            }
            RCall::SampleCount { t } => {
                rr.apis.push("sample_count");
                match p.sample_count(*t) {
                    Ok(Ok(v)) => {
                        rr.codes.push(format!("ok:{v}"));
                        rr.results.push(CallResult::Ok);
                    }
                    Ok(Err(e)) => {
                        rr.codes.push(format!("err:{}", e.key()));
                        rr.results.push(CallResult::Err(e));
                    }
                    Err(pi) => {
                        rr.codes.push(format!("panic:{}", pi.discriminator()));
                        rr.results.push(CallResult::Panic(pi));
                    }
                }
            }
        }
        if stop_after == Some(idx) {
            break;
        }
    }
    (sims, rr)
}

fn merged_events(sims: &[SimRef]) -> Vec<Event> {
    let mut v: Vec<Event> = Vec::new();
    for s in sims {
        if let Some(r) = s.borrow_mut().record.take() {
            v.extend(r);
        }
    }
    v.sort_by_key(|e| e.seq);
    v
}

pub fn read_phase(prop: &str, img: &[u8], split: Option<usize>, sched: &[RCall], max_k: u64, r: &mut Rng, st: &mut Stats, out: &mut Vec<Violation>) {
    let (csims, clean) = read_with(img, split, sched, &[], Chunking::Full, 0, 1, true, None);
    let events = merged_events(&csims);
    for s in &csims {
        st.case_digest = mix(st.case_digest, s.borrow().digest);
    }
    if clean.results.iter().any(|c| matches!(c, CallResult::Panic(_))) {
        st.inc("clean_run_panicked");
        return;
    }
    let n = events.len() as u64;
    st.add("stream_calls_enumerable", n);
    // stream-call seq numbers are global across the sims of one run and start at 0
    for k in pick_ks(n, max_k, &events, r) {
        let e = &events[k as usize];
        let api_idx = e.api as usize;
        let api = clean.apis.get(api_idx).copied().unwrap_or("?");
        for f in hard_faults_for(e.kind, k) {
            let (sims, rr) = read_with(img, split, sched, &[(e.seq, f)], Chunking::Full, 0, 1, false, Some(api_idx));
            let fired = sims.iter().any(|s| s.borrow().last_hard.is_some());
            st.inc("fault_runs");
            if fired {
                st.inc(&format!("fired.{}.{}.{}", f.name(), api, opk(e.kind)));
                st.distinct.insert(hash_str(&format!("{api}|{}|{}|{k}", opk(e.kind), f.name())));
            }
            if let Some(res) = rr.results.get(api_idx) {
                judge_hard(prop, api, e.kind, f, res, fired, out);
            }
            for s in &sims {
                st.absorb_sim(&s.borrow());
            }
        }
        for f in transparent_faults_for(e.kind, e.len) {
            let (sims, rr) = read_with(img, split, sched, &[(e.seq, f)], Chunking::Full, 0, 1, false, None);
            st.inc("fault_runs");
            st.inc(&format!("fired.{}.{}.{}", f.name(), api, opk(e.kind)));
            st.distinct.insert(hash_str(&format!("{api}|{}|{}|{k}", opk(e.kind), f.name())));
            if rr.codes != clean.codes {
                let at = rr.codes.iter().zip(clean.codes.iter()).position(|(a, b)| a != b).unwrap_or(0);
                out.push(Violation::new(prop, "transparent_fault_visible", format!("api={api} op={} fault={}", opk(e.kind), f.name()), format!("call #{at} ({}) returned {} instead of {}", clean.apis.get(at).copied().unwrap_or("?"), rr.codes.get(at).cloned().unwrap_or_default(), clean.codes.get(at).cloned().unwrap_or_default())));
            }
            for s in &sims {
                st.absorb_sim(&s.borrow());
            }
        }
    }
    for (name, chunk, intr) in [
        ("one_byte_per_call", Chunking::Max(1), 0u32),
        ("random_chunks", Chunking::Random(r.next_u64()), 0),
        ("interrupt_half_of_calls", Chunking::Full, 500_000),
        ("three_bytes_and_interrupts", Chunking::Max(3), 200_000),
    ] {
        let (sims, rr) = read_with(img, split, sched, &[], chunk, intr, r.next_u64(), false, None);
        st.inc("fault_runs");
        st.inc(&format!("fired.whole_run.{name}"));
        if rr.codes != clean.codes {
            let at = rr.codes.iter().zip(clean.codes.iter()).position(|(a, b)| a != b).unwrap_or(0);
            out.push(Violation::new(prop, "transparent_fault_visible", format!("api=read whole_run={name}"), format!("call #{at} ({}) returned {} instead of {}", clean.apis.get(at).copied().unwrap_or("?"), rr.codes.get(at).cloned().unwrap_or_default(), clean.codes.get(at).cloned().unwrap_or_default())));
        }
        for s in &sims {
            st.absorb_sim(&s.borrow());
        }
    }
}

/// A reader schedule over `img`: mostly valid sample reads, some boundary ids.
pub fn gen_sched(r: &mut Rng, img: &[u8], split: Option<usize>, max_calls: usize) -> Vec<RCall> {
    // learn tracks and counts from a clean open (workload generation, not an oracle)
    let _ = split;
    let sim = Sim::shared(SimDisk::from_bytes(img.to_vec()));
    let size = img.len() as u64;
    let mut tracks: Vec<(u32, u32)> = Vec::new();
    if let Opened::Ok(mut p) = Player::open(&sim, 0, size, 0) {
        for t in p.track_ids() {
            if let Ok(Ok(c)) = p.sample_count(t) {
                tracks.push((t, c));
            }
        }
    }
    let mut v = Vec::new();
    if tracks.is_empty() {
        return vec![RCall::SampleCount { t: 1 }, RCall::ReadSample { t: 1, k: 1 }];
    }
    let n = 1 + r.usize_below(max_calls.max(1));
    for _ in 0..n {
        let (t, c) = tracks[r.usize_below(tracks.len())];
        let k = match r.below(10) {
            0 => 0,
            1 => c.wrapping_add(1),
            2 => c,
            _ => 1 + r.below(c.max(1) as u64) as u32,
        };
        v.push(match r.below(8) {
            0 => RCall::SampleCount { t },
            1 => RCall::SampleOffset { t, k },
            _ => RCall::ReadSample { t, k },
        });
    }
    v
}

pub fn eval(prop: &str, case: &IoCase, st: &mut Stats) -> Vec<Violation> {
    let mut out = Vec::new();
    let mut r = Rng::new(case.pick_seed);
    let (img, split) = match &case.src {
        IoSrc::Mux(sc) => {
            st.inc("scenario.mux_then_read");
            match mux_phase(prop, sc, case.max_k, &mut r, st, &mut out) {
                Some(i) => (i, None),
                None => return out,
            }
        }
        IoSrc::Seed(spec) => {
            st.inc(&format!("scenario.seed.{}", spec.class()));
            let si = build(spec);
            (si.bytes, si.init_len)
        }
    };
    read_phase(prop, &img, None, &case.sched, case.max_k, &mut r, st, &mut out);
    if let Some(l) = split {
        read_phase(prop, &img, Some(l), &case.sched, case.max_k, &mut r, st, &mut out);
    }
    // keep one violation per signature
    let mut seen = std::collections::BTreeSet::new();
    out.retain(|v| seen.insert(v.signature()));
    out
}
