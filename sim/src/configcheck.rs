//! C14: what the reader reports about tracks and the movie vs. the configuration handed to the
//! muxer (accessors of the real `Mp4Reader` / `Mp4Track`, each under `guard`).

use crate::model::{Model, Opened, Player};
use crate::panicx::guard;
use crate::scenario::*;
use crate::simdisk::SimRef;
use crate::verdict::Violation;

fn in_lang_domain(l: &str) -> bool {
    l.len() == 3 && l.bytes().all(|b| b.is_ascii_lowercase())
}

pub fn check_config(prop: &str, sim: &SimRef, sc: &MuxScenario, size: u64, model: &Model, strict_domain: bool, out: &mut Vec<Violation>) {
    let p = match Player::open(sim, sc.start_pos, size, 20_000) {
        Opened::Ok(p) => p,
        Opened::Err(e) => {
            out.push(Violation::new(prop, "readback_open_failed", format!("err={}", e.short()), e.msg));
            return;
        }
        Opened::Panic(pi) => {
            out.push(Violation::new(prop, "readback_panic", format!("api=read_header {}", pi.discriminator()), pi.location));
            return;
        }
    };
    let r = &p.reader;
    macro_rules! acc {
        ($name:expr, $e:expr) => {
            match guard(|| $e) {
                Ok(v) => Some(v),
                Err(pi) => {
                    out.push(Violation::new(prop, "accessor_panic", format!("api={} {}", $name, pi.discriminator()), format!("{} at {}", pi.msg, pi.location)));
                    None
                }
            }
        };
    }
    // ---- file level
    if let Some(b) = acc!("major_brand", r.major_brand().value) {
        if b != model.cfg.major {
            out.push(Violation::new(prop, "major_brand", "", format!("{:?} read, {:?} configured", b, model.cfg.major)));
        }
    }
    if let Some(m) = acc!("minor_version", r.minor_version()) {
        if m != model.cfg.minor {
            out.push(Violation::new(prop, "minor_version", "", format!("{m} read, {} configured", model.cfg.minor)));
        }
    }
    if let Some(c) = acc!("compatible_brands", r.compatible_brands().iter().map(|f| f.value).collect::<Vec<_>>()) {
        if c != model.cfg.compat {
            out.push(Violation::new(prop, "compatible_brands", "", format!("{} brands read, {} configured", c.len(), model.cfg.compat.len())));
        }
    }
    if let Some(t) = acc!("timescale", r.timescale()) {
        if t != model.cfg.timescale {
            out.push(Violation::new(prop, "movie_timescale", "", format!("{t} read, {} configured", model.cfg.timescale)));
        }
    }
    // ---- per track
    let tm = model.cfg.timescale as u128;
    // exact movie duration in seconds as rational num/den = max over tracks of sum/T
    let mut longest: Option<(u128, u128)> = None;
    for (i, mt) in model.tracks.iter().enumerate() {
        let id = i as u32 + 1;
        let Some(t) = r.tracks().get(&id) else {
            out.push(Violation::new(prop, "track_set", "", format!("track {id} missing")));
            continue;
        };
        let c = &mt.cfg;
        let kind = c.kind.name();
        let tt = c.timescale as u128;
        if tt > 0 {
            let better = match longest {
                None => true,
                Some((n0, d0)) => mt.total_duration as u128 * d0 > n0 * tt,
            };
            if better {
                longest = Some((mt.total_duration as u128, tt));
            }
        }
        // kind / codec
        if let Some(v) = acc!("track_type", t.track_type().ok()) {
            let want = match c.track_type {
                0 => mp4::TrackType::Video,
                1 => mp4::TrackType::Audio,
                _ => mp4::TrackType::Subtitle,
            };
            if v != Some(want) {
                out.push(Violation::new(prop, "track_type", format!("want={want:?}"), format!("track {id} ({kind}): {v:?} read")));
            }
        }
        if let Some(v) = acc!("media_type", t.media_type().ok()) {
            let want = match c.kind {
                Kind::Avc => mp4::MediaType::H264,
                Kind::Hevc => mp4::MediaType::H265,
                Kind::Vp9 => mp4::MediaType::VP9,
                Kind::Aac => mp4::MediaType::AAC,
                Kind::Ttxt => mp4::MediaType::TTXT,
            };
            if v != Some(want) {
                out.push(Violation::new(prop, "media_type", format!("want={want:?}"), format!("track {id}: {v:?} read")));
            }
        }
        if let Some(v) = acc!("box_type", t.box_type().ok().map(|f| f.value)) {
            let want: [u8; 4] = match c.kind {
                Kind::Avc => *b"avc1",
                Kind::Hevc => *b"hev1",
                Kind::Vp9 => *b"vp09",
                Kind::Aac => *b"mp4a",
                Kind::Ttxt => *b"tx3g",
            };
            if v != Some(want) {
                out.push(Violation::new(prop, "box_type", format!("kind={kind}"), format!("track {id}: {v:?} read")));
            }
        }
        if matches!(c.kind, Kind::Avc | Kind::Hevc | Kind::Vp9) {
            if let Some((w, h)) = acc!("width_height", (t.width(), t.height())) {
                if (w, h) != (c.width, c.height) {
                    out.push(Violation::new(prop, "dimensions", format!("kind={kind}"), format!("track {id}: {w}x{h} read, {}x{} configured", c.width, c.height)));
                }
            }
        }
        if !strict_domain || in_lang_domain(&c.language) {
            if in_lang_domain(&c.language) {
                if let Some(l) = acc!("language", t.language().to_string()) {
                    if l != c.language {
                        out.push(Violation::new(prop, "language", "", format!("track {id}: '{l}' read, '{}' configured", c.language)));
                    }
                }
            }
        }
        if let Some(ts) = acc!("track_timescale", t.timescale()) {
            if ts != c.timescale {
                out.push(Violation::new(prop, "track_timescale", "", format!("track {id}: {ts} read, {} configured", c.timescale)));
            }
        }
        match c.kind {
            Kind::Avc => {
                if let Some(v) = acc!("sequence_parameter_set", t.sequence_parameter_set().ok().map(|b| b.to_vec())) {
                    if v.as_deref() != Some(&c.sps[..]) {
                        out.push(Violation::new(prop, "avc_sps", "", format!("track {id}: sps of {} bytes configured, {:?} bytes read", c.sps.len(), v.map(|x| x.len()))));
                    }
                }
                if let Some(v) = acc!("picture_parameter_set", t.picture_parameter_set().ok().map(|b| b.to_vec())) {
                    if v.as_deref() != Some(&c.pps[..]) {
                        out.push(Violation::new(prop, "avc_pps", "", format!("track {id}: pps of {} bytes configured, {:?} bytes read", c.pps.len(), v.map(|x| x.len()))));
                    }
                }
                if c.sps.len() >= 4 {
                    if let Some(avc1) = &t.trak.mdia.minf.stbl.stsd.avc1 {
                        let got = (avc1.avcc.avc_profile_indication, avc1.avcc.profile_compatibility, avc1.avcc.avc_level_indication);
                        let want = (c.sps[1], c.sps[2], c.sps[3]);
                        if got != want {
                            out.push(Violation::new(prop, "avc_profile_level_bytes", "", format!("track {id}: {got:?} read, {want:?} from the sps")));
                        }
                    }
                    // the profile the reader names for those bytes (H.264 Annex A: profile_idc, and
                    // for 66 the constraint_set1_flag, bit 6 of the byte that follows)
                    let want_name = match (c.sps[1], c.sps[2] & 0x40 != 0) {
                        (66, true) => Some("Constrained Baseline"),
                        (66, false) => Some("Baseline"),
                        (77, _) => Some("Main"),
                        (88, _) => Some("Extended"),
                        (100, _) => Some("High"),
                        _ => None, // no name in the library's vocabulary: it reports an error
                    };
                    if let Some(got_name) = acc!("video_profile", t.video_profile().ok().map(|p| p.to_string())) {
                        if got_name.as_deref() != want_name {
                            out.push(Violation::new(prop, "avc_profile_name", format!("want={}", want_name.unwrap_or("none")), format!("track {id}: sps bytes {:02x} {:02x}: reader names the profile {got_name:?}", c.sps[1], c.sps[2])));
                        }
                    }
                }
            }
            Kind::Aac => {
                if let Some(v) = acc!("audio_profile", t.audio_profile().ok().map(|a| a as u8)) {
                    if v != Some(c.aac_profile) {
                        let class = if c.aac_profile >= 32 { "escape_ge32" } else { "plain_lt32" };
                        out.push(Violation::new(prop, "aac_object_type", format!("class={class}"), format!("track {id}: object type {v:?} read, {} configured", c.aac_profile)));
                    }
                }
                // frequency index and channel configuration share bytes with the object type:
                // with an escape-coded type (known finding) they are not separately attributable
                if let Some(v) = acc!("sample_freq_index", t.sample_freq_index().ok().map(|a| a as u8)) {
                    if v != Some(c.freq_index) {
                        let class = if c.aac_profile >= 32 { "escape_ge32" } else { "plain_lt32" };
                        out.push(Violation::new(prop, "aac_freq_index", format!("class={class}"), format!("track {id}: index {v:?} read, {} configured", c.freq_index)));
                    }
                }
                if let Some(v) = acc!("channel_config", t.channel_config().ok().map(|a| a as u8)) {
                    if v != Some(c.chan_conf) {
                        let class = if c.aac_profile >= 32 { "escape_ge32" } else { "plain_lt32" };
                        out.push(Violation::new(prop, "aac_channel_config", format!("class={class}"), format!("track {id}: {v:?} read, {} configured", c.chan_conf)));
                    }
                }
                if let Some(v) = acc!("bitrate", t.bitrate()) {
                    if v != c.bitrate {
                        out.push(Violation::new(prop, "aac_bitrate", "", format!("track {id}: {v} read, {} configured", c.bitrate)));
                    }
                }
            }
            _ => {}
        }
        // duration in microseconds: |reported - sum*1e6/T| <= 1e6/T + 1
        if tt > 0 {
            if let Some(d) = acc!("track_duration", t.duration().as_micros()) {
                // compare in units of 1/T microseconds: |d*T - sum*1e6| <= 1e6 + T
                let lhs = d.saturating_mul(tt);
                let rhs = mt.total_duration as u128 * 1_000_000;
                if lhs.abs_diff(rhs) > 1_000_000 + tt {
                    out.push(Violation::new(prop, "track_duration", "", format!("track {id}: {d} us reported, {} ticks @{} written", mt.total_duration, c.timescale)));
                }
            }
        }
    }
    if tm > 0 {
        if let Some(d) = acc!("movie_duration", r.duration().as_millis()) {
            let (num, den) = longest.unwrap_or((0, 1));
            // exact ms = num*1000/den ; tolerance = one movie tick (1000/tm ms) + 1 ms
            // |d - num*1000/den| <= 1000/tm + 1   <=>  |d*den*tm - num*1000*tm| <= 1000*den + den*tm
            let lhs = d.checked_mul(den).and_then(|x| x.checked_mul(tm));
            let rhs = num.checked_mul(1000).and_then(|x| x.checked_mul(tm));
            let bad = match (lhs, rhs) {
                (Some(l), Some(r)) => l.abs_diff(r) > 1000 * den + den * tm,
                _ => true,
            };
            if bad {
                out.push(Violation::new(prop, "movie_duration", "", format!("{d} ms reported, longest track {num}/{den} s, movie timescale {tm}")));
            }
        }
    }
}
