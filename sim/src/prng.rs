//! The only source of randomness in the simulator: splitmix64 for seed derivation,
//! xoshiro256** for per-case streams. No `rand` crate, no clock, no OS entropy.

#[inline]
pub fn splitmix64(x: u64) -> u64 {
    let mut z = x.wrapping_add(0x9E37_79B9_7F4A_7C15);
    z = (z ^ (z >> 30)).wrapping_mul(0xBF58_476D_1CE4_E5B9);
    z = (z ^ (z >> 27)).wrapping_mul(0x94D0_49BB_1331_11EB);
    z ^ (z >> 31)
}

/// 64-bit tag of a short ASCII name (property id, stream name): FNV-1a.
pub fn tag(name: &str) -> u64 {
    let mut h: u64 = 0xcbf2_9ce4_8422_2325;
    for b in name.bytes() {
        h ^= b as u64;
        h = h.wrapping_mul(0x0000_0100_0000_01B3);
    }
    h
}

/// Seed of case `i` of stream `name` under base seed `base`.
pub fn case_seed(base: u64, name: &str, i: u64) -> u64 {
    splitmix64(splitmix64(base ^ tag(name)) ^ i.wrapping_mul(0xD6E8_FEB8_6659_FD93))
}

#[derive(Clone, Debug)]
pub struct Rng {
    s: [u64; 4],
}

impl Rng {
    pub fn new(seed: u64) -> Self {
        let mut x = seed;
        let mut s = [0u64; 4];
        for v in s.iter_mut() {
            x = splitmix64(x);
            *v = x;
        }
        if s == [0; 4] {
            s[0] = 1;
        }
        Rng { s }
    }

    #[inline]
    pub fn next_u64(&mut self) -> u64 {
        let result = self.s[1].wrapping_mul(5).rotate_left(7).wrapping_mul(9);
        let t = self.s[1] << 17;
        self.s[2] ^= self.s[0];
        self.s[3] ^= self.s[1];
        self.s[1] ^= self.s[2];
        self.s[0] ^= self.s[3];
        self.s[2] ^= t;
        self.s[3] = self.s[3].rotate_left(45);
        result
    }

    #[inline]
    pub fn next_u32(&mut self) -> u32 {
        (self.next_u64() >> 32) as u32
    }

    /// Uniform in `0..n` (n > 0). Multiply-shift; bias < 2^-32 for n < 2^32, irrelevant here.
    #[inline]
    pub fn below(&mut self, n: u64) -> u64 {
        debug_assert!(n > 0);
        ((self.next_u64() as u128 * n as u128) >> 64) as u64
    }

    /// Uniform in `lo..=hi`.
    #[inline]
    pub fn range(&mut self, lo: u64, hi: u64) -> u64 {
        debug_assert!(lo <= hi);
        if lo == 0 && hi == u64::MAX {
            return self.next_u64();
        }
        lo + self.below(hi - lo + 1)
    }

    #[inline]
    pub fn usize_below(&mut self, n: usize) -> usize {
        self.below(n as u64) as usize
    }

    /// True with probability num/den.
    #[inline]
    pub fn chance(&mut self, num: u64, den: u64) -> bool {
        self.below(den) < num
    }

    #[inline]
    pub fn pick<'a, T>(&mut self, xs: &'a [T]) -> &'a T {
        &xs[self.usize_below(xs.len())]
    }

    /// Index drawn with the given integer weights.
    pub fn weighted(&mut self, weights: &[u32]) -> usize {
        let total: u64 = weights.iter().map(|w| *w as u64).sum();
        let mut r = self.below(total.max(1));
        for (i, w) in weights.iter().enumerate() {
            if r < *w as u64 {
                return i;
            }
            r -= *w as u64;
        }
        weights.len() - 1
    }

    pub fn fill(&mut self, buf: &mut [u8]) {
        for c in buf.chunks_mut(8) {
            let v = self.next_u64().to_le_bytes();
            c.copy_from_slice(&v[..c.len()]);
        }
    }

    pub fn shuffle<T>(&mut self, xs: &mut [T]) {
        for i in (1..xs.len()).rev() {
            let j = self.usize_below(i + 1);
            xs.swap(i, j);
        }
    }

    /// A "boundary-biased" u32: small values, powers of two ±1, extremes, or uniform.
    pub fn edgy_u32(&mut self) -> u32 {
        match self.below(8) {
            0 => self.below(4) as u32,
            1 => self.below(64) as u32,
            2 => {
                let k = self.below(32) as u32;
                let base = 1u32 << k;
                match self.below(3) {
                    0 => base.wrapping_sub(1),
                    1 => base,
                    _ => base.wrapping_add(1),
                }
            }
            3 => u32::MAX - self.below(3) as u32,
            4 => 0x7FFF_FFFF + self.below(3) as u32 - 1,
            5 => self.below(100_000) as u32,
            _ => self.next_u32(),
        }
    }
}

/// Order-sensitive 64-bit mixer used for event-log digests.
#[inline]
pub fn mix(h: u64, v: u64) -> u64 {
    splitmix64(h ^ v.wrapping_mul(0x9E37_79B9_7F4A_7C15)).rotate_left(23)
}
