//! Mode E: storage-corruption campaign. seed image (+) storage faults -> open -> (fragment open)
//! -> full accessor schedule. Shared by C06 (panics), C07 (work budgets), C08 (allocation).

use crate::corrupt::{field_map, gen_fault, StorageFault};
use crate::prng::{mix, Rng};
use crate::sched::{run_schedule, CallRec, Outcome, RunSpec, Session, SessionCfg};
use crate::seeds::{build, gen_spec, SeedSpec};
use crate::stats::{hash_str, Stats};
use serde::{Deserialize, Serialize};

#[derive(Clone, Debug, Serialize, Deserialize)]
pub struct CorruptCase {
    pub seed: SeedSpec,
    pub faults: Vec<StorageFault>,
    /// what each fault was aimed at (box path : field) - for statistics only
    pub labels: Vec<String>,
    /// fragmented seeds: also open the media part separately against the init part
    pub split: bool,
    /// faults applied to the init part used in split mode (empty = intact init)
    pub init_faults: Vec<StorageFault>,
    /// storage fault applied between two reader calls: (call index, fault)
    pub late: Option<(u32, StorageFault)>,
    pub extra_ids: Vec<u32>,
}

pub fn gen_case(seed: u64) -> CorruptCase {
    let mut r = Rng::new(seed);
    let spec = gen_spec(&mut r);
    let si = build(&spec);
    let mut img = si.bytes.clone();
    let (nodes, fields) = field_map(&img);
    let nf = match r.below(100) {
        0..=2 => 0,
        3..=56 => 1,
        57..=85 => 2,
        _ => 3 + r.below(4) as usize,
    };
    let mut faults = Vec::new();
    let mut labels = Vec::new();
    for _ in 0..nf {
        let (f, l) = gen_fault(&mut r, &img, &nodes, &fields);
        f.apply(&mut img);
        faults.push(f);
        labels.push(l);
    }
    let split = si.init_len.is_some() && r.chance(1, 2);
    let mut init_faults = Vec::new();
    if split && r.chance(1, 3) {
        let init = si.bytes[..si.init_len.unwrap()].to_vec();
        let (n2, f2) = field_map(&init);
        let (f, _) = gen_fault(&mut r, &init, &n2, &f2);
        init_faults.push(f);
    }
    let late = if r.chance(1, 4) {
        let (f, _) = gen_fault(&mut r, &img, &nodes, &fields);
        Some((1 + r.below(120) as u32, f))
    } else {
        None
    };
    let extra_ids = (0..8).map(|_| r.edgy_u32()).collect();
    CorruptCase { seed: spec, faults, labels, split, init_faults, late, extra_ids }
}

pub struct CorruptRun {
    pub recs: Vec<CallRec>,
    pub image_len: usize,
}

pub fn run_case(case: &CorruptCase, cfg: SessionCfg, st: &mut Stats) -> CorruptRun {
    let t0 = std::time::Instant::now();
    let r = run_case_inner(case, cfg, st);
    if std::env::var("MP4SIM_PROFILE").is_ok() {
        let us = t0.elapsed().as_micros() as u64;
        st.add(&format!("time_us.{}", case.seed.class()), us);
        if us > 200_000 {
            eprintln!("SLOW {} us: {}", us, serde_json::to_string(case).unwrap());
            for rec in &r.recs {
                if rec.micros > 50_000 {
                    eprintln!("   {} took {} us ops {} n {}", rec.api, rec.micros, rec.ops, rec.n);
                }
            }
        }
    }
    r
}

fn run_case_inner(case: &CorruptCase, cfg: SessionCfg, st: &mut Stats) -> CorruptRun {
    let si = build(&case.seed);
    let mut img = si.bytes.clone();
    for f in &case.faults {
        f.apply(&mut img);
    }
    let alt_init: Option<Vec<u8>> = if case.split && !case.init_faults.is_empty() {
        si.init_len.map(|l| {
            let mut i = si.bytes[..l.min(si.bytes.len())].to_vec();
            for f in &case.init_faults {
                f.apply(&mut i);
            }
            i
        })
    } else {
        None
    };
    // the split point of the corrupted image: the init length of the intact seed (cuts and
    // shifts may move the real boundary; that is part of the fault)
    let split_at = if case.split { si.init_len.filter(|l| *l <= img.len()) } else { None };
    let mut se = Session::new(cfg, case.late.clone().map(|(a, f)| (a as usize, f)));
    let spec = RunSpec { image: &img, split_at, alt_init: alt_init.as_deref(), extra_ids: &case.extra_ids };
    let sims = run_schedule(&mut se, &spec);
    for s in &sims {
        let s = s.borrow();
        st.case_digest = mix(st.case_digest, s.digest);
        st.absorb_sim(&s);
    }
    for rec in &se.recs {
        let code = match &rec.outcome {
            Outcome::Ok => 1,
            Outcome::Err(e) => hash_str(e),
            Outcome::Panic(p) => hash_str(&p.discriminator()),
        };
        st.case_digest = mix(st.case_digest, code);
    }
    CorruptRun { recs: se.recs, image_len: img.len() }
}

fn strip_indices(label: &str) -> String {
    label.to_string()
}

/// Statistics common to the three properties: fault kinds fired, targets hit, outcome classes.
pub fn account(case: &CorruptCase, run: &CorruptRun, st: &mut Stats) {
    st.inc(&format!("seed.{}", case.seed.class()));
    for f in &case.faults {
        st.inc(&format!("fault.storage.{}", f.kind()));
    }
    if case.late.is_some() {
        let applied = run.recs.len() > case.late.as_ref().unwrap().0 as usize;
        st.probe("fault.storage.between_reader_calls", applied);
    }
    st.probe("fault.storage.corrupt_init_segment", !case.init_faults.is_empty());
    st.probe("probe.no_fault_baseline", case.faults.is_empty() && case.late.is_none());
    // outcome class: first non-Ok stream call, or "opened"
    let first = run.recs.first();
    let opened = matches!(first.map(|r| &r.outcome), Some(Outcome::Ok));
    st.probe("probe.opened_after_faults", opened && !case.faults.is_empty());
    let class = match first.map(|r| &r.outcome) {
        Some(Outcome::Ok) => "opened".to_string(),
        Some(Outcome::Err(e)) => format!("open_err:{e}"),
        Some(Outcome::Panic(p)) => format!("open_panic:{}", p.discriminator()),
        None => "none".into(),
    };
    for rec in &run.recs {
        if let Outcome::Err(e) = &rec.outcome {
            st.set_insert("distinct_error_messages", hash_str(e));
        }
        if rec.api == "read_sample" {
            match &rec.outcome {
                Outcome::Ok => st.inc(if rec.returned > 0 { "outcome.read_sample.some_or_none" } else { "outcome.read_sample.ok_empty_or_none" }),
                Outcome::Err(_) => st.inc("outcome.read_sample.err"),
                Outcome::Panic(_) => st.inc("outcome.read_sample.panic"),
            }
        }
    }
    st.inc(if opened { "outcome.open.ok" } else { "outcome.open.failed" });
    st.add("api_calls", run.recs.len() as u64);
    for (f, l) in case.faults.iter().zip(case.labels.iter()) {
        let l = strip_indices(l);
        st.set_insert("distinct_fault_targets", hash_str(&format!("{}|{}", f.kind(), l)));
        st.distinct.insert(hash_str(&format!("{}|{}|{}", f.kind(), l, class)));
    }
    if case.faults.is_empty() {
        st.distinct.insert(hash_str(&format!("nofault|{}|{}", case.seed.class(), class)));
    }
}

/// Shrinking: drop faults, drop the late fault, drop extra ids, un-split.
pub fn shrink_case(c: &CorruptCase) -> Vec<CorruptCase> {
    let mut v = Vec::new();
    if c.late.is_some() {
        let mut d = c.clone();
        d.late = None;
        v.push(d);
    }
    if !c.init_faults.is_empty() {
        let mut d = c.clone();
        d.init_faults.clear();
        v.push(d);
    }
    if c.split {
        let mut d = c.clone();
        d.split = false;
        d.init_faults.clear();
        v.push(d);
    }
    for i in 0..c.faults.len() {
        let mut d = c.clone();
        d.faults.remove(i);
        if i < d.labels.len() {
            d.labels.remove(i);
        }
        v.push(d);
    }
    if !c.extra_ids.is_empty() {
        let mut d = c.clone();
        d.extra_ids.clear();
        v.push(d);
        if c.extra_ids.len() > 1 {
            for i in 0..c.extra_ids.len() {
                let mut d = c.clone();
                d.extra_ids.remove(i);
                v.push(d);
            }
        }
    }
    // simpler seed image of the same class
    match &c.seed {
        SeedSpec::Mux { seed } | SeedSpec::MuxReloc { seed } | SeedSpec::Meta { seed } | SeedSpec::Frag { seed } if *seed > 0 => {
            let _ = seed;
        }
        _ => {}
    }
    v
}
