//! Mode E: storage-corruption campaign. seed image (+) storage faults -> open -> (fragment open)
//! -> full accessor schedule. Shared by C06 (panics), C07 (work budgets), C08 (allocation).

use crate::corrupt::{field_map, gen_fault, StorageFault};
use crate::prng::{mix, Rng};
use crate::sched::{run_schedule, CallRec, Outcome, RunSpec, Session, SessionCfg};
use crate::seeds::{build, gen_spec, SeedSpec};
use crate::stats::{hash_str, Stats};
use serde::{Deserialize, Serialize};

#[derive(Clone, Debug, Serialize, Deserialize)]
pub struct CorruptCase {
    pub seed: SeedSpec,
    pub faults: Vec<StorageFault>,
    /// what each fault was aimed at (box path : field) - for statistics only
    pub labels: Vec<String>,
    /// fragmented seeds: also open the media part separately against the init part
    pub split: bool,
    /// faults applied to the init part used in split mode (empty = intact init)
    pub init_faults: Vec<StorageFault>,
    /// storage fault applied between two reader calls: (call index, fault)
    pub late: Option<(u32, StorageFault)>,
    pub extra_ids: Vec<u32>,
    /// true for cases of the systematic single-field sweep
    #[serde(default)]
    pub sweep: bool,
}

// ---------------------------------------------------------------------------------------------
// systematic part of the campaign: EVERY located field of a fixed list of seed images gets EVERY
// boundary value once (single-fault enumeration); the seeded random campaign follows it
// ---------------------------------------------------------------------------------------------

pub fn sweep_images() -> Vec<SeedSpec> {
    // the richest image first: the quick tier enumerates a prefix of the list
    let mut v = vec![SeedSpec::MetaAll { seed: 0 }, SeedSpec::Canned("minimal.mp4".into()), SeedSpec::CannedFrag, SeedSpec::Canned("extended_audio_object_type.mp4".into())];
    for s in 0..4 {
        v.push(SeedSpec::Frag { seed: s });
        v.push(SeedSpec::Mux { seed: s });
        v.push(SeedSpec::Meta { seed: s });
    }
    v.push(SeedSpec::MuxReloc { seed: 0 });
    v.push(SeedSpec::MuxReloc { seed: 1 });
    v.push(SeedSpec::Hybrid { seed: 0 });
    v.push(SeedSpec::Hybrid { seed: 1 });
    v
}

pub fn sweep_values(width: u8, current: u64) -> Vec<u64> {
    let max: u64 = if width >= 8 { u64::MAX } else { (1u64 << (8 * width as u32)) - 1 };
    let mut v = vec![0, 1, 2, 7, 8, current.wrapping_sub(1), current.wrapping_add(1), current.wrapping_add(8), current.wrapping_mul(2), max >> 1, (max >> 1) + 1, max - 1, max];
    for x in v.iter_mut() {
        *x &= max;
    }
    v.retain(|x| *x != current);
    v.sort_unstable();
    v.dedup();
    v
}

struct SweepTable {
    /// (image index, cumulative number of cases before this image, fields of the image)
    images: Vec<(SeedSpec, u64, Vec<(u64, u8, u64, String)>)>,
    total: u64,
}

thread_local! {
    static SWEEP: std::cell::OnceCell<SweepTable> = const { std::cell::OnceCell::new() };
}

const SWEEP_VALUES: u64 = 13;

fn with_sweep<T>(f: impl FnOnce(&SweepTable) -> T) -> T {
    SWEEP.with(|c| {
        let t = c.get_or_init(|| {
            let mut images = Vec::new();
            let mut total = 0u64;
            for spec in sweep_images() {
                let img = build(&spec).bytes;
                let (_n, fields) = field_map(&img);
                let mut seen = std::collections::BTreeSet::new();
                let fl: Vec<(u64, u8, u64, String)> = fields.into_iter().filter(|f| seen.insert((f.off, f.width))).map(|f| (f.off, f.width, f.current, format!("{}:{}", f.box_path, f.name))).collect();
                let n = fl.len() as u64 * SWEEP_VALUES;
                images.push((spec, total, fl));
                total += n;
            }
            SweepTable { images, total }
        });
        f(t)
    })
}

/// Length of the systematic part per tier: thorough enumerates every (image, field, value) and
/// every (image, leaf box, size value, count value) pair; quick the first 50 000 singles and the
/// first 10 000 pairs.
pub fn sweep_len(tier: crate::runner::Tier) -> u64 {
    single_len(tier) + pair_len(tier) + vac_total()
}

fn single_len(tier: crate::runner::Tier) -> u64 {
    match tier {
        crate::runner::Tier::Quick => sweep_total().min(50_000),
        crate::runner::Tier::Thorough => sweep_total(),
    }
}

fn pair_len(tier: crate::runner::Tier) -> u64 {
    match tier {
        crate::runner::Tier::Quick => pair_total().min(10_000),
        crate::runner::Tier::Thorough => pair_total(),
    }
}

/// Number of cases of the systematic single-field sweep (all images; quick runs a prefix).
pub fn sweep_total() -> u64 {
    with_sweep(|t| t.total)
}

pub fn pair_total() -> u64 {
    with_pairs(|t| t.total)
}

pub fn sweep_case(i: u64, tier: crate::runner::Tier) -> CorruptCase {
    let sl = single_len(tier);
    if i >= sl + pair_len(tier) {
        return vac_case(i - sl - pair_len(tier));
    }
    if i >= sl {
        return pair_case(i - sl);
    }
    with_sweep(|t| {
        let i = i % t.total.max(1);
        let (spec, base, fields) = t.images.iter().rev().find(|(_, b, _)| *b <= i).expect("sweep table");
        let k = i - base;
        let (off, width, cur, label) = &fields[(k / SWEEP_VALUES) as usize];
        let vals = sweep_values(*width, *cur);
        let vi = (k % SWEEP_VALUES) as usize;
        let (faults, labels) = match vals.get(vi) {
            Some(v) => (vec![StorageFault::SetField { off: *off, width: *width, val: *v }], vec![label.clone()]),
            None => (vec![], vec![]),
        };
        let split = matches!(spec, SeedSpec::Frag { .. } | SeedSpec::CannedFrag) && (k / SWEEP_VALUES) % 2 == 0;
        CorruptCase { seed: spec.clone(), faults, labels, split, init_faults: vec![], late: None, extra_ids: vec![], sweep: true }
    })
}

// ---- coordinated pairs: the size of a leaf box and one of its leading words inflated together
// (a count that is validated against the box's own size passes the check when both lie) ----

const PAIR_SIZES: [u64; 4] = [0, 0x0010_0000, 0x7FFF_FFFF, 0xFFFF_FFFF]; // 0 = "twice the current size + 64"
const PAIR_COUNTS: [u64; 5] = [0x1_0000, 0x10_0000, 0x7FFF_FFFF, 0xFFFF_FFFF, 0]; // 0 = "twice the current value + 1"
const PAIR_WORDS: [usize; 3] = [0, 4, 8];
const PAIRS_PER_BOX: u64 = (PAIR_SIZES.len() * PAIR_COUNTS.len() * PAIR_WORDS.len()) as u64;

struct PairTable {
    /// (image, cumulative case count before it, leaf boxes: (start, body, span, path))
    images: Vec<(SeedSpec, u64, Vec<(u64, u64, u64, String)>)>,
    total: u64,
}

thread_local! {
    static PAIRS: std::cell::OnceCell<PairTable> = const { std::cell::OnceCell::new() };
}

fn with_pairs<T>(f: impl FnOnce(&PairTable) -> T) -> T {
    PAIRS.with(|c| {
        let t = c.get_or_init(|| {
            let mut images = Vec::new();
            let mut total = 0u64;
            for spec in sweep_images() {
                let img = build(&spec).bytes;
                let nodes = crate::boxtree::walk(&img);
                let leaves: Vec<(u64, u64, u64, String)> = nodes
                    .iter()
                    .filter(|n| n.kids.is_none() && !(n.depth == 0 && n.is(b"mdat")) && n.end() <= img.len() && n.size >= n.hdr + 8)
                    .map(|n| (n.start as u64, n.body() as u64, (n.size - n.hdr) as u64, n.path.clone()))
                    .collect();
                let n = leaves.len() as u64 * PAIRS_PER_BOX;
                images.push((spec, total, leaves));
                total += n;
            }
            PairTable { images, total }
        });
        f(t)
    })
}

pub fn pair_case(i: u64) -> CorruptCase {
    with_pairs(|t| {
        let i = i % t.total.max(1);
        let (spec, base, leaves) = t.images.iter().rev().find(|(_, b, _)| *b <= i).expect("pair table");
        let k = i - base;
        let (start, body, span, path) = &leaves[(k / PAIRS_PER_BOX) as usize];
        let j = k % PAIRS_PER_BOX;
        let wi = (j % PAIR_WORDS.len() as u64) as usize;
        let ci = ((j / PAIR_WORDS.len() as u64) % PAIR_COUNTS.len() as u64) as usize;
        let si = (j / (PAIR_WORDS.len() * PAIR_COUNTS.len()) as u64) as usize;
        let word = PAIR_WORDS[wi] as u64;
        let mut faults = Vec::new();
        let mut labels = Vec::new();
        if word + 4 <= *span {
            let img = build(spec).bytes;
            let cur_size = crate::indep::be32(&img, *start as usize) as u64;
            let cur_word = crate::indep::be32(&img, (*body + word) as usize) as u64;
            let sv = if PAIR_SIZES[si] == 0 { (cur_size * 2 + 64) & 0xFFFF_FFFF } else { PAIR_SIZES[si] };
            let cv = if PAIR_COUNTS[ci] == 0 { (cur_word * 2 + 1) & 0xFFFF_FFFF } else { PAIR_COUNTS[ci] };
            faults.push(StorageFault::SetField { off: *start, width: 4, val: sv });
            faults.push(StorageFault::SetField { off: *body + word, width: 4, val: cv });
            labels.push(format!("{path}:size"));
            labels.push(format!("{path}:w{word}"));
        }
        let split = matches!(spec, SeedSpec::Frag { .. } | SeedSpec::CannedFrag) && (k / PAIRS_PER_BOX) % 2 == 0;
        CorruptCase { seed: spec.clone(), faults, labels, split, init_faults: vec![], late: None, extra_ids: vec![], sweep: true }
    })
}

// ---- "vacuous ancestors": images whose boxes all carry 64-bit headers; the outermost enclosing
// box (or every enclosing box) claims a size with the top bit set - a value that a signed
// comparison takes for negative - while a leaf inside lies about its size and a count ----

const VAC_SIZES: [u64; 2] = [0x0800_0000, 0x7FFF_FFFF];
const VAC_COUNTS: [u64; 2] = [0x10_0000, 0x7FFF_FFFF];
/// per leaf and per choice of lying ancestors (each enclosing box alone, then all of them)
const VAC_PER_CHOICE: u64 = (VAC_SIZES.len() * VAC_COUNTS.len() * PAIR_WORDS.len()) as u64;

struct VacTable {
    /// (image, cases before it, leaves: (start, hdr, span, offsets of the largesize fields of the enclosing boxes outermost first, path))
    images: Vec<(SeedSpec, u64, Vec<(u64, u64, u64, Vec<u64>, String)>)>,
    total: u64,
}

thread_local! {
    static VAC: std::cell::OnceCell<VacTable> = const { std::cell::OnceCell::new() };
}

fn with_vac<T>(f: impl FnOnce(&VacTable) -> T) -> T {
    VAC.with(|c| {
        let t = c.get_or_init(|| {
            let mut images = Vec::new();
            let mut total = 0u64;
            for spec in [SeedSpec::All64 { seed: 0 }, SeedSpec::All64 { seed: 1 }, SeedSpec::All64 { seed: 3 }] {
                let img = build(&spec).bytes;
                let nodes = crate::boxtree::walk(&img);
                let mut leaves = Vec::new();
                for n in nodes.iter().filter(|n| n.kids.is_none() && n.depth >= 1 && n.hdr == 16 && n.end() <= img.len() && n.size >= n.hdr + 8) {
                    let mut anc = Vec::new();
                    let mut cur = n.parent;
                    while let Some(p) = cur {
                        if nodes[p].hdr == 16 {
                            anc.push(nodes[p].start as u64 + 8);
                        }
                        cur = nodes[p].parent;
                    }
                    anc.reverse();
                    if !anc.is_empty() {
                        leaves.push((n.start as u64, n.hdr as u64, (n.size - n.hdr) as u64, anc, n.path.clone()));
                    }
                }
                let cnt: u64 = leaves.iter().map(|l: &(u64, u64, u64, Vec<u64>, String)| (l.3.len() as u64 + 1) * VAC_PER_CHOICE).sum();
                images.push((spec, total, leaves));
                total += cnt;
            }
            VacTable { images, total }
        });
        f(t)
    })
}

pub fn vac_total() -> u64 {
    with_vac(|t| t.total)
}

pub fn vac_case(i: u64) -> CorruptCase {
    with_vac(|t| {
        let i = i % t.total.max(1);
        let (spec, base, leaves) = t.images.iter().rev().find(|(_, b, _)| *b <= i).expect("vac table");
        let mut k = i - base;
        let mut li = 0usize;
        while li < leaves.len() {
            let c = (leaves[li].3.len() as u64 + 1) * VAC_PER_CHOICE;
            if k < c {
                break;
            }
            k -= c;
            li += 1;
        }
        let (start, hdr, span, anc, path) = &leaves[li.min(leaves.len() - 1)];
        let choice = (k / VAC_PER_CHOICE) as usize; // 0..anc.len(): that ancestor alone; anc.len(): all
        let j = k % VAC_PER_CHOICE;
        let wi = (j % PAIR_WORDS.len() as u64) as usize;
        let ci = ((j / PAIR_WORDS.len() as u64) % VAC_COUNTS.len() as u64) as usize;
        let si = (j / (PAIR_WORDS.len() * VAC_COUNTS.len()) as u64) as usize;
        let word = PAIR_WORDS[wi] as u64;
        let img = build(spec).bytes;
        let mut faults = Vec::new();
        let mut labels = Vec::new();
        let which: Vec<u64> = if choice >= anc.len() { anc.clone() } else { vec![anc[choice]] };
        for off in which {
            let cur = crate::indep::be64(&img, off as usize);
            faults.push(StorageFault::SetField { off, width: 8, val: cur | (1u64 << 63) });
            labels.push("ancestor:largesize".to_string());
        }
        // the leaf's own 64-bit size and one of its first words
        faults.push(StorageFault::SetField { off: *start + 8, width: 8, val: VAC_SIZES[si] });
        labels.push(format!("{path}:largesize"));
        if word + 4 <= *span {
            faults.push(StorageFault::SetField { off: *start + *hdr + word, width: 4, val: VAC_COUNTS[ci] });
            labels.push(format!("{path}:w{word}"));
        }
        CorruptCase { seed: spec.clone(), faults, labels, split: false, init_faults: vec![], late: None, extra_ids: vec![], sweep: true }
    })
}

pub fn gen_case(seed: u64) -> CorruptCase {
    let mut r = Rng::new(seed);
    let spec = gen_spec(&mut r);
    let si = build(&spec);
    let mut img = si.bytes.clone();
    let (nodes, fields) = field_map(&img);
    let nf = match r.below(100) {
        0..=2 => 0,
        3..=56 => 1,
        57..=85 => 2,
        _ => 3 + r.below(4) as usize,
    };
    let mut faults = Vec::new();
    let mut labels = Vec::new();
    for _ in 0..nf {
        let (f, l) = gen_fault(&mut r, &img, &nodes, &fields);
        f.apply(&mut img);
        faults.push(f);
        labels.push(l);
    }
    let split = si.init_len.is_some() && r.chance(1, 2);
    let mut init_faults = Vec::new();
    if split && r.chance(1, 3) {
        let init = si.bytes[..si.init_len.unwrap()].to_vec();
        let (n2, f2) = field_map(&init);
        let (f, _) = gen_fault(&mut r, &init, &n2, &f2);
        init_faults.push(f);
    }
    let late = if r.chance(1, 4) {
        let (f, _) = gen_fault(&mut r, &img, &nodes, &fields);
        Some((1 + r.below(120) as u32, f))
    } else {
        None
    };
    let extra_ids = (0..8).map(|_| r.edgy_u32()).collect();
    CorruptCase { seed: spec, faults, labels, split, init_faults, late, extra_ids, sweep: false }
}

pub struct CorruptRun {
    pub recs: Vec<CallRec>,
    pub image_len: usize,
}

pub fn run_case(case: &CorruptCase, cfg: SessionCfg, st: &mut Stats) -> CorruptRun {
    let t0 = std::time::Instant::now();
    let r = run_case_inner(case, cfg, st);
    if std::env::var("MP4SIM_PROFILE").is_ok() {
        let us = t0.elapsed().as_micros() as u64;
        st.add(&format!("time_us.{}", case.seed.class()), us);
        if us > 200_000 {
            eprintln!("SLOW {} us: {}", us, serde_json::to_string(case).unwrap());
            for rec in &r.recs {
                if rec.micros > 50_000 {
                    eprintln!("   {} took {} us ops {} n {}", rec.api, rec.micros, rec.ops, rec.n);
                }
            }
        }
    }
    r
}

fn run_case_inner(case: &CorruptCase, cfg: SessionCfg, st: &mut Stats) -> CorruptRun {
    let si = build(&case.seed);
    let mut img = si.bytes.clone();
    for f in &case.faults {
        f.apply(&mut img);
    }
    let alt_init: Option<Vec<u8>> = if case.split && !case.init_faults.is_empty() {
        si.init_len.map(|l| {
            let mut i = si.bytes[..l.min(si.bytes.len())].to_vec();
            for f in &case.init_faults {
                f.apply(&mut i);
            }
            i
        })
    } else {
        None
    };
    // the split point of the corrupted image: the init length of the intact seed (cuts and
    // shifts may move the real boundary; that is part of the fault)
    let split_at = if case.split { si.init_len.filter(|l| *l <= img.len()) } else { None };
    let mut se = Session::new(cfg, case.late.clone().map(|(a, f)| (a as usize, f)));
    let spec = RunSpec { image: &img, split_at, alt_init: alt_init.as_deref(), extra_ids: &case.extra_ids };
    let sims = run_schedule(&mut se, &spec);
    for s in &sims {
        let s = s.borrow();
        st.case_digest = mix(st.case_digest, s.digest);
        st.absorb_sim(&s);
    }
    for rec in &se.recs {
        if rec.api == "read_header(embedded)" {
            st.inc("probe.embedded_stream_session");
            if matches!(rec.outcome, Outcome::Ok) {
                st.inc("probe.embedded_stream_opened");
            }
        }
    }
    for rec in &se.recs {
        let code = match &rec.outcome {
            Outcome::Ok => 1,
            Outcome::Err(e) => hash_str(e),
            Outcome::Panic(p) => hash_str(&p.discriminator()),
        };
        st.case_digest = mix(st.case_digest, code);
    }
    CorruptRun { recs: se.recs, image_len: img.len() }
}

fn strip_indices(label: &str) -> String {
    label.to_string()
}

/// Statistics common to the three properties: fault kinds fired, targets hit, outcome classes.
pub fn account(case: &CorruptCase, run: &CorruptRun, st: &mut Stats) {
    st.inc(&format!("seed.{}", case.seed.class()));
    st.inc(if case.sweep { "campaign.systematic_single_field_sweep" } else { "campaign.seeded_random" });
    for f in &case.faults {
        st.inc(&format!("fault.storage.{}", f.kind()));
    }
    if case.late.is_some() {
        let applied = run.recs.len() > case.late.as_ref().unwrap().0 as usize;
        st.probe("fault.storage.between_reader_calls", applied);
    }
    st.probe("fault.storage.corrupt_init_segment", !case.init_faults.is_empty());
    st.probe("probe.no_fault_baseline", case.faults.is_empty() && case.late.is_none());
    // outcome class: first non-Ok stream call, or "opened"
    let first = run.recs.first();
    let opened = matches!(first.map(|r| &r.outcome), Some(Outcome::Ok));
    st.probe("probe.opened_after_faults", opened && !case.faults.is_empty());
    // feeds the runner's reach guard: a campaign in which (almost) nothing opens any more
    // explores only the first box header of every image
    st.inc("reach.sessions");
    if opened {
        st.inc("reach.sessions_opened");
    }
    let class = match first.map(|r| &r.outcome) {
        Some(Outcome::Ok) => "opened".to_string(),
        Some(Outcome::Err(e)) => format!("open_err:{e}"),
        Some(Outcome::Panic(p)) => format!("open_panic:{}", p.discriminator()),
        None => "none".into(),
    };
    for rec in &run.recs {
        if let Outcome::Err(e) = &rec.outcome {
            st.set_insert("distinct_error_messages", hash_str(e));
        }
        if rec.api == "read_sample" {
            match &rec.outcome {
                Outcome::Ok => st.inc(if rec.returned > 0 { "outcome.read_sample.some_or_none" } else { "outcome.read_sample.ok_empty_or_none" }),
                Outcome::Err(_) => st.inc("outcome.read_sample.err"),
                Outcome::Panic(_) => st.inc("outcome.read_sample.panic"),
            }
        }
    }
    st.inc(if opened { "outcome.open.ok" } else { "outcome.open.failed" });
    st.add("api_calls", run.recs.len() as u64);
    for (f, l) in case.faults.iter().zip(case.labels.iter()) {
        let l = strip_indices(l);
        st.set_insert("distinct_fault_targets", hash_str(&format!("{}|{}", f.kind(), l)));
        st.distinct.insert(hash_str(&format!("{}|{}|{}", f.kind(), l, class)));
    }
    if case.faults.is_empty() {
        st.distinct.insert(hash_str(&format!("nofault|{}|{}", case.seed.class(), class)));
    }
}

/// Shrinking: drop faults, drop the late fault, drop extra ids, un-split.
pub fn shrink_case(c: &CorruptCase) -> Vec<CorruptCase> {
    let mut v = Vec::new();
    if c.late.is_some() {
        let mut d = c.clone();
        d.late = None;
        v.push(d);
    }
    if !c.init_faults.is_empty() {
        let mut d = c.clone();
        d.init_faults.clear();
        v.push(d);
    }
    if c.split {
        let mut d = c.clone();
        d.split = false;
        d.init_faults.clear();
        v.push(d);
    }
    for i in 0..c.faults.len() {
        let mut d = c.clone();
        d.faults.remove(i);
        if i < d.labels.len() {
            d.labels.remove(i);
        }
        v.push(d);
    }
    if !c.extra_ids.is_empty() {
        let mut d = c.clone();
        d.extra_ids.clear();
        v.push(d);
        if c.extra_ids.len() > 1 {
            for i in 0..c.extra_ids.len() {
                let mut d = c.clone();
                d.extra_ids.remove(i);
                v.push(d);
            }
        }
    }
    // simpler seed image of the same class
    match &c.seed {
        SeedSpec::Mux { seed } | SeedSpec::MuxReloc { seed } | SeedSpec::Meta { seed } | SeedSpec::Frag { seed } if *seed > 0 => {
            let _ = seed;
        }
        _ => {}
    }
    v
}
