//! Process seam, out-of-process half: supervisor and workers, known-finding filter, shrinking,
//! replay files and evidence.
//!
//! exit codes: 0 = property held on everything explored (possibly KNOWN-FINDING lines),
//!             1 = VIOLATION (printed with a replay file that reproduces),
//!             2 = harness error (never a verdict).

use crate::prng::{case_seed, splitmix64};
use crate::stats::Stats;
use crate::verdict::Violation;
use serde::de::DeserializeOwned;
use serde::{Deserialize, Serialize};
use serde_json::{json, Value};
use std::collections::BTreeMap;
use std::io::{BufRead, BufReader, Write};
use std::os::unix::process::ExitStatusExt;
use std::path::{Path, PathBuf};
use std::process::{Child, Command, Stdio};
use std::sync::mpsc;
use std::time::{Duration, Instant};

pub const DEFAULT_SEED: u64 = 20260926;

#[derive(Clone, Copy, Debug, PartialEq, Eq)]
pub enum Tier {
    Quick,
    Thorough,
}

impl Tier {
    pub fn parse(s: &str) -> Option<Tier> {
        match s {
            "quick" => Some(Tier::Quick),
            "thorough" => Some(Tier::Thorough),
            _ => None,
        }
    }
    pub fn name(self) -> &'static str {
        match self {
            Tier::Quick => "quick",
            Tier::Thorough => "thorough",
        }
    }
}

pub trait Prop {
    type Case: Serialize + DeserializeOwned + Clone;
    const ID: &'static str;
    const LEVEL: &'static str;
    /// run every case in the `wrapping` build too
    const BOTH_PROFILES: bool = false;
    /// seconds without a heartbeat before a worker counts as stalled
    const STALL_SECS: u64 = 120;
    /// whether a worker that stops making progress is a violation of *this* property
    /// (C06/C08 speak about panics and memory; a stall there is C07's to report)
    const STALL_IS_VIOLATION: bool = true;
    /// a violation that does not recur when its case is replayed in a fresh process: normally a
    /// harness error (no verdict). For a property that IS about determinism the difference between
    /// the two executions is the violation itself.
    const UNREPRODUCIBLE_IS_VIOLATION: bool = false;
    /// upper bound on concurrently running workers (memory-heavy checks)
    const MAX_WORKERS: usize = 16;
    fn count(tier: Tier) -> u64;
    fn gen(seed: u64, idx: u64, tier: Tier) -> Self::Case;
    fn eval(case: &Self::Case, st: &mut Stats) -> Vec<Violation>;
    /// one-step simplifications of `case`, most aggressive first
    fn shrink_steps(case: &Self::Case) -> Vec<Self::Case>;
    fn rule() -> String;
    fn assumptions() -> Vec<String>;
    /// probes that must be non-zero in any run (a zero is a harness failure, exit 2)
    fn mandatory_probes(_tier: Tier) -> Vec<&'static str> {
        vec![]
    }
    /// extra exhaustive flag for evidence
    fn exhaustive() -> bool {
        false
    }
}

/// Number of cases of a tier. `VERIF_CASES` overrides it (development aid; registered commands
/// never set it, so the explored set stays a function of seed and tier).
pub fn case_count<P: Prop>(tier: Tier) -> u64 {
    match std::env::var("VERIF_CASES").ok().and_then(|v| v.parse::<u64>().ok()) {
        Some(n) => n,
        None => P::count(tier),
    }
}

pub fn verif_root() -> PathBuf {
    // the binary lives in <root>/sim/target/<profile>/mp4sim
    if let Ok(r) = std::env::var("VERIF_ROOT") {
        return PathBuf::from(r);
    }
    let exe = std::env::current_exe().unwrap();
    exe.ancestors().nth(4).map(|p| p.to_path_buf()).unwrap_or_else(|| PathBuf::from("/verif"))
}

pub fn exe_for(profile: &str) -> PathBuf {
    let exe = std::env::current_exe().unwrap();
    // .../target/<cur>/mp4sim -> .../target/<profile>/mp4sim
    let target = exe.parent().unwrap().parent().unwrap();
    target.join(profile).join("mp4sim")
}

pub fn current_profile() -> &'static str {
    if cfg!(debug_assertions) {
        "checked"
    } else {
        "wrapping"
    }
}

// -------------------------------------------------------------------------------------------
// known findings
// -------------------------------------------------------------------------------------------

#[derive(Clone, Debug)]
pub struct Known {
    pub property: String,
    pub sig: String,
    pub what: String,
}

pub fn load_known(root: &Path) -> Vec<Known> {
    let mut v = Vec::new();
    let Ok(text) = std::fs::read_to_string(root.join("known_findings.txt")) else {
        return v;
    };
    for line in text.lines() {
        let line = line.trim();
        // known: property=C14 sig=<signature up to ' :: '> :: <what fails>
        let Some(rest) = line.strip_prefix("known:") else { continue };
        let rest = rest.trim();
        let Some(rest) = rest.strip_prefix("property=") else { continue };
        let Some((prop, rest)) = rest.split_once(' ') else { continue };
        let Some(rest) = rest.trim().strip_prefix("sig=") else { continue };
        let (sig, what) = rest.split_once(" :: ").unwrap_or((rest, ""));
        v.push(Known {
            property: prop.to_string(),
            sig: sig.trim().to_string(),
            what: what.trim().to_string(),
        });
    }
    v
}

pub fn known_match<'a>(known: &'a [Known], v: &Violation) -> Option<&'a Known> {
    let s = v.signature();
    known.iter().find(|k| k.property == v.property && k.sig == s)
}

// -------------------------------------------------------------------------------------------
// worker
// -------------------------------------------------------------------------------------------

#[derive(Serialize, Deserialize)]
struct VLine {
    idx: u64,
    violations: Vec<Violation>,
}

pub fn worker_main<P: Prop>(tier: Tier, seed: u64, shard: u64, of: u64, from: u64) -> i32 {
    let n = case_count::<P>(tier);
    let mut st = Stats::default();
    let out = std::io::stdout();
    let mut run_digest: u64 = 0;
    let mut i = from;
    // align `from` to this shard
    while i % of != shard {
        i += 1;
    }
    let mut sample_budget = 3usize;
    while i < n {
        {
            let mut o = out.lock();
            let _ = writeln!(o, "B {i}");
            let _ = o.flush();
        }
        let cs = case_seed(seed, P::ID, i);
        let case = P::gen(cs, i, tier);
        st.case_digest = 0;
        let vs = P::eval(&case, &mut st);
        st.cases += 1;
        let mut cd = st.case_digest;
        for v in &vs {
            cd = crate::prng::mix(cd, crate::prng::tag(&v.signature()));
        }
        run_digest = run_digest.wrapping_add(splitmix64(i ^ cd.rotate_left(17)));
        if std::env::var("MP4SIM_CASE_DIGESTS").is_ok() {
            eprintln!("CD {i} {cd:016x}");
        }
        if sample_budget > 0 && (i / of) % 97 == 3 {
            let js = serde_json::to_value(&case).unwrap();
            if js.to_string().len() < 6000 {
                st.samples.push(json!({"case_index": i, "case": js}));
                sample_budget -= 1;
            }
        }
        if !vs.is_empty() {
            // the case itself is not sent: the supervisor regenerates it from (seed, index)
            let line = VLine { idx: i, violations: vs };
            let mut o = out.lock();
            let _ = writeln!(o, "V {}", serde_json::to_string(&line).unwrap());
            let _ = o.flush();
        }
        i += of;
    }
    if st.samples.is_empty() && n > 0 {
        // make sure at least one sample exists per worker that ran anything
        let first = {
            let mut k = from;
            while k % of != shard {
                k += 1;
            }
            k
        };
        if first < n {
            let case = P::gen(case_seed(seed, P::ID, first), first, tier);
            let js = serde_json::to_value(&case).unwrap();
            let s = js.to_string();
            if s.len() < 20000 {
                st.samples.push(json!({"case_index": first, "case": js}));
            } else {
                st.samples.push(json!({"case_index": first, "case_json_prefix": s[..2000].to_string()}));
            }
        }
    }
    let mut o = out.lock();
    let _ = writeln!(o, "D {run_digest}");
    let _ = writeln!(o, "S {}", serde_json::to_string(&st).unwrap());
    let _ = o.flush();
    0
}

// -------------------------------------------------------------------------------------------
// one: evaluate a single case given as a replay file (in this process)
// -------------------------------------------------------------------------------------------

#[derive(Serialize, Deserialize, Clone)]
pub struct ReplayFile {
    pub property: String,
    pub seed: u64,
    pub case_index: u64,
    pub tier: String,
    pub profile: String,
    pub signature: String,
    pub violation: Violation,
    pub shrunk: bool,
    pub repo_tree: String,
    pub case: Value,
}

pub fn one_main<P: Prop>(path: &Path) -> i32 {
    let text = match std::fs::read_to_string(path) {
        Ok(t) => t,
        Err(e) => {
            eprintln!("cannot read {path:?}: {e}");
            return 2;
        }
    };
    let rf: ReplayFile = match serde_json::from_str(&text) {
        Ok(r) => r,
        Err(e) => {
            eprintln!("bad replay file: {e}");
            return 2;
        }
    };
    let case: P::Case = match serde_json::from_value(rf.case.clone()) {
        Ok(c) => c,
        Err(e) => {
            eprintln!("bad case in replay file: {e}");
            return 2;
        }
    };
    println!("B 0");
    let _ = std::io::stdout().flush();
    let mut st = Stats::default();
    let vs = P::eval(&case, &mut st);
    println!("R {}", serde_json::to_string(&vs).unwrap());
    0
}

/// Run `one` in a child process and interpret the outcome (also catches process death).
pub fn run_one_child(prop: &str, profile: &str, path: &Path, stall_secs: u64) -> Result<Vec<Violation>, String> {
    let mut child = Command::new(exe_for(profile))
        .args(["one", prop, path.to_str().unwrap()])
        .env("RUST_BACKTRACE", "0")
        .stdout(Stdio::piped())
        .stderr(Stdio::null())
        .spawn()
        .map_err(|e| format!("spawn: {e}"))?;
    let stdout = child.stdout.take().unwrap();
    let (tx, rx) = mpsc::channel::<Option<String>>();
    std::thread::spawn(move || {
        for l in BufReader::new(stdout).lines().map_while(Result::ok) {
            let _ = tx.send(Some(l));
        }
        let _ = tx.send(None);
    });
    // every line counts as a heartbeat (long cases print "H ..." lines while they work)
    let mut last_beat = Instant::now();
    let mut lines = Vec::new();
    loop {
        match rx.recv_timeout(Duration::from_millis(200)) {
            Ok(Some(l)) => {
                last_beat = Instant::now();
                if !l.starts_with("H ") {
                    lines.push(l);
                }
            }
            Ok(None) => break,
            Err(mpsc::RecvTimeoutError::Timeout) => {
                if last_beat.elapsed() > Duration::from_secs(stall_secs) {
                    let top = gdb_top_frame(child.id());
                    let _ = child.kill();
                    let _ = child.wait();
                    return Ok(vec![Violation::new(prop, "process_stall", format!("top={top}"), format!("no result within {stall_secs}s"))]);
                }
            }
            Err(_) => break,
        }
    }
    let status = child.wait().map_err(|e| format!("wait: {e}"))?;
    for l in &lines {
        if let Some(js) = l.strip_prefix("R ") {
            let vs: Vec<Violation> = serde_json::from_str(js).map_err(|e| format!("bad R line: {e}"))?;
            return Ok(vs);
        }
    }
    if let Some(sig) = status.signal() {
        return Ok(vec![Violation::new(prop, "process_death", format!("signal={sig}"), death_text(sig))]);
    }
    Err(format!("child exited with {status:?} without a result"))
}

/// A CPU stall is seen either in-process (confirmed slow call) or by the supervisor (no
/// heartbeat): the two forms name the same violation.
fn is_stall(invariant: &str) -> bool {
    invariant == "cpu_stall" || invariant == "process_stall"
}

fn death_text(sig: i32) -> String {
    match sig {
        6 => "SIGABRT (abort: allocation failure, double panic or explicit abort)".into(),
        11 => "SIGSEGV (stack overflow or memory fault)".into(),
        9 => "SIGKILL (killed, e.g. out of memory)".into(),
        s => format!("signal {s}"),
    }
}

fn gdb_top_frame(pid: u32) -> String {
    let out = Command::new("timeout")
        .args(["20", "gdb", "-batch", "-p", &pid.to_string(), "-ex", "bt 60"])
        .stdout(Stdio::piped())
        .stderr(Stdio::null())
        .output();
    if let Ok(o) = out {
        let s = String::from_utf8_lossy(&o.stdout);
        // frames look like "#3  0x... in mp4::track::Mp4Track::sample_offset (self=...) at src/track.rs:512"
        // (the "at" part may be on a continuation line): take the innermost frame whose source
        // file lies under /repo/src or src/ of the mp4 crate.
        let text: String = s.replace("\n    ", " ");
        for line in text.lines() {
            if !line.starts_with('#') {
                continue;
            }
            let Some(at) = line.rfind(" at ") else { continue };
            let file = line[at + 4..].trim();
            let file = file.split(':').next().unwrap_or(file);
            let rel = if let Some(p) = file.find("/repo/src/") {
                &file[p + "/repo/src/".len()..]
            } else if let Some(r) = file.strip_prefix("src/") {
                // relative path as recorded for the dependency; harness files are under ./src too,
                // so require a name that only the mp4 crate has
                if ["track.rs", "reader.rs", "writer.rs", "types.rs"].contains(&r) || r.starts_with("mp4box/") {
                    r
                } else {
                    continue;
                }
            } else {
                continue;
            };
            // function name: between " in " (or after the frame number) and " ("
            let head = &line[..at];
            let name_part = match head.find(" in ") {
                Some(p) => &head[p + 4..],
                None => head.splitn(2, "  ").nth(1).unwrap_or(head),
            };
            let name_part = name_part.split(" (").next().unwrap_or(name_part);
            let mut name = name_part.trim().to_string();
            if let Some(g) = name.find('<') {
                if g > 0 {
                    name.truncate(g);
                }
            }
            let short = name.rsplit("::").next().unwrap_or(&name).to_string();
            return format!("{rel}::{short}");
        }
    }
    "?".into()
}

// -------------------------------------------------------------------------------------------
// shrink (runs inside a child process of its own)
// -------------------------------------------------------------------------------------------

pub fn shrink_main<P: Prop>(inp: &Path, outp: &Path) -> i32 {
    let Ok(text) = std::fs::read_to_string(inp) else { return 2 };
    let Ok(mut rf) = serde_json::from_str::<ReplayFile>(&text) else { return 2 };
    let Ok(mut cur) = serde_json::from_value::<P::Case>(rf.case.clone()) else { return 2 };
    let want = rf.signature.clone();
    let mut st = Stats::default();
    let start = Instant::now();
    let mut evals = 0u64;
    let reproduces = |c: &P::Case, st: &mut Stats| -> Option<Violation> {
        P::eval(c, st).into_iter().find(|v| v.signature() == want)
    };
    match reproduces(&cur, &mut st) {
        Some(v) => rf.violation = v,
        None => {
            eprintln!("shrink: original case does not reproduce {want}");
            return 3;
        }
    }
    'outer: loop {
        if evals > 4000 || start.elapsed() > Duration::from_secs(90) {
            break;
        }
        for cand in P::shrink_steps(&cur) {
            evals += 1;
            if let Some(v) = reproduces(&cand, &mut st) {
                cur = cand;
                rf.violation = v;
                continue 'outer;
            }
            if evals > 4000 || start.elapsed() > Duration::from_secs(90) {
                break 'outer;
            }
        }
        break;
    }
    rf.case = serde_json::to_value(&cur).unwrap();
    rf.shrunk = true;
    if std::fs::write(outp, serde_json::to_string_pretty(&rf).unwrap()).is_err() {
        return 2;
    }
    0
}

// -------------------------------------------------------------------------------------------
// supervisor
// -------------------------------------------------------------------------------------------

enum Msg {
    Line(usize, String),
    Eof(usize),
}

struct Slot {
    child: Child,
    profile: &'static str,
    shard: u64,
    last_case: Option<u64>,
    last_beat: Instant,
    got_stats: bool,
    done: bool,
    deaths: u32,
}

pub struct Found {
    pub idx: u64,
    pub profile: &'static str,
    pub violation: Violation,
    /// reported by a live worker (true) or inferred from a worker's death / stall (false)
    pub in_process: bool,
}

pub struct RunOutcome {
    pub stats: Stats,
    pub found: Vec<Found>,
    pub run_digest: BTreeMap<&'static str, u64>,
    pub wall_s: f64,
    pub unexplored: u64,
    pub harness_errors: Vec<String>,
}

fn spawn_worker(prop: &str, profile: &'static str, tier: Tier, seed: u64, shard: u64, of: u64, from: u64, slot: usize, tx: &mpsc::Sender<Msg>) -> Result<Child, String> {
    let mut child = Command::new(exe_for(profile))
        .args([
            "worker",
            prop,
            tier.name(),
            &seed.to_string(),
            &shard.to_string(),
            &of.to_string(),
            &from.to_string(),
        ])
        .env("RUST_BACKTRACE", "0")
        .stdout(Stdio::piped())
        .stderr(Stdio::inherit())
        .spawn()
        .map_err(|e| format!("cannot spawn worker {:?}: {e}", exe_for(profile)))?;
    let stdout = child.stdout.take().unwrap();
    let tx = tx.clone();
    std::thread::spawn(move || {
        for l in BufReader::new(stdout).lines().map_while(Result::ok) {
            if tx.send(Msg::Line(slot, l)).is_err() {
                return;
            }
        }
        let _ = tx.send(Msg::Eof(slot));
    });
    Ok(child)
}

pub fn run_all<P: Prop>(tier: Tier, seed: u64, workers: usize) -> RunOutcome {
    let start = Instant::now();
    let n = case_count::<P>(tier);
    let profiles: Vec<&'static str> = if P::BOTH_PROFILES { vec!["checked", "wrapping"] } else { vec!["checked"] };
    let per_profile = std::cmp::max(1, std::cmp::min(workers, P::MAX_WORKERS) / profiles.len());
    let of = per_profile as u64;
    let (tx, rx) = mpsc::channel::<Msg>();
    let mut slots: Vec<Slot> = Vec::new();
    let mut out = RunOutcome {
        stats: Stats::default(),
        found: Vec::new(),
        run_digest: BTreeMap::new(),
        wall_s: 0.0,
        unexplored: 0,
        harness_errors: Vec::new(),
    };
    for p in &profiles {
        out.run_digest.insert(p, 0);
        for shard in 0..of {
            let slot = slots.len();
            match spawn_worker(P::ID, p, tier, seed, shard, of, 0, slot, &tx) {
                Ok(child) => slots.push(Slot {
                    child,
                    profile: p,
                    shard,
                    last_case: None,
                    last_beat: Instant::now(),
                    got_stats: false,
                    done: false,
                    deaths: 0,
                }),
                Err(e) => {
                    out.harness_errors.push(e);
                    return out;
                }
            }
        }
    }
    let mut live = slots.len();
    while live > 0 {
        match rx.recv_timeout(Duration::from_millis(500)) {
            Ok(Msg::Line(s, line)) => {
                let sl = &mut slots[s];
                sl.last_beat = Instant::now();
                if let Some(r) = line.strip_prefix("B ") {
                    sl.last_case = r.trim().parse().ok();
                } else if let Some(r) = line.strip_prefix("V ") {
                    match serde_json::from_str::<VLine>(r) {
                        Ok(v) => {
                            for viol in v.violations {
                                out.found.push(Found {
                                    idx: v.idx,
                                    profile: sl.profile,
                                    violation: viol,
                                    in_process: true,
                                });
                            }
                        }
                        Err(e) => out.harness_errors.push(format!("bad V line: {e}")),
                    }
                } else if let Some(r) = line.strip_prefix("D ") {
                    if let Ok(d) = r.trim().parse::<u64>() {
                        let e = out.run_digest.get_mut(sl.profile).unwrap();
                        *e = e.wrapping_add(d);
                    }
                } else if let Some(r) = line.strip_prefix("S ") {
                    match serde_json::from_str::<Stats>(r) {
                        Ok(st) => {
                            out.stats.merge(&st);
                            sl.got_stats = true;
                        }
                        Err(e) => out.harness_errors.push(format!("bad S line: {e}")),
                    }
                }
            }
            Ok(Msg::Eof(s)) => {
                let status = slots[s].child.wait();
                let sl = &mut slots[s];
                if sl.got_stats {
                    sl.done = true;
                    live -= 1;
                    continue;
                }
                // died mid-case
                let sig = status.as_ref().ok().and_then(|st| st.signal());
                let idx = sl.last_case.unwrap_or(sl.shard);
                let v = match sig {
                    Some(sg) => Violation::new(P::ID, "process_death", format!("signal={sg}"), death_text(sg)),
                    None => Violation::new(
                        P::ID,
                        "process_death",
                        format!("exit={}", status.as_ref().ok().and_then(|s| s.code()).unwrap_or(-1)),
                        "worker exited without reporting".to_string(),
                    ),
                };
                out.found.push(Found { idx, profile: sl.profile, violation: v, in_process: false });
                sl.deaths += 1;
                let next = idx + of;
                if sl.deaths <= 10 && next < n {
                    match spawn_worker(P::ID, sl.profile, tier, seed, sl.shard, of, next, s, &tx) {
                        Ok(c) => {
                            sl.child = c;
                            sl.last_beat = Instant::now();
                            sl.got_stats = false;
                        }
                        Err(e) => {
                            out.harness_errors.push(e);
                            sl.done = true;
                            live -= 1;
                        }
                    }
                } else {
                    if next < n {
                        out.unexplored += (n - next) / of;
                    }
                    sl.done = true;
                    live -= 1;
                }
            }
            Err(mpsc::RecvTimeoutError::Timeout) => {
                for sl in slots.iter_mut() {
                    if !sl.done && sl.last_beat.elapsed() > Duration::from_secs(P::STALL_SECS) {
                        // stalled: look, then kill; the Eof handler restarts the shard
                        let top = gdb_top_frame(sl.child.id());
                        let idx = sl.last_case.unwrap_or(sl.shard);
                        out.found.push(Found {
                            idx,
                            profile: sl.profile,
                            violation: Violation::new(P::ID, "process_stall", format!("top={top}"), format!("no heartbeat for {}s", P::STALL_SECS)),
                            in_process: false,
                        });
                        let _ = sl.child.kill();
                        sl.last_beat = Instant::now();
                    }
                }
            }
            Err(mpsc::RecvTimeoutError::Disconnected) => break,
        }
    }
    // A stall produces both a process_stall and (after kill) a process_death/signal=9 entry for
    // the same case: drop the latter.
    let stalled: Vec<(u64, &'static str)> = out
        .found
        .iter()
        .filter(|f| f.violation.invariant == "process_stall")
        .map(|f| (f.idx, f.profile))
        .collect();
    out.found.retain(|f| !(f.violation.invariant == "process_death" && f.violation.discriminator == "signal=9" && stalled.contains(&(f.idx, f.profile))));
    out.found.sort_by(|a, b| (a.idx, a.profile, a.violation.signature()).cmp(&(b.idx, b.profile, b.violation.signature())));
    out.wall_s = start.elapsed().as_secs_f64();
    out
}

pub fn repo_tree_hash() -> String {
    let o = Command::new("sh")
        .arg("-c")
        .arg("cd /repo && (git rev-parse HEAD; git diff HEAD | sha1sum | cut -c1-12) | tr '\\n' ' '")
        .output();
    match o {
        Ok(o) => String::from_utf8_lossy(&o.stdout).trim().to_string(),
        Err(_) => "?".into(),
    }
}

/// Full check: run, filter known findings, shrink + verify new violations, write evidence.
pub fn check_main<P: Prop>(tier: Tier, seed: u64, workers: usize, extra: Option<&dyn Fn(&mut Value)>) -> i32 {
    let root = verif_root();
    let known = load_known(&root);
    println!("VERIF_SEED={seed} property={} tier={} workers={workers}", P::ID, tier.name());
    let mut outc = run_all::<P>(tier, seed, workers);
    let n = case_count::<P>(tier);
    let profiles = if P::BOTH_PROFILES { 2 } else { 1 };
    let mut exit = 0;
    for e in &outc.harness_errors {
        eprintln!("HARNESS-ERROR: {e}");
        exit = 2;
    }
    let expected = n * profiles;
    if exit == 0 && outc.stats.cases + outc.unexplored != expected && outc.found.iter().all(|f| f.in_process) {
        eprintln!("HARNESS-ERROR: executed {} cases, expected {expected}", outc.stats.cases);
        exit = 2;
    }
    if !P::STALL_IS_VIOLATION {
        let before = outc.found.len();
        for f in outc.found.iter().filter(|f| f.violation.invariant == "process_stall") {
            println!("NOTE: case {} ({}) stalled: {}", f.idx, f.profile, f.violation.discriminator);
        }
        outc.found.retain(|f| f.violation.invariant != "process_stall");
        let dropped = before - outc.found.len();
        if dropped > 0 {
            println!("NOTE: {dropped} case(s) stalled and were skipped; stalls are judged by the C07 check, not by {}", P::ID);
            outc.stats.add("cases_skipped_after_stall", dropped as u64);
        }
    }
    // group by signature
    let mut by_sig: BTreeMap<String, Vec<usize>> = BTreeMap::new();
    for (i, f) in outc.found.iter().enumerate() {
        by_sig.entry(f.violation.signature()).or_default().push(i);
    }
    let mut known_met: Vec<String> = Vec::new();
    let mut reported = 0;
    let mut unrepro_varying = 0u32;
    let mut new_sigs = 0;
    let tree = repo_tree_hash();
    let replays = root.join("replays");
    let _ = std::fs::create_dir_all(&replays);
    for (sig, idxs) in by_sig.iter() {
        let f = &outc.found[idxs[0]];
        if let Some(k) = known_match(&known, &f.violation) {
            println!("KNOWN-FINDING: property={} {} [{}] ({} cases)", P::ID, k.what, sig, idxs.len());
            known_met.push(sig.clone());
            continue;
        }
        new_sigs += 1;
        if reported >= 5 {
            continue;
        }
        // write replay file (unshrunk), shrink in a child, verify in a child
        let case_val = {
            let cs = case_seed(seed, P::ID, f.idx);
            serde_json::to_value(P::gen(cs, f.idx, tier)).unwrap()
        };
        let rf = ReplayFile {
            property: P::ID.to_string(),
            seed,
            case_index: f.idx,
            tier: tier.name().to_string(),
            profile: f.profile.to_string(),
            signature: sig.clone(),
            violation: f.violation.clone(),
            shrunk: false,
            repo_tree: tree.clone(),
            case: case_val,
        };
        let base = format!("{}-{}-{}-{:016x}", P::ID, seed, f.idx, crate::prng::tag(sig));
        let raw_path = replays.join(format!("{base}.raw.json"));
        let final_path = replays.join(format!("{base}.json"));
        if std::fs::write(&raw_path, serde_json::to_string_pretty(&rf).unwrap()).is_err() {
            eprintln!("HARNESS-ERROR: cannot write {raw_path:?}");
            exit = 2;
            continue;
        }
        let process_level = f.violation.invariant.starts_with("process_");
        let mut use_path = raw_path.clone();
        if !process_level {
            let st = Command::new(exe_for(f.profile))
                .args(["shrink", P::ID, raw_path.to_str().unwrap(), final_path.to_str().unwrap()])
                .stdout(Stdio::null())
                .status();
            if matches!(st, Ok(s) if s.success()) {
                use_path = final_path.clone();
                let _ = std::fs::remove_file(&raw_path);
            }
        }
        // verify the replay reproduces (twice for process-level outcomes)
        let stall_kind = is_stall(&f.violation.invariant);
        // for a property about determinism a result that varies between executions is the
        // violation: its replay is given six executions and must recur in at least one
        let varies_ok = P::UNREPRODUCIBLE_IS_VIOLATION && !stall_kind && !process_level;
        let tries = if stall_kind { 3 } else if process_level { 2 } else if varies_ok { 6 } else { 1 };
        let mut ok = true;
        let mut stall_seen = false;
        let mut recurred = 0u32;
        for _ in 0..tries {
            if stall_kind && stall_seen {
                break;
            }
            match run_one_child(P::ID, f.profile, &use_path, P::STALL_SECS.max(30)) {
                Ok(vs) => {
                    let same = vs.iter().any(|v| {
                        v.signature() == *sig
                            || (process_level && v.invariant == f.violation.invariant)
                            || (is_stall(&f.violation.invariant) && is_stall(&v.invariant))
                    });
                    if same && stall_kind {
                        stall_seen = true;
                    }
                    if same {
                        recurred += 1;
                    }
                    if !same && !stall_kind && !varies_ok {
                        ok = false;
                    }
                }
                Err(e) => {
                    eprintln!("HARNESS-ERROR: replay of {use_path:?}: {e}");
                    ok = false;
                }
            }
        }
        // a stall is a physical observation (CPU time over a threshold): the case replays
        // exactly, the threshold crossing is given three chances
        if stall_kind && !stall_seen {
            ok = false;
        }
        if varies_ok {
            ok = ok && recurred > 0;
            if ok && recurred < tries {
                println!("NOTE: the replay below recurred in {recurred} of {tries} executions: the library's result varies between executions of the same case");
            }
        }
        if ok {
            println!("VIOLATION property={} replay={}", P::ID, use_path.display());
            println!("  signature: {sig}");
            println!("  detail: {}", f.violation.detail);
            println!("  cases with this signature: {} (first index {}, profile {})", idxs.len(), f.idx, f.profile);
            reported += 1;
            if exit == 0 {
                exit = 1;
            }
        } else if sig == "process_death/signal=9" {
            // SIGKILL never comes from the library: it is the supervisor's own kill after a stall
            // or the kernel's out-of-memory killer on an overloaded machine. Alone it gives no
            // verdict; it does not void violations that did reproduce.
            println!("NOTE: a worker was killed (signal 9) at case {} and the case does not kill it again: machine overload, not a property of the case", f.idx);
            unrepro_varying += 1;
        } else if stall_kind {
            // a CPU-time threshold that was crossed once and not again in three replays (a case
            // near the threshold on a loaded machine): alone it gives no verdict, but it does
            // not void the violations of this run that did reproduce
            println!("NOTE: {sig} at case {} was not slow again in {tries} executions of {use_path:?}", f.idx);
            unrepro_varying += 1;
        } else if varies_ok {
            // no verdict from this one alone; it only counts against the run if nothing else
            // is reported (see below)
            println!("NOTE: {sig} at case {} did not recur in {tries} executions of {use_path:?}", f.idx);
            unrepro_varying += 1;
        } else {
            eprintln!("HARNESS-ERROR: violation {sig} at case {} did not reproduce from {use_path:?}", f.idx);
            exit = 2;
        }
    }
    if unrepro_varying > 0 && reported == 0 {
        eprintln!("HARNESS-ERROR: {unrepro_varying} violation(s) did not recur when replayed and nothing else was reported");
        exit = 2;
    }
    if !by_sig.is_empty() {
        println!("signature summary:");
        for (sig, idxs) in by_sig.iter() {
            println!("  {:>8} x {}  (first case {})", idxs.len(), sig, outc.found[idxs[0]].idx);
        }
    }
    if new_sigs > reported && reported > 0 {
        println!("({} further distinct violation signatures not minimised)", new_sigs - reported);
    }
    // mandatory probes
    for p in P::mandatory_probes(tier) {
        if outc.stats.get(p) == 0 {
            eprintln!("HARNESS-ERROR: mandatory reach probe '{p}' stayed at zero");
            if exit == 0 {
                exit = 2;
            }
        }
    }
    // reach guard: seed images that are valid by construction (everything except the grammar-built
    // ones) must open; if more than 1 % of the cases lost their image that way the run explored
    // far less than it claims and gives no verdict (a library change that makes good files
    // unreadable is C01's / C11's to report; here it must not pass as "nothing found")
    let lost: u64 = outc.stats.counters.iter().filter(|(k, _)| k.starts_with("image_does_not_open.") && !k.ends_with(".grammar")).map(|(_, v)| *v).sum();
    if lost * 100 > outc.stats.cases.max(1) {
        eprintln!("HARNESS-ERROR: {lost} of {} cases lost their by-construction-valid image (it did not open): reach collapsed", outc.stats.cases);
        if exit == 0 {
            exit = 2;
        }
    }
    let (sess, sess_open) = (outc.stats.get("reach.sessions"), outc.stats.get("reach.sessions_opened"));
    if sess >= 1000 && sess_open * 10 < sess {
        eprintln!("HARNESS-ERROR: only {sess_open} of {sess} corrupted images still opened (normally about half): reach collapsed");
        if exit == 0 {
            exit = 2;
        }
    }
    // evidence
    let wall = outc.wall_s;
    let st = &mut outc.stats;
    let mut distinct = st.distinct.len() as u64;
    if distinct < 2 && st.cases >= 2 {
        // measure could not distinguish cases: report conservatively but truthfully
        distinct = st.distinct.len() as u64;
    }
    let sets: BTreeMap<String, u64> = st.sets.iter().map(|(k, v)| (k.clone(), v.len() as u64)).collect();
    let mut faults: BTreeMap<String, u64> = BTreeMap::new();
    let mut probes: BTreeMap<String, u64> = BTreeMap::new();
    let mut other: BTreeMap<String, u64> = BTreeMap::new();
    for (k, v) in &st.counters {
        if let Some(r) = k.strip_prefix("fault.") {
            faults.insert(r.to_string(), *v);
        } else if let Some(r) = k.strip_prefix("probe.") {
            probes.insert(r.to_string(), *v);
        } else {
            other.insert(k.clone(), *v);
        }
    }
    let evaluations = if st.evaluations_override > 0 { st.evaluations_override } else { st.cases };
    let mut cov = json!({
        "evaluations": evaluations,
        "scenarios": st.cases,
        "distinct_nontrivial": distinct,
        "rule": P::rule(),
        "samples": st.samples,
        "exhaustive": P::exhaustive(),
        "cases_planned": expected,
        "cases_unexplored_after_worker_deaths": outc.unexplored,
        "runs_per_hour": if wall > 0.0 { (st.cases as f64 / wall * 3600.0) as u64 } else { 0 },
        "seeds": {"base_seed": seed, "case_index_range": [0, n], "derivation": "case_seed = splitmix64(splitmix64(base ^ fnv1a(property)) ^ index*K)"},
        "sim_steps": st.sim_steps,
        "sim_steps_note": "stream calls simulated; this library has no clock, so simulated time is the global stream-call sequence number",
        "sim_bytes_moved": st.sim_bytes,
        "faults_fired": faults,
        "probes": probes,
        "counters": other,
        "distinct_sets": sets,
        "maxima": st.maxima,
        "profiles": if P::BOTH_PROFILES { json!(["checked","wrapping"]) } else { json!(["checked"]) },
        "run_digest": outc.run_digest.iter().map(|(k,v)| (k.to_string(), json!(format!("{v:016x}")))).collect::<BTreeMap<_,_>>(),
        "known_findings_met": known_met,
        "components": components(),
        "repo_tree": tree,
    });
    if let Some(f) = extra {
        f(&mut cov);
    }
    let ev = json!({
        "property_id": P::ID,
        "tier": tier.name(),
        "seed": seed,
        "level": P::LEVEL,
        "coverage": cov,
        "assumptions": P::assumptions(),
        "wall_s": (wall * 1000.0).round() / 1000.0,
        "violations": new_sigs,
    });
    let evdir = root.join("evidence");
    let _ = std::fs::create_dir_all(&evdir);
    let evp = evdir.join(format!("{}.json", P::ID));
    if let Err(e) = std::fs::write(&evp, serde_json::to_string_pretty(&ev).unwrap()) {
        eprintln!("HARNESS-ERROR: cannot write evidence {evp:?}: {e}");
        exit = 2;
    }
    println!(
        "{} {}: {} cases, {} distinct, {} new violation signature(s), {} known, {:.1}s, exit {}",
        P::ID,
        tier.name(),
        st.cases,
        distinct,
        new_sigs,
        known_met.len(),
        wall,
        exit
    );
    exit
}

pub fn components() -> Value {
    json!({
        "real": ["mp4::Mp4Writer + Mp4TrackWriter + all WriteBox impls (unmodified /repo)", "mp4::Mp4Reader + Mp4Track + all ReadBox impls + accessors + to_json/summary (unmodified /repo)", "byteorder, bytes, std::io::{read_exact, write_all}"],
        "simulated": ["storage: SimDisk/SimFile (sparse extents, per-call fault plan, event log)", "recorder and player clients (seeded API schedules)", "process supervisor (worker death / stall detection)"],
        "instrumented_real": ["allocator: std::alloc::System behind a counting GlobalAlloc"],
        "stub_oracles": ["reference movie model (vectors)", "independent ISO-BMFF parser `indep`"],
        "stub_workload": ["seed-image packager (fragmented / relocated / metadata images); canned files read from /repo/tests/samples at run time"]
    })
}

/// replay <file>: dispatches on the property stored in the file; prints VIOLATION if it reproduces.
pub fn replay_main(path: &Path) -> i32 {
    let Ok(text) = std::fs::read_to_string(path) else {
        eprintln!("cannot read {path:?}");
        return 2;
    };
    let Ok(rf) = serde_json::from_str::<ReplayFile>(&text) else {
        eprintln!("not a replay file: {path:?}");
        return 2;
    };
    match run_one_child(&rf.property, &rf.profile, path, 120) {
        Ok(vs) => {
            let process_level = rf.violation.invariant.starts_with("process_");
            let hit = vs.iter().find(|v| {
                v.signature() == rf.signature
                    || (process_level && v.invariant == rf.violation.invariant)
                    || (is_stall(&rf.violation.invariant) && is_stall(&v.invariant))
            });
            for v in &vs {
                println!("  observed: {} :: {}", v.signature(), v.detail);
            }
            if let Some(v) = hit {
                println!("VIOLATION property={} replay={}", rf.property, path.display());
                println!("  signature: {}", v.signature());
                1
            } else {
                println!("replay of {} did not reproduce {} on this tree", path.display(), rf.signature);
                0
            }
        }
        Err(e) => {
            eprintln!("HARNESS-ERROR: {e}");
            2
        }
    }
}

/// Determinism proof for one property: the same (seed, case set) executed twice at each of
/// several worker counts, in separate processes, must give identical run digests (per-case
/// event-log digests + verdicts folded order-independently) and identical violation lists.
pub fn selfcheck_main<P: Prop>(cases: u64, seed: u64) -> i32 {
    std::env::set_var("VERIF_CASES", cases.to_string());
    let mut reference: Option<(BTreeMap<&'static str, u64>, Vec<String>, u64)> = None;
    let mut ok = true;
    for w in [16usize, 5, 1, 16] {
        let out = run_all::<P>(Tier::Quick, seed, w);
        if !out.harness_errors.is_empty() {
            for e in &out.harness_errors {
                eprintln!("HARNESS-ERROR: {e}");
            }
            return 2;
        }
        let sigs: Vec<String> = out.found.iter().map(|f| format!("{}:{}:{}", f.idx, f.profile, f.violation.signature())).collect();
        println!(
            "selfcheck {} seed={seed} workers={w}: cases={} digest={:?} violations={} wall={:.1}s",
            P::ID,
            out.stats.cases,
            out.run_digest.iter().map(|(k, v)| format!("{k}:{v:016x}")).collect::<Vec<_>>(),
            sigs.len(),
            out.wall_s
        );
        match &reference {
            None => reference = Some((out.run_digest.clone(), sigs, out.stats.cases)),
            Some((d, s, c)) => {
                if *d != out.run_digest || *s != sigs || *c != out.stats.cases {
                    eprintln!("HARNESS-ERROR: nondeterminism in {}: run with {w} workers differs from the reference run", P::ID);
                    ok = false;
                }
            }
        }
    }
    if ok {
        println!("selfcheck {}: deterministic over 4 runs (worker counts 16, 5, 1, 16), {} cases each", P::ID, cases);
        0
    } else {
        2
    }
}
