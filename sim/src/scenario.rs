//! Scenario values: everything a run does is an explicit, serialisable value (so that it can be
//! shrunk and replayed), generated from one PRNG stream in a fixed order.

use crate::prng::Rng;
use crate::simdisk::Chunking;
use serde::{Deserialize, Serialize};

#[derive(Clone, Copy, Debug, PartialEq, Eq, Hash, Serialize, Deserialize, PartialOrd, Ord)]
pub enum Kind {
    Avc,
    Hevc,
    Vp9,
    Aac,
    Ttxt,
}

impl Kind {
    pub const ALL: [Kind; 5] = [Kind::Avc, Kind::Hevc, Kind::Vp9, Kind::Aac, Kind::Ttxt];
    pub fn name(self) -> &'static str {
        match self {
            Kind::Avc => "AVC",
            Kind::Hevc => "HEVC",
            Kind::Vp9 => "VP9",
            Kind::Aac => "AAC",
            Kind::Ttxt => "TTXT",
        }
    }
    /// 0 video, 1 audio, 2 subtitle — the track type that goes with this kind
    pub fn natural_track_type(self) -> u8 {
        match self {
            Kind::Avc | Kind::Hevc | Kind::Vp9 => 0,
            Kind::Aac => 1,
            Kind::Ttxt => 2,
        }
    }
}

#[derive(Clone, Debug, PartialEq, Eq, Serialize, Deserialize)]
pub struct MovieCfg {
    pub major: [u8; 4],
    pub minor: u32,
    pub compat: Vec<[u8; 4]>,
    pub timescale: u32,
}

#[derive(Clone, Debug, PartialEq, Eq, Serialize, Deserialize)]
pub struct TrackCfg {
    pub kind: Kind,
    /// 0 video, 1 audio, 2 subtitle
    pub track_type: u8,
    pub timescale: u32,
    pub language: String,
    pub width: u16,
    pub height: u16,
    pub sps: Vec<u8>,
    pub pps: Vec<u8>,
    /// raw AudioObjectType value
    pub aac_profile: u8,
    /// raw SampleFreqIndex value
    pub freq_index: u8,
    /// raw ChannelConfig value
    pub chan_conf: u8,
    pub bitrate: u32,
}

#[derive(Clone, Debug, PartialEq, Eq, Serialize, Deserialize)]
pub enum Payload {
    /// `len` pseudo-random bytes derived from `tag` (unique per written sample)
    Stamp { len: u32, tag: u32 },
    /// `len` copies of `byte` (for the >4 GiB family; shared, never materialised on disk)
    Fill { byte: u8, len: u64 },
}

impl Payload {
    pub fn len(&self) -> u64 {
        match self {
            Payload::Stamp { len, .. } => *len as u64,
            Payload::Fill { len, .. } => *len,
        }
    }
    pub fn materialise(&self) -> Vec<u8> {
        match self {
            Payload::Stamp { len, tag } => stamp_bytes(*tag, *len as usize),
            Payload::Fill { byte, len } => vec![*byte; *len as usize],
        }
    }
    /// Compare with bytes read back without materialising big fills twice.
    pub fn matches(&self, got: &[u8]) -> bool {
        match self {
            Payload::Stamp { len, tag } => {
                got.len() == *len as usize && got == &stamp_bytes(*tag, *len as usize)[..]
            }
            Payload::Fill { byte, len } => {
                got.len() as u64 == *len && got.iter().all(|b| b == byte)
            }
        }
    }
}

pub fn stamp_bytes(tag: u32, len: usize) -> Vec<u8> {
    let mut v = vec![0u8; len];
    let mut r = Rng::new(0x7A6_0000_0000 ^ tag as u64);
    r.fill(&mut v);
    // first bytes carry the tag itself when there is room: eases reading replay dumps
    if len >= 4 {
        v[..4].copy_from_slice(&tag.to_be_bytes());
    }
    v
}

#[derive(Clone, Debug, PartialEq, Eq, Serialize, Deserialize)]
pub struct SampleW {
    pub payload: Payload,
    pub duration: u32,
    pub offset: i32,
    pub sync: bool,
    /// `Mp4Sample::start_time` handed to the muxer; the muxer must ignore it
    pub start_time: u64,
}

#[derive(Clone, Debug, PartialEq, Eq, Serialize, Deserialize)]
pub enum Op {
    AddTrack(TrackCfg),
    Write { track_id: u32, s: SampleW },
    End,
}

#[derive(Clone, Debug, PartialEq, Eq, Serialize, Deserialize)]
pub struct IoKnobs {
    pub chunking: Chunking,
    pub intr_ppm: u32,
    pub io_seed: u64,
}

impl IoKnobs {
    pub fn plain() -> Self {
        IoKnobs {
            chunking: Chunking::Full,
            intr_ppm: 0,
            io_seed: 0,
        }
    }
    pub fn gen(r: &mut Rng) -> Self {
        let io_seed = r.next_u64();
        let chunking = match r.below(10) {
            0..=4 => Chunking::Full,
            5 => Chunking::Max(1),
            6 => Chunking::Max(*r.pick(&[2u32, 3, 7])),
            7 => Chunking::Max(1 + r.below(64) as u32),
            _ => Chunking::Random(io_seed),
        };
        let intr_ppm = match r.below(6) {
            0 => 50_000,
            1 => 300_000,
            _ => 0,
        };
        IoKnobs {
            chunking,
            intr_ppm,
            io_seed,
        }
    }
}

#[derive(Clone, Debug, PartialEq, Eq, Serialize, Deserialize)]
pub struct MuxScenario {
    pub cfg: MovieCfg,
    pub ops: Vec<Op>,
    /// stream position at which the muxer starts writing
    pub start_pos: u64,
    pub io: IoKnobs,
    /// the sink already holds this many bytes (an older, possibly longer file that is being
    /// overwritten in place); 0 = empty sink
    #[serde(default)]
    pub preexisting: u64,
    /// one transient hard fault of the sink while muxing: (stream-call sequence number, fault).
    /// The call it hits must fail as a whole (a rejected call leaves no trace); later calls work.
    #[serde(default)]
    pub fault: Option<(u64, crate::simdisk::Fault)>,
    /// length of the outage in consecutive stream calls (0 and 1 both mean a single call)
    #[serde(default)]
    pub fault_len: u8,
    /// aim the fault at the n-th stream call of API call `.0` (1 = first call after write_start)
    /// instead of a global stream-call number
    #[serde(default)]
    pub fault_api: Option<(u32, u64)>,
}

// -------------------------------------------------------------------------------------------
// Generation (swarm): knobs first, then the history.
// -------------------------------------------------------------------------------------------

#[derive(Clone, Debug)]
pub struct GenOpts {
    /// documented-valid domain only (C01/C02/C14) vs. the full value range (C17)
    pub hostile: bool,
    pub max_tracks: u32,
    /// upper bound for the "long" class of histories
    pub long_ops: u32,
    /// allow a few large samples (64 KiB .. 1 MiB)
    pub big_samples: bool,
    /// restrict arbitrary config values (C14 draws them, C01 keeps defaults mostly)
    pub rich_config: bool,
}

impl GenOpts {
    pub fn valid() -> Self {
        GenOpts {
            hostile: false,
            max_tracks: 6,
            long_ops: 400,
            big_samples: true,
            rich_config: true,
        }
    }
    pub fn hostile() -> Self {
        GenOpts {
            hostile: true,
            max_tracks: 4,
            long_ops: 120,
            big_samples: true,
            rich_config: true,
        }
    }
}

pub const TIMESCALES: [u32; 7] = [1, 24, 1000, 30000, 90000, 1 << 31, u32::MAX];

fn gen_timescale(r: &mut Rng, hostile: bool) -> u32 {
    if hostile && r.chance(1, 8) {
        return 0;
    }
    match r.below(10) {
        0..=6 => TIMESCALES[r.usize_below(7)],
        7 => 1 + r.below(100_000) as u32,
        8 => 1000,
        _ => r.next_u32().max(1),
    }
}

fn gen_fourcc(r: &mut Rng, rich: bool) -> [u8; 4] {
    if !rich || r.chance(1, 2) {
        *r.pick(&[*b"isom", *b"iso2", *b"avc1", *b"mp41", *b"mp42", *b"dash", *b"M4V "])
    } else {
        let mut b = [0u8; 4];
        r.fill(&mut b);
        b
    }
}

pub fn gen_movie_cfg(r: &mut Rng, o: &GenOpts) -> MovieCfg {
    let major = gen_fourcc(r, o.rich_config);
    let minor = if r.chance(1, 2) { 512 } else { r.next_u32() };
    let nb = if o.hostile && r.chance(1, 50) {
        300
    } else {
        r.below(9) as usize
    };
    let compat = (0..nb).map(|_| gen_fourcc(r, o.rich_config)).collect();
    let timescale = gen_timescale(r, o.hostile);
    MovieCfg {
        major,
        minor,
        compat,
        timescale,
    }
}

pub const VALID_AOT: [u8; 42] = [
    1, 2, 3, 4, 5, 6, 7, 8, 9, 12, 13, 14, 15, 16, 17, 19, 20, 21, 22, 23, 24, 25, 26, 27, 28, 29,
    30, 32, 33, 34, 35, 36, 37, 38, 39, 40, 41, 42, 43, 44, 45, 46,
];

fn gen_language(r: &mut Rng, hostile: bool) -> String {
    if hostile && r.chance(1, 3) {
        return match r.below(8) {
            0 => String::new(),
            1 => "e".into(),
            2 => "en".into(),
            3 => "ENG".into(),
            4 => "english!".into(),
            5 => "\u{e9}\u{e8}\u{ea}".into(),
            6 => "\u{1F600}\u{1F600}\u{1F600}".into(),
            _ => "a\u{0}b".into(),
        };
    }
    if r.chance(1, 3) {
        return "und".into();
    }
    (0..3).map(|_| (b'a' + r.below(26) as u8) as char).collect()
}

pub fn gen_track_cfg(r: &mut Rng, o: &GenOpts, kinds: &[Kind]) -> TrackCfg {
    let kind = *r.pick(kinds);
    let track_type = if o.hostile && r.chance(1, 6) {
        r.below(3) as u8
    } else {
        kind.natural_track_type()
    };
    let timescale = gen_timescale(r, o.hostile);
    let language = gen_language(r, o.hostile);
    let (width, height) = match r.below(4) {
        0 => (1920, 1080),
        1 => (0, 0),
        2 => (u16::MAX, u16::MAX),
        _ => (r.below(65536) as u16, r.below(65536) as u16),
    };
    let ps_len = |r: &mut Rng| -> usize {
        if o.hostile && r.chance(1, 4) {
            match r.below(3) {
                0 => r.below(4) as usize,
                1 => r.below(9) as usize,
                _ => 65_536 + r.below(200) as usize,
            }
        } else {
            4 + r.below(61) as usize
        }
    };
    let n = ps_len(r);
    let mut sps = vec![0u8; n];
    r.fill(&mut sps);
    let n = if o.hostile { ps_len(r) } else { r.below(65) as usize };
    let mut pps = vec![0u8; n];
    r.fill(&mut pps);
    // structured parameter sets: byte patterns that mean something to bitstream tooling
    // (Annex B start codes, emulation-prevention runs, all-zero / all-one sets)
    for ps in [&mut sps, &mut pps] {
        if r.chance(1, 6) && !ps.is_empty() {
            let pat: &[u8] = match r.below(6) {
                0 => &[0, 0, 0, 1],
                1 => &[0, 0, 1],
                2 => &[0, 0, 3],
                3 => &[0, 0, 0, 0, 1],
                4 => &[0xFF, 0xFF, 0xFF, 0xFF],
                _ => &[0, 0, 0, 0],
            };
            let at = if r.chance(3, 4) { 0 } else { r.usize_below(ps.len()) };
            for (i, b) in pat.iter().enumerate() {
                if at + i < ps.len() {
                    ps[at + i] = *b;
                }
            }
        }
    }
    let aac_profile = *r.pick(&VALID_AOT);
    let freq_index = r.below(13) as u8;
    let chan_conf = 1 + r.below(7) as u8;
    let bitrate = match r.below(3) {
        0 => 0,
        1 => 128_000,
        _ => r.next_u32(),
    };
    // one configuration in eight is exactly what the library's `From<…Config>` shortcuts give
    // (mux::to_track_config then goes through them)
    let (track_type, timescale, language) = if r.chance(1, 8) {
        (kind.natural_track_type(), 1000, String::from("und"))
    } else {
        (track_type, timescale, language)
    };
    TrackCfg {
        kind,
        track_type,
        timescale,
        language,
        width,
        height,
        sps,
        pps,
        aac_profile,
        freq_index,
        chan_conf,
        bitrate,
    }
}

#[derive(Clone, Copy, Debug)]
enum SizeLaw {
    AllZero,
    AllEqual(u32),
    EqualThenOne(u32, u32),
    TinyMix,
    Upto4k,
    WithBig,
    /// 0.7 - 1.6 MB each: with durations well below a second a single chunk grows past
    /// 4, 8, 16 MiB ("fat chunk" histories only)
    Fat,
}
#[derive(Clone, Copy, Debug)]
enum DurLaw {
    Zero,
    One,
    Const(u32),
    Alt(u32, u32),
    GeTimescale,
    LtTimescale,
    BoundaryPm1,
    Near32,
    Uniform,
}
#[derive(Clone, Copy, Debug)]
enum OffLaw {
    AllZero,
    LateNonZero(u32),
    Runs,
    SmallPm,
    Extremes,
    Uniform,
}
#[derive(Clone, Copy, Debug)]
enum SyncLaw {
    All,
    None,
    FirstOnly,
    Periodic(u32),
    Random,
    LateFirst(u32),
}
#[derive(Clone, Copy, Debug)]
enum Interleave {
    RoundRobin,
    Bursts,
    Starved,
    Random,
}

struct TrackLaws {
    size: SizeLaw,
    dur: DurLaw,
    off: OffLaw,
    sync: SyncLaw,
    timescale: u32,
    written: u32,
    run_off: i32,
    run_left: u32,
}

fn gen_laws(r: &mut Rng, timescale: u32, o: &GenOpts) -> TrackLaws {
    let size = match r.below(if o.big_samples { 12 } else { 11 }) {
        0 => SizeLaw::AllZero,
        1 | 2 => SizeLaw::AllEqual(1 + r.below(300) as u32),
        3 | 4 => SizeLaw::EqualThenOne(1 + r.below(64) as u32, r.below(5) as u32),
        5 | 6 | 7 => SizeLaw::TinyMix,
        8 | 9 | 10 => SizeLaw::Upto4k,
        _ => SizeLaw::WithBig,
    };
    let dur = match r.below(12) {
        0 => DurLaw::Zero,
        1 => DurLaw::One,
        2 | 3 => DurLaw::Const(r.edgy_u32()),
        4 => DurLaw::Alt(r.edgy_u32(), r.edgy_u32()),
        5 | 6 => DurLaw::GeTimescale,
        7 | 8 => DurLaw::LtTimescale,
        9 => DurLaw::BoundaryPm1,
        10 => DurLaw::Near32,
        _ => DurLaw::Uniform,
    };
    let off = match r.below(9) {
        0 | 1 | 2 => OffLaw::AllZero,
        3 | 4 => OffLaw::LateNonZero(r.below(6) as u32),
        5 => OffLaw::Runs,
        6 => OffLaw::SmallPm,
        7 => OffLaw::Extremes,
        _ => OffLaw::Uniform,
    };
    let sync = match r.below(9) {
        0 | 1 => SyncLaw::All,
        2 | 3 => SyncLaw::None,
        4 => SyncLaw::FirstOnly,
        5 => SyncLaw::Periodic(1 + r.below(5) as u32),
        6 | 7 => SyncLaw::Random,
        _ => SyncLaw::LateFirst(1 + r.below(4) as u32),
    };
    TrackLaws {
        size,
        dur,
        off,
        sync,
        timescale,
        written: 0,
        run_off: 0,
        run_left: 0,
    }
}

fn gen_sample(r: &mut Rng, l: &mut TrackLaws, tag: u32, hostile: bool) -> SampleW {
    let k = l.written;
    let len: u32 = match l.size {
        SizeLaw::AllZero => 0,
        SizeLaw::AllEqual(n) => n,
        SizeLaw::EqualThenOne(n, at) => {
            if k == at + 1 {
                if r.chance(1, 3) {
                    0
                } else {
                    n + 1 + r.below(3) as u32
                }
            } else {
                n
            }
        }
        SizeLaw::TinyMix => *r.pick(&[0u32, 0, 1, 1, 2, 3, 5, 8, 13]),
        SizeLaw::Upto4k => r.below(4097) as u32,
        SizeLaw::Fat => 700_000 + r.below(900_000) as u32,
        SizeLaw::WithBig => {
            if r.chance(1, 6) {
                65_536 + r.below(1_000_000 - 65_536) as u32
            } else {
                r.below(2000) as u32
            }
        }
    };
    let ts = l.timescale.max(1);
    let duration: u32 = match l.dur {
        DurLaw::Zero => 0,
        DurLaw::One => 1,
        DurLaw::Const(d) => d,
        DurLaw::Alt(a, b) => {
            if k % 2 == 0 {
                a
            } else {
                b
            }
        }
        DurLaw::GeTimescale => ts.saturating_add(r.below(3) as u32),
        DurLaw::LtTimescale => {
            let div = *r.pick(&[2u32, 3, 4, 10, 25, 30, 100]);
            (ts / div).max(if ts > 1 { 1 } else { 0 })
        }
        DurLaw::BoundaryPm1 => match r.below(3) {
            0 => ts.saturating_sub(1),
            1 => ts,
            _ => ts.saturating_add(1),
        },
        DurLaw::Near32 => u32::MAX - r.below(3) as u32,
        DurLaw::Uniform => r.next_u32(),
    };
    let offset: i32 = match l.off {
        OffLaw::AllZero => 0,
        OffLaw::LateNonZero(at) => {
            if k < at {
                0
            } else if k == at {
                1 + r.below(1000) as i32
            } else {
                *r.pick(&[0i32, 0, 1, 2, -1, 1000])
            }
        }
        OffLaw::Runs => {
            if l.run_left == 0 {
                l.run_left = 1 + r.below(4) as u32;
                l.run_off = *r.pick(&[0i32, 0, 3, -3, 512, 1001]);
            }
            l.run_left -= 1;
            l.run_off
        }
        OffLaw::SmallPm => r.below(7) as i32 - 3,
        OffLaw::Extremes => *r.pick(&[i32::MIN, i32::MAX, 0, -1, 1, i32::MIN + 1]),
        OffLaw::Uniform => r.next_u32() as i32,
    };
    let sync = match l.sync {
        SyncLaw::All => true,
        SyncLaw::None => false,
        SyncLaw::FirstOnly => k == 0,
        SyncLaw::Periodic(p) => k % p == 0,
        SyncLaw::Random => r.chance(1, 2),
        SyncLaw::LateFirst(at) => k >= at && r.chance(2, 3),
    };
    let start_time = if r.chance(1, 2) { 0 } else { r.next_u64() };
    l.written += 1;
    let _ = hostile;
    SampleW {
        payload: Payload::Stamp { len, tag },
        duration,
        offset,
        sync,
        start_time,
    }
}

/// Generate one muxing history. `kinds` restricts the media kinds (swarm knob).
/// Insert an add_track call that the muxer rejects (zero timescale, parameter sets that are too
/// short or too long) in front of an accepted one: it must leave no trace - the tracks added
/// after it keep the ids 1..n in the order added.
pub fn inject_rejected_add_track(sc: &mut MuxScenario, r: &mut Rng) {
    let n_add = sc.track_count();
    if n_add > 0 {
        let at = sc.ops.iter().position(|op| matches!(op, Op::AddTrack(_))).unwrap_or(0) + if r.chance(1, 2) { 0 } else { 1 };
        if let Some(Op::AddTrack(t)) = sc.ops.iter().find(|op| matches!(op, Op::AddTrack(_))) {
            let mut bad = t.clone();
            match r.below(3) {
                0 => bad.timescale = 0,
                1 => {
                    bad.kind = Kind::Avc;
                    bad.sps = vec![0x67; r.below(4) as usize];
                }
                _ => {
                    bad.kind = Kind::Avc;
                    bad.pps = vec![0x68; 70_000];
                }
            }
            let at = at.min(sc.ops.len() - 1);
            // insert only in front of tracks (ids written to must stay those of accepted tracks)
            if matches!(sc.ops.get(at), Some(Op::AddTrack(_))) || at == 0 {
                sc.ops.insert(at, Op::AddTrack(bad));
                // a fault aimed at a stream call of write_end follows that call
                if let Some((api, nth)) = sc.fault_api {
                    sc.fault_api = Some((api + 1, nth));
                }
            }
        }
    }
}

/// What a caller does when write_end fails because the sink failed: perhaps a few more samples,
/// then write_end again. Only executed if the first write_end did fail (the history ends with
/// the first write_end that succeeds).
pub fn append_retry_tail(sc: &mut MuxScenario, r: &mut Rng) {
    let writes: Vec<Op> = sc.ops.iter().filter(|o| matches!(o, Op::Write { .. })).cloned().collect();
    let extra = if writes.is_empty() { 0 } else { r.below(3) };
    for k in 0..extra {
        if let Op::Write { track_id, s } = &writes[r.usize_below(writes.len())] {
            let mut s = s.clone();
            if let Payload::Stamp { len, tag } = &mut s.payload {
                *len = (*len).min(4096);
                *tag = 1_000_000 + k as u32;
            }
            sc.ops.push(Op::Write { track_id: *track_id, s });
        }
    }
    sc.ops.push(Op::End);
}

pub fn gen_mux(r: &mut Rng, o: &GenOpts) -> MuxScenario {
    // ---- knobs
    let cfg = gen_movie_cfg(r, o);
    let mut kinds: Vec<Kind> = Kind::ALL.iter().copied().filter(|_| r.chance(1, 2)).collect();
    if kinds.is_empty() {
        kinds.push(*r.pick(&Kind::ALL));
    }
    let ntracks = match r.below(10) {
        0 if o.hostile => 0,
        0..=3 => 1,
        4..=6 => 2,
        7 | 8 => 3,
        _ => 1 + r.below(o.max_tracks as u64) as u32,
    };
    let nops = match r.below(100) {
        0..=69 => r.below(5) as u32,
        70..=94 => 5 + r.below(36) as u32,
        _ => 41 + r.below((o.long_ops.max(42) - 41) as u64) as u32,
    };
    let reject_pct = *r.pick(&[0u64, 0, 5, 30]);
    let interleave = match r.below(4) {
        0 => Interleave::RoundRobin,
        1 => Interleave::Bursts,
        2 => Interleave::Starved,
        _ => Interleave::Random,
    };
    let late_tracks = r.chance(1, 5); // add some tracks after samples were already written
    let io = IoKnobs::gen(r);
    // "fat chunk" histories (1 in 1500 where large samples are allowed): one track collects
    // megabyte samples with durations far below a second, so that one chunk grows to 5 - 40 MB
    // while it is still open, and the other tracks - one sample per chunk - reach the sink in
    // between. Nothing in the small histories holds more than 3 MiB in an open chunk.
    let fat = o.big_samples && !o.hostile && r.chance(1, 1500);
    let (ntracks, nops, interleave, late_tracks, io) = if fat {
        (2 + r.below(2) as u32, 10 + r.below(30) as u32, if r.chance(1, 2) { Interleave::RoundRobin } else { Interleave::Random }, false, IoKnobs::plain())
    } else {
        (ntracks, nops, interleave, late_tracks, io)
    };

    // ---- history
    let mut ops = Vec::new();
    let mut laws: Vec<TrackLaws> = Vec::new();
    let mut added = 0u32;
    let first_batch = if late_tracks && ntracks > 1 {
        1 + r.below(ntracks as u64 - 1) as u32
    } else {
        ntracks
    };
    let mut add = |r: &mut Rng, ops: &mut Vec<Op>, laws: &mut Vec<TrackLaws>| {
        let tc = gen_track_cfg(r, o, &kinds);
        laws.push(gen_laws(r, tc.timescale, o));
        ops.push(Op::AddTrack(tc));
    };
    for _ in 0..first_batch {
        add(r, &mut ops, &mut laws);
        added += 1;
    }
    let mut tag: u32 = 1;
    let mut rr = 0u32;
    let mut burst_left = 0u32;
    let mut burst_track = 1u32;
    let mut big_budget: u64 = 3 << 20; // total bytes of large samples per history
    if fat {
        big_budget = 64 << 20;
        let fat_track = r.usize_below(laws.len());
        for (i, l) in laws.iter_mut().enumerate() {
            if i == fat_track {
                l.size = SizeLaw::Fat;
                l.dur = if r.chance(1, 4) { DurLaw::Zero } else { DurLaw::LtTimescale };
            } else {
                l.size = SizeLaw::Upto4k;
                l.dur = if r.chance(3, 4) { DurLaw::GeTimescale } else { DurLaw::LtTimescale };
            }
        }
    }
    for i in 0..nops {
        if added < ntracks && r.chance(1, 4) {
            add(r, &mut ops, &mut laws);
            added += 1;
        }
        if reject_pct > 0 && r.below(100) < reject_pct {
            let bad = match r.below(4) {
                0 => 0,
                1 => added + 1,
                2 => u32::MAX,
                _ => added + 1 + r.below(1000) as u32,
            };
            let mut dummy = gen_laws(r, 1000, o);
            dummy.size = SizeLaw::TinyMix;
            let s = gen_sample(r, &mut dummy, tag, o.hostile);
            tag += 1;
            ops.push(Op::Write { track_id: bad, s });
            continue;
        }
        if added == 0 {
            continue;
        }
        let t = match interleave {
            Interleave::RoundRobin => {
                rr = rr % added + 1;
                rr
            }
            Interleave::Bursts => {
                if burst_left == 0 {
                    burst_left = 1 + r.below(6) as u32;
                    burst_track = 1 + r.below(added as u64) as u32;
                }
                burst_left -= 1;
                burst_track
            }
            Interleave::Starved => {
                if added > 1 && i % 17 == 16 {
                    1
                } else {
                    added.min(2).max(1) + r.below((added.max(2) - 1) as u64) as u32 - if added > 1 { 0 } else { 1 }
                }
            }
            Interleave::Random => 1 + r.below(added as u64) as u32,
        };
        let t = t.clamp(1, added);
        let l = &mut laws[t as usize - 1];
        let mut s = gen_sample(r, l, tag, o.hostile);
        if let Payload::Stamp { len, .. } = &mut s.payload {
            if *len >= 65_536 {
                // one-byte transfers of a 1 MiB sample cost a million stream calls and add
                // nothing: large samples only go with full-size transfers
                if (*len as u64) > big_budget || io.chunking != Chunking::Full {
                    *len = 1 + (*len % 1000);
                } else {
                    big_budget -= *len as u64;
                }
            }
        }
        tag += 1;
        ops.push(Op::Write { track_id: t, s });
    }
    while added < ntracks {
        add(r, &mut ops, &mut laws);
        added += 1;
    }
    ops.push(Op::End);
    // sink geometry (swarm knob): the movie may be written behind an application header and/or
    // over an older, longer file
    let (start_pos, preexisting) = match r.below(16) {
        0 => (*r.pick(&[1u64, 8, 16, 4096]), 0),
        1 => (r.below(100_000), 0),
        2 => (0, 1 + r.below(200_000)),
        3 => (r.below(5000), r.below(300_000)),
        _ => (0, 0),
    };
    // transient sink fault (valid-domain histories only; C17 plants its own): one call or an
    // outage of two or three consecutive stream calls; a third of them aimed into write_end
    // (the flushes of the pending chunks and the mdat size patch come first in that call)
    let (fault, fault_len, fault_api) = if !o.hostile && r.chance(1, 10) {
        let seq = r.below(3 * ops.len() as u64 + 16);
        let f = match r.below(4) {
            0 => crate::simdisk::Fault::Zero,
            1 => crate::simdisk::Fault::Err(crate::simdisk::ErrK::StorageFull),
            2 => crate::simdisk::Fault::Err(crate::simdisk::ErrK::Other),
            _ => crate::simdisk::Fault::Err(crate::simdisk::ErrK::TimedOut),
        };
        let len = match r.below(10) {
            0..=6 => 1u8,
            7 | 8 => 2,
            _ => 3,
        };
        let api = if r.chance(1, 3) { Some((ops.len() as u32, r.below(2 * ntracks as u64 + 12))) } else { None };
        (Some((seq, f)), len, api)
    } else {
        (None, 0, None)
    };
    let mut sc = MuxScenario {
        cfg,
        ops,
        start_pos,
        io,
        preexisting,
        fault,
        fault_len,
        fault_api,
    };
    if sc.fault.is_some() && r.chance(1, 2) {
        append_retry_tail(&mut sc, r);
    }
    if !o.hostile {
        fit_durations(&mut sc);
    }
    sc
}

/// Documented-domain histories only: a track whose duration, converted to the movie timescale,
/// does not fit the 64-bit header field cannot be stored in any ISO-BMFF file, so such histories
/// are outside C01/C02/C14 (C17 still generates them). Durations of an offending track are
/// shifted right until the total fits in 2^62 movie ticks.
pub fn fit_durations(sc: &mut MuxScenario) {
    let tm = sc.cfg.timescale.max(1) as u128;
    let mut ts: Vec<u128> = Vec::new();
    for op in &sc.ops {
        if let Op::AddTrack(tc) = op {
            ts.push(tc.timescale.max(1) as u128);
        }
    }
    let n = ts.len();
    let mut totals = vec![0u128; n];
    for op in &sc.ops {
        if let Op::Write { track_id, s } = op {
            if *track_id >= 1 && (*track_id as usize) <= n {
                totals[*track_id as usize - 1] += s.duration as u128;
            }
        }
    }
    for t in 0..n {
        let mut shift = 0u32;
        while ((totals[t] >> shift) * tm) / ts[t] >= (1u128 << 62) {
            shift += 1;
        }
        if shift > 0 {
            for op in sc.ops.iter_mut() {
                if let Op::Write { track_id, s } = op {
                    if *track_id as usize == t + 1 {
                        s.duration >>= shift;
                    }
                }
            }
        }
    }
}

impl MuxScenario {
    pub fn track_count(&self) -> usize {
        self.ops.iter().filter(|o| matches!(o, Op::AddTrack(_))).count()
    }
    pub fn write_count(&self) -> usize {
        self.ops.iter().filter(|o| matches!(o, Op::Write { .. })).count()
    }
}
