//! Per-run statistics: counters, distinct-signature sets, probes, samples. Merged across worker
//! processes by the supervisor; nothing here influences what a case does.

use serde::{Deserialize, Serialize};
use std::collections::{BTreeMap, BTreeSet};

#[derive(Clone, Debug, Default, Serialize, Deserialize)]
pub struct Stats {
    pub cases: u64,
    pub counters: BTreeMap<String, u64>,
    /// hashes of the "distinct non-trivial" signatures met (measure defined per property)
    pub distinct: BTreeSet<u64>,
    /// further named distinct sets (reported as counts)
    pub sets: BTreeMap<String, BTreeSet<u64>>,
    /// maxima
    pub maxima: BTreeMap<String, u64>,
    pub samples: Vec<serde_json::Value>,
    pub sim_steps: u64,
    pub sim_bytes: u64,
    /// digest of the case in flight (event logs + results); folded into the run digest
    #[serde(skip)]
    pub case_digest: u64,
    /// when a "case" is a whole scenario that is re-executed once per fault, the number of
    /// fault-injected executions is what evidence reports as evaluations
    #[serde(default)]
    pub evaluations_override: u64,
}

impl Stats {
    #[inline]
    pub fn inc(&mut self, k: &str) {
        self.add(k, 1);
    }
    #[inline]
    pub fn add(&mut self, k: &str, n: u64) {
        if n == 0 {
            return;
        }
        if let Some(v) = self.counters.get_mut(k) {
            *v += n;
        } else {
            self.counters.insert(k.to_string(), n);
        }
    }
    #[inline]
    pub fn probe(&mut self, k: &str, hit: bool) {
        if hit {
            self.inc(k);
        } else if !self.counters.contains_key(k) {
            self.counters.insert(k.to_string(), 0);
        }
    }
    pub fn max(&mut self, k: &str, v: u64) {
        let e = self.maxima.entry(k.to_string()).or_insert(0);
        if v > *e {
            *e = v;
        }
    }
    pub fn set_insert(&mut self, k: &str, h: u64) {
        if let Some(s) = self.sets.get_mut(k) {
            s.insert(h);
        } else {
            let mut s = BTreeSet::new();
            s.insert(h);
            self.sets.insert(k.to_string(), s);
        }
    }
    pub fn get(&self, k: &str) -> u64 {
        self.counters.get(k).copied().unwrap_or(0)
    }
    pub fn merge(&mut self, o: &Stats) {
        self.cases += o.cases;
        for (k, v) in &o.counters {
            *self.counters.entry(k.clone()).or_insert(0) += v;
        }
        self.distinct.extend(o.distinct.iter().copied());
        for (k, s) in &o.sets {
            self.sets.entry(k.clone()).or_default().extend(s.iter().copied());
        }
        for (k, v) in &o.maxima {
            let e = self.maxima.entry(k.clone()).or_insert(0);
            if *v > *e {
                *e = *v;
            }
        }
        for s in &o.samples {
            if self.samples.len() < 4 {
                self.samples.push(s.clone());
            }
        }
        self.sim_steps += o.sim_steps;
        self.sim_bytes += o.sim_bytes;
        self.evaluations_override += o.evaluations_override;
    }
    pub fn absorb_sim(&mut self, sim: &crate::simdisk::Sim) {
        self.sim_steps += sim.total_ops;
        self.sim_bytes += sim.total_bytes;
        let f = &sim.fired;
        self.add("fault.hard_err", f.hard_err);
        self.add("fault.zero_transfer", f.zero);
        self.add("fault.short_transfer", f.short);
        self.add("fault.interrupted", f.interrupted);
        self.add("fault.chunked_calls", f.chunked_calls);
        self.add("fault.budget_trips", f.budget);
        self.add("fault.position_moved_between_calls", f.repositioned);
    }
}

pub fn hash_str(s: &str) -> u64 {
    crate::prng::tag(s)
}
