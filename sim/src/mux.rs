//! Recorder client: drives the real `mp4::Mp4Writer` over a `SimFile` according to a
//! `MuxScenario`, one guarded API call at a time.

use crate::panicx::{guard, normalise, PanicInfo};
use crate::scenario::*;
use crate::simdisk::{SimFile, SimRef, BUDGET_MARKER, FAULT_MARKER};
use bytes::Bytes;
use std::collections::HashMap;
use std::convert::TryFrom;

#[derive(Clone, Debug)]
pub struct ErrSummary {
    /// enum variant name of mp4::Error
    pub variant: &'static str,
    pub msg: String,
    pub io_kind: Option<std::io::ErrorKind>,
    pub has_fault_marker: bool,
    pub has_budget_marker: bool,
}

impl ErrSummary {
    pub fn of(e: &mp4::Error) -> Self {
        let variant = match e {
            mp4::Error::IoError(_) => "IoError",
            mp4::Error::InvalidData(_) => "InvalidData",
            mp4::Error::BoxNotFound(_) => "BoxNotFound",
            mp4::Error::Box2NotFound(..) => "Box2NotFound",
            mp4::Error::TrakNotFound(_) => "TrakNotFound",
            mp4::Error::BoxInTrakNotFound(..) => "BoxInTrakNotFound",
            mp4::Error::BoxInTrafNotFound(..) => "BoxInTrafNotFound",
            mp4::Error::BoxInStblNotFound(..) => "BoxInStblNotFound",
            mp4::Error::EntryInStblNotFound(..) => "EntryInStblNotFound",
            mp4::Error::EntryInTrunNotFound(..) => "EntryInTrunNotFound",
            mp4::Error::UnsupportedBoxVersion(..) => "UnsupportedBoxVersion",
        };
        let msg = format!("{e}");
        let (io_kind, fm, bm) = match e {
            mp4::Error::IoError(io) => {
                let inner = io.get_ref().map(|x| x.to_string()).unwrap_or_default();
                (
                    Some(io.kind()),
                    inner.contains(FAULT_MARKER) || msg.contains(FAULT_MARKER),
                    inner.contains(BUDGET_MARKER) || msg.contains(BUDGET_MARKER),
                )
            }
            _ => (None, false, false),
        };
        ErrSummary {
            variant,
            msg,
            io_kind,
            has_fault_marker: fm,
            has_budget_marker: bm,
        }
    }
    /// Comparable form: variant + message; for I/O errors the kind (messages of std differ).
    pub fn key(&self) -> String {
        match self.io_kind {
            Some(k) => format!("IoError({k:?})"),
            None => format!("{}({})", self.variant, self.msg),
        }
    }
    pub fn short(&self) -> String {
        format!("{}:{}", self.variant, normalise(&self.msg))
    }
}

#[derive(Clone, Debug)]
pub enum CallResult {
    Ok,
    Err(ErrSummary),
    Panic(PanicInfo),
    NotRun,
}

impl CallResult {
    pub fn is_ok(&self) -> bool {
        matches!(self, CallResult::Ok)
    }
    pub fn code(&self) -> String {
        match self {
            CallResult::Ok => "ok".into(),
            CallResult::Err(e) => format!("err:{}", e.key()),
            CallResult::Panic(p) => format!("panic:{}", p.discriminator()),
            CallResult::NotRun => "notrun".into(),
        }
    }
}

pub fn fourcc(b: [u8; 4]) -> mp4::FourCC {
    mp4::FourCC { value: b }
}

pub fn to_mp4_config(c: &MovieCfg) -> mp4::Mp4Config {
    mp4::Mp4Config {
        major_brand: fourcc(c.major),
        minor_version: c.minor,
        compatible_brands: c.compat.iter().map(|b| fourcc(*b)).collect(),
        timescale: c.timescale,
    }
}

pub fn to_track_config(t: &TrackCfg) -> mp4::TrackConfig {
    let track_type = match t.track_type {
        0 => mp4::TrackType::Video,
        1 => mp4::TrackType::Audio,
        _ => mp4::TrackType::Subtitle,
    };
    let media_conf = match t.kind {
        Kind::Avc => mp4::MediaConfig::AvcConfig(mp4::AvcConfig {
            width: t.width,
            height: t.height,
            seq_param_set: t.sps.clone(),
            pic_param_set: t.pps.clone(),
        }),
        Kind::Hevc => mp4::MediaConfig::HevcConfig(mp4::HevcConfig {
            width: t.width,
            height: t.height,
        }),
        Kind::Vp9 => mp4::MediaConfig::Vp9Config(mp4::Vp9Config {
            width: t.width,
            height: t.height,
        }),
        Kind::Aac => mp4::MediaConfig::AacConfig(mp4::AacConfig {
            bitrate: t.bitrate,
            profile: mp4::AudioObjectType::try_from(t.aac_profile)
                .unwrap_or(mp4::AudioObjectType::AacLowComplexity),
            freq_index: mp4::SampleFreqIndex::try_from(t.freq_index)
                .unwrap_or(mp4::SampleFreqIndex::Freq48000),
            chan_conf: mp4::ChannelConfig::try_from(t.chan_conf).unwrap_or(mp4::ChannelConfig::Stereo),
        }),
        Kind::Ttxt => mp4::MediaConfig::TtxtConfig(mp4::TtxtConfig {}),
    };
    // A configuration that equals what the library's `From` conversions produce (natural track
    // type, timescale 1000, language "und") is built *through* those conversions - half of them
    // through `From<MediaConfig>`, half through the per-codec `From` - so that the public
    // shortcuts are part of the simulated API surface; the model keeps judging the plain values.
    if t.timescale == 1000 && t.language == "und" && t.track_type == t.kind.natural_track_type() {
        if (t.width as u32 ^ t.bitrate) & 1 == 0 {
            return mp4::TrackConfig::from(media_conf);
        }
        return match media_conf {
            mp4::MediaConfig::AvcConfig(c) => mp4::TrackConfig::from(c),
            mp4::MediaConfig::HevcConfig(c) => mp4::TrackConfig::from(c),
            mp4::MediaConfig::Vp9Config(c) => mp4::TrackConfig::from(c),
            mp4::MediaConfig::AacConfig(c) => mp4::TrackConfig::from(c),
            mp4::MediaConfig::TtxtConfig(c) => mp4::TrackConfig::from(c),
        };
    }
    mp4::TrackConfig {
        track_type,
        timescale: t.timescale,
        language: t.language.clone(),
        media_conf,
    }
}

pub struct MuxRun {
    /// results[0] = write_start, results[i+1] = ops[i]
    pub results: Vec<CallResult>,
    pub ended_ok: bool,
    /// stream position of the writer when it was given back (the end of the produced bytes;
    /// the sink may hold older bytes beyond it)
    pub end_pos: Option<u64>,
}

fn res<T>(r: Result<mp4::Result<T>, PanicInfo>) -> (CallResult, Option<T>) {
    match r {
        Ok(Ok(v)) => (CallResult::Ok, Some(v)),
        Ok(Err(e)) => (CallResult::Err(ErrSummary::of(&e)), None),
        Err(p) => (CallResult::Panic(p), None),
    }
}

pub struct PayloadCache {
    fills: HashMap<(u8, u64), Bytes>,
}

impl PayloadCache {
    pub fn new() -> Self {
        PayloadCache { fills: HashMap::new() }
    }
    pub fn bytes(&mut self, p: &Payload) -> Bytes {
        match p {
            Payload::Stamp { .. } => Bytes::from(p.materialise()),
            Payload::Fill { byte, len } => self
                .fills
                .entry((*byte, *len))
                .or_insert_with(|| Bytes::from(vec![*byte; *len as usize]))
                .clone(),
        }
    }
}

/// Execute the history. Calls after a panic are not run (the writer's state is unknown);
/// calls after an `Err` are run (that is what "rejected calls leave no trace" is about).
/// `stop_after_err`: stop at the first failing call instead (used by crash-image export).
pub fn run_mux(sc: &MuxScenario, sim: &SimRef, skip: Option<&[bool]>) -> MuxRun {
    let n = sc.ops.len() + 1;
    let mut results: Vec<CallResult> = Vec::with_capacity(n);
    let file = SimFile::at(sim, sc.start_pos);
    let cfg = to_mp4_config(&sc.cfg);
    sim.borrow_mut().begin_api(0);
    let (r0, w) = res(guard(|| mp4::Mp4Writer::write_start(file, &cfg)));
    results.push(r0);
    let mut ended_ok = false;
    let Some(mut w) = w else {
        results.resize(n, CallResult::NotRun);
        return MuxRun { results, ended_ok, end_pos: None };
    };
    let mut cache = PayloadCache::new();
    let mut dead = false;
    for (i, op) in sc.ops.iter().enumerate() {
        // the history is over with the first write_end that succeeds (operations listed after a
        // write_end are the caller's reaction to a write_end that FAILED: more samples, a retry)
        if dead || ended_ok || skip.map(|s| s[i]).unwrap_or(false) {
            results.push(CallResult::NotRun);
            continue;
        }
        sim.borrow_mut().begin_api(i as u32 + 1);
        let r = match op {
            Op::AddTrack(tc) => {
                let c = to_track_config(tc);
                res(guard(|| w.add_track(&c))).0
            }
            Op::Write { track_id, s } => {
                let sample = mp4::Mp4Sample {
                    start_time: s.start_time,
                    duration: s.duration,
                    rendering_offset: s.offset,
                    is_sync: s.sync,
                    bytes: cache.bytes(&s.payload),
                };
                res(guard(|| w.write_sample(*track_id, &sample))).0
            }
            Op::End => {
                let r = res(guard(|| w.write_end())).0;
                ended_ok = r.is_ok();
                r
            }
        };
        if matches!(r, CallResult::Panic(_)) {
            dead = true;
        }
        results.push(r);
    }
    let end_pos = if dead { None } else { Some(w.into_writer().pos) };
    MuxRun { results, ended_ok, end_pos }
}
