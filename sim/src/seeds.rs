//! Seed images: the initial durable state of fault campaigns. Muxer outputs come from the real
//! muxer; the packager only *re-arranges* or *extends* them at byte level (moov-first
//! relocation, metadata, wave-wrapped esds, 64-bit headers, free boxes) and hand-builds movie
//! fragments. Nothing here is an oracle.

use crate::boxtree::*;
use crate::indep::{be32, be64};
use crate::mux::run_mux;
use crate::prng::Rng;
use crate::scenario::*;
use crate::simdisk::{Sim, SimDisk};
use serde::{Deserialize, Serialize};

#[derive(Clone, Debug, PartialEq, Eq, Serialize, Deserialize)]
pub enum SeedSpec {
    /// file from /repo/tests/samples
    Canned(String),
    /// minimal_init.mp4 followed by minimal_fragment.m4s as one stream
    CannedFrag,
    /// output of the real muxer for a small seeded history (mdat first)
    Mux { seed: u64 },
    /// the same with the movie header moved in front of the media data
    MuxReloc { seed: u64 },
    /// muxer output extended with udta/meta/ilst, free boxes, 64-bit headers, wave-wrapped esds
    Meta { seed: u64 },
    /// packager-made fragmented stream (init part + fragments)
    Frag { seed: u64 },
    /// what is on disk when the storage dies at stream call `k` of muxing history `seed`
    Crash { seed: u64, k: u64 },
    /// grammar-built image: well-formed boxes, random and mutually inconsistent contents
    Grammar { seed: u64 },
    /// muxer output whose chunks are stored in a random physical order (offsets rewritten);
    /// odd seeds additionally have the movie header moved in front of the media data
    MuxShuffled { seed: u64 },
    /// many small structures of one kind (hundreds of traks, thousands of fragments / items)
    Scale { seed: u64 },
    /// many traks whose parameter-set lengths point beyond their box into planted data
    LengthChain { seed: u64 },
    /// many sample descriptions whose esds descriptor lengths reach beyond their box
    DescriptorChain { seed: u64 },
    /// muxer output with samples whose moov also announces fragments (mvex), followed by
    /// (moof + mdat) pairs that continue the tracks: what "ffmpeg -movflags frag_keyframe" writes
    Hybrid { seed: u64 },
    /// a valid image in which one box is wrapped in 10..120 000 nested container headers
    Nest { seed: u64 },
    /// a valid image in which one sample table is replaced by a very long one (10^5 entries) in
    /// ascending, descending, random, constant or zigzag order
    BigTable { seed: u64 },
    /// five tracks (one per kind) with every metadata / layout variant applied at once and a
    /// leading free box in every container that tolerates one
    MetaAll { seed: u64 },
    /// many HEVC traks whose parameter-set lengths are each small enough for their box but chain
    /// from trak to trak into planted data (every unit individually bounded, the sum is not)
    HopChain { seed: u64 },
    /// one small box with a count field set to a few thousand, replicated a few thousand times
    /// as siblings and followed by as many small filler boxes inside the same parent
    SiblingWalk { seed: u64 },
    /// muxer output (moov last) in which child `k` of the last track's sample table box is moved
    /// to the end: every table in turn is the very last box of the file
    MuxRotated { seed: u64, k: u8 },
    /// movie header first; one sample of 1.1 to 1.6 MB between small ones
    BigSample { seed: u64 },
    /// the everything-at-once image (even seeds) or a packager fragment stream (odd seeds) with
    /// every box header below the top level - and moov / moof themselves - in the 64-bit form
    All64 { seed: u64 },
}

impl SeedSpec {
    pub fn class(&self) -> &'static str {
        match self {
            SeedSpec::Canned(_) => "canned",
            SeedSpec::CannedFrag => "canned_frag",
            SeedSpec::Mux { .. } => "mux",
            SeedSpec::MuxReloc { .. } => "mux_reloc",
            SeedSpec::Meta { .. } => "meta",
            SeedSpec::Frag { .. } => "frag",
            SeedSpec::Crash { .. } => "crash",
            SeedSpec::Grammar { .. } => "grammar",
            SeedSpec::MuxShuffled { .. } => "mux_shuffled",
            SeedSpec::Scale { .. } => "scale",
            SeedSpec::LengthChain { .. } => "length_chain",
            SeedSpec::DescriptorChain { .. } => "descriptor_chain",
            SeedSpec::Hybrid { .. } => "hybrid",
            SeedSpec::Nest { .. } => "nest",
            SeedSpec::BigTable { .. } => "big_table",
            SeedSpec::MetaAll { .. } => "meta_all",
            SeedSpec::HopChain { .. } => "hop_chain",
            SeedSpec::SiblingWalk { .. } => "sibling_walk",
            SeedSpec::MuxRotated { .. } => "mux_rotated",
            SeedSpec::BigSample { .. } => "big_sample",
            SeedSpec::All64 { .. } => "all64",
        }
    }
}

#[derive(Clone, Debug)]
pub struct SeedImage {
    pub bytes: Vec<u8>,
    /// for fragmented seeds: where the initialisation part ends
    pub init_len: Option<usize>,
}

pub const CANNED: [&str; 3] = ["minimal.mp4", "big_buck_bunny_metadata.m4v", "extended_audio_object_type.mp4"];

fn canned(name: &str) -> Vec<u8> {
    std::fs::read(format!("/repo/tests/samples/{name}")).unwrap_or_else(|e| {
        eprintln!("HARNESS-ERROR: cannot read canned sample {name}: {e}");
        std::process::exit(2)
    })
}

pub fn small_opts() -> GenOpts {
    GenOpts {
        hostile: false,
        max_tracks: 3,
        long_ops: 42,
        big_samples: false,
        rich_config: false,
    }
}

/// A small valid muxing history with at least two samples; I/O knobs plain.
pub fn small_scenario(seed: u64) -> MuxScenario {
    let o = small_opts();
    for attempt in 0..16u64 {
        let mut r = Rng::new(seed ^ (attempt.wrapping_mul(0x9E37_79B9)));
        let mut sc = gen_mux(&mut r, &o);
        sc.io = IoKnobs::plain();
        // seed images start at offset 0 of an empty sink
        sc.start_pos = 0;
        sc.preexisting = 0;
        // keep rejected calls out of seed images
        let n = sc.track_count() as u32;
        sc.ops.retain(|op| match op {
            Op::Write { track_id, .. } => *track_id >= 1 && *track_id <= n,
            _ => true,
        });
        if sc.write_count() >= 2 || attempt == 15 {
            return sc;
        }
    }
    unreachable!()
}

pub fn mux_bytes(sc: &MuxScenario) -> Vec<u8> {
    let sim = Sim::shared(SimDisk::new());
    let _ = run_mux(sc, &sim, None);
    let v = sim.borrow().disk.to_vec();
    v
}

pub fn crash_bytes(sc: &MuxScenario, k: u64) -> Vec<u8> {
    let sim = Sim::shared(SimDisk::new());
    sim.borrow_mut().dead_from = Some(k);
    let _ = run_mux(sc, &sim, None);
    let v = sim.borrow().disk.to_vec();
    v
}

/// Number of stream calls a clean run of the history makes.
pub fn mux_call_count(sc: &MuxScenario) -> u64 {
    let sim = Sim::shared(SimDisk::new());
    let _ = run_mux(sc, &sim, None);
    let n = sim.borrow().seq;
    n
}

/// [ftyp][mdat][moov] -> [ftyp][moov'][mdat] with every chunk offset moved by len(moov).
pub fn relocate_moov_first(img: &[u8]) -> Option<Vec<u8>> {
    let nodes = walk(img);
    let top: Vec<&Node> = nodes.iter().filter(|n| n.depth == 0).collect();
    if top.len() != 3 || !top[0].is(b"ftyp") || !top[1].is(b"mdat") || !top[2].is(b"moov") {
        return None;
    }
    let moov = top[2];
    let delta = moov.size as u64;
    let mut m = img[moov.start..moov.end()].to_vec();
    for n in nodes.iter().filter(|n| n.start >= moov.start && (n.is(b"stco") || n.is(b"co64"))) {
        let b = n.body() - moov.start;
        let cnt = be32(&m, b + 4) as usize;
        for i in 0..cnt {
            if n.is(b"stco") {
                let o = b + 8 + 4 * i;
                let v = be32(&m, o) as u64 + delta;
                if v > u32::MAX as u64 {
                    return None;
                }
                m[o..o + 4].copy_from_slice(&(v as u32).to_be_bytes());
            } else {
                let o = b + 8 + 8 * i;
                let v = be64(&m, o) + delta;
                m[o..o + 8].copy_from_slice(&v.to_be_bytes());
            }
        }
    }
    let mut out = img[..top[0].end()].to_vec();
    out.extend_from_slice(&m);
    out.extend_from_slice(&img[top[1].start..top[1].end()]);
    Some(out)
}

/// Every box with an 8-byte header, except ftyp and top-level mdat, gets the 16-byte form
/// (size field 1 + 64-bit largesize); all enclosing sizes grow accordingly.
pub fn all_headers_64(img: &[u8]) -> Vec<u8> {
    let mut out = img.to_vec();
    // innermost and last boxes first: earlier offsets stay valid, parents see their new size
    let mut starts: Vec<usize> = walk(&out).iter().filter(|n| n.hdr == 8 && !n.is(b"ftyp") && !(n.depth == 0 && n.is(b"mdat")) && n.end() <= out.len()).map(|n| n.start).collect();
    starts.sort_unstable_by(|a, b| b.cmp(a));
    for st in starts {
        let nodes = walk(&out);
        let Some(i) = nodes.iter().position(|n| n.start == st && n.hdr == 8) else { continue };
        let n = &nodes[i];
        let mut h = Vec::with_capacity(16);
        h.extend_from_slice(&1u32.to_be_bytes());
        h.extend_from_slice(&n.typ);
        h.extend_from_slice(&((n.size + 8) as u64).to_be_bytes());
        let (start, parent) = (n.start, n.parent);
        splice(&mut out, &nodes, parent, start, 8, &h);
    }
    out
}

/// Moves child `k` (mod the number of children) of the last `stbl` of the image to the end of
/// that box. Sizes do not change; for muxer output (moov last, stbl last in minf / mdia / trak)
/// the moved table becomes the final box of the file.
pub fn rotate_last_stbl(img: &[u8], k: usize) -> Option<Vec<u8>> {
    let nodes = walk(img);
    let si = (0..nodes.len()).rev().find(|i| nodes[*i].is(b"stbl"))?;
    let kids: Vec<&Node> = nodes.iter().filter(|n| n.parent == Some(si)).collect();
    if kids.len() < 2 {
        return None;
    }
    let c = kids[k % kids.len()];
    let stbl_end = nodes[si].end();
    if c.end() > stbl_end || stbl_end > img.len() {
        return None;
    }
    let mut out = img[..c.start].to_vec();
    out.extend_from_slice(&img[c.end()..stbl_end]);
    out.extend_from_slice(&img[c.start..c.end()]);
    out.extend_from_slice(&img[stbl_end..]);
    Some(out)
}

/// Text for string fields: empty, short, long, multi-byte UTF-8 of many byte lengths (so that
/// character boundaries fall on every small offset), and occasionally invalid UTF-8.
pub fn g_text(r: &mut Rng) -> Vec<u8> {
    let units: [&str; 8] = ["a", "Z", "\u{e9}", "\u{30ab}", "\u{30c6}", "\u{1F3AC}", "\u{4e2d}", " "];
    match r.below(10) {
        0 => Vec::new(),
        1 => b"h".to_vec(),
        2 => b"VideoHandler".to_vec(),
        3 => {
            let n = 30 + r.below(60) as usize;
            (0..n).map(|i| b'a' + (i % 26) as u8).collect()
        }
        4 | 5 | 6 => {
            // mixed-width characters up to a target byte length around interesting sizes
            let target = *r.pick(&[3usize, 8, 16, 31, 32, 33, 34, 35, 36, 48, 63, 64, 65, 100, 255, 256, 300]);
            let mut s = String::new();
            while s.len() < target {
                s.push_str(units[r.usize_below(units.len())]);
            }
            s.into_bytes()
        }
        7 => {
            let n = 1 + r.below(40) as usize;
            let ch = units[2 + r.usize_below(5)];
            ch.repeat(n).into_bytes()
        }
        8 => {
            let mut v = vec![0u8; 1 + r.below(20) as usize];
            r.fill(&mut v);
            for b in v.iter_mut() {
                if *b == 0 {
                    *b = 0xC3;
                }
            }
            v
        }
        _ => b"handler".to_vec(),
    }
}

/// Same movie, different physical layout: the chunks of all tracks are stored in a seeded random
/// order inside the media data box (chunk offsets rewritten), so offsets are no longer monotonic
/// within a track nor interleaved in time order. Legal ISO-BMFF; the muxer never writes it.
pub fn shuffle_chunks(img: &[u8], seed: u64) -> Option<Vec<u8>> {
    let v = img.to_vec();
    let m = crate::indep::parse(&v, 0, v.len() as u64).ok()?;
    if m.mdat.len() != 1 {
        return None;
    }
    let (pa, pb) = m.mdat[0];
    // (track, chunk index, old offset, length)
    let mut chunks: Vec<(usize, usize, u64, u64)> = Vec::new();
    for (ti, t) in m.tracks.iter().enumerate() {
        for (ci, c) in t.chunks().ok()?.iter().enumerate() {
            if c.offset < pa || c.offset + c.bytes > pb {
                return None;
            }
            chunks.push((ti, ci, c.offset, c.bytes));
        }
    }
    if chunks.len() < 2 {
        return None;
    }
    let first = chunks.iter().map(|c| c.2).min()?;
    let total: u64 = chunks.iter().map(|c| c.3).sum();
    if first + total != pb {
        return None; // chunks do not tile the payload: leave such images alone
    }
    let mut order: Vec<usize> = (0..chunks.len()).collect();
    let mut r = Rng::new(seed ^ 0x5FFE);
    r.shuffle(&mut order);
    let mut out = v.clone();
    let mut cursor = first;
    let mut new_off = vec![0u64; chunks.len()];
    for &i in &order {
        let (_, _, old, len) = chunks[i];
        out[cursor as usize..(cursor + len) as usize].copy_from_slice(&v[old as usize..(old + len) as usize]);
        new_off[i] = cursor;
        cursor += len;
    }
    for (i, (ti, ci, _, _)) in chunks.iter().enumerate() {
        let t = &m.tracks[*ti];
        let (name, b) = t.pos.iter().find(|(n, _)| n == "stco" || n == "co64")?;
        let base = (b.body() + 8) as usize;
        if name == "stco" {
            let o = base + 4 * ci;
            out[o..o + 4].copy_from_slice(&(new_off[i] as u32).to_be_bytes());
        } else {
            let o = base + 8 * ci;
            out[o..o + 8].copy_from_slice(&new_off[i].to_be_bytes());
        }
    }
    Some(out)
}

fn hdlr_box(handler: &[u8; 4], name: &[u8]) -> Vec<u8> {
    let mut b = Vec::new();
    b.extend_from_slice(&[0, 0, 0, 0]); // pre_defined
    b.extend_from_slice(handler);
    b.extend_from_slice(&[0u8; 12]);
    b.extend_from_slice(name);
    b.push(0);
    full(b"hdlr", 0, 0, &b)
}

fn data_box(typ: u32, payload: &[u8]) -> Vec<u8> {
    let mut b = Vec::new();
    b.extend_from_slice(&typ.to_be_bytes());
    b.extend_from_slice(&[0, 0, 0, 0]);
    b.extend_from_slice(payload);
    bx(b"data", &b)
}

fn meta_box(r: &mut Rng) -> Vec<u8> {
    let mdir = !r.chance(1, 5);
    let handler: [u8; 4] = if mdir { *b"mdir" } else { *b"abcd" };
    let hname = g_text(r);
    let hdlr = hdlr_box(&handler, &hname);
    let mut items = Vec::new();
    if r.chance(3, 4) {
        let t = if r.chance(1, 2) { "A title \u{e9}".as_bytes().to_vec() } else { g_text(r) };
        items.extend(bx(&[0xA9, b'n', b'a', b'm'], &data_box(*r.pick(&[1u32, 1, 1, 0, 13, 21]), &t)));
    }
    if r.chance(3, 4) {
        match r.below(4) {
            0 => items.extend(bx(&[0xA9, b'd', b'a', b'y'], &data_box(1, b"2008"))),
            1 => items.extend(bx(&[0xA9, b'd', b'a', b'y'], &data_box(0, &2008u32.to_be_bytes()))),
            2 => {
                // binary year of every small length, including none at all
                let n = r.below(7) as usize;
                items.extend(bx(&[0xA9, b'd', b'a', b'y'], &data_box(0, &[0x07, 0xD8, 0x01, 0x02, 0x03, 0x04][..n])));
            }
            _ => {
                let t = g_text(r);
                items.extend(bx(&[0xA9, b'd', b'a', b'y'], &data_box(*r.pick(&[1u32, 0, 21]), &t)));
            }
        }
    }
    if r.chance(1, 2) {
        let n = r.below(300) as usize;
        let mut p = vec![0u8; n];
        r.fill(&mut p);
        items.extend(bx(b"covr", &data_box(13, &p)));
    }
    if r.chance(1, 2) {
        let t = if r.chance(1, 2) { b"summary text".to_vec() } else { g_text(r) };
        items.extend(bx(b"desc", &data_box(1, &t)));
    }
    if r.chance(1, 3) {
        items.extend(bx(b"zzzz", &data_box(21, &[1, 2, 3])));
    }
    let ilst = bx(b"ilst", &items);
    let order_hdlr_first = !r.chance(1, 4);
    let kids = if mdir {
        if order_hdlr_first {
            cat(&[&hdlr, &ilst])
        } else {
            cat(&[&ilst, &hdlr])
        }
    } else {
        cat(&[&hdlr, &bx(b"xml ", b"<a/>"), &bx(b"free", &[0u8; 5])])
    };
    if r.chance(1, 4) && order_hdlr_first {
        // QuickTime form: no version/flags word
        bx(b"meta", &kids)
    } else {
        full(b"meta", 0, 0, &kids)
    }
}

/// One structural edit of a muxer-written image (inside moov; chunk offsets stay valid).
fn meta_edit(img: &mut Vec<u8>, r: &mut Rng, variant: u64) {
    let nodes = walk(img);
    let Some(mi) = nodes.iter().position(|n| n.depth == 0 && n.is(b"moov")) else { return };
    match variant {
        9 | 10 => {
            // handler with a different (long / multi-byte / odd) name inside a trak
            let cands: Vec<usize> = nodes.iter().enumerate().filter(|(_, n)| n.is(b"hdlr") && n.path.ends_with("mdia/hdlr")).map(|(i, _)| i).collect();
            if cands.is_empty() {
                return;
            }
            let hi = cands[r.usize_below(cands.len())];
            let h = &nodes[hi];
            if h.size < h.hdr + 24 {
                return;
            }
            let mut handler = [0u8; 4];
            handler.copy_from_slice(&img[h.body() + 8..h.body() + 12]);
            let name = g_text(r);
            let nb = hdlr_box(&handler, &name);
            let (st, sz) = (h.start, h.size);
            splice(img, &nodes, h.parent, st, sz, &nb);
        }
        6 => {
            // edit list inside a trak (version 0 or 1, 0-3 entries)
            let Some(ti) = nodes.iter().position(|n| n.is(b"trak")) else { return };
            let v1 = r.chance(1, 2);
            let n = r.below(4) as u32;
            let mut b = Vec::new();
            b.extend_from_slice(&n.to_be_bytes());
            for _ in 0..n {
                if v1 {
                    b.extend_from_slice(&r.next_u64().to_be_bytes());
                    b.extend_from_slice(&(r.next_u64() >> 1).to_be_bytes());
                } else {
                    b.extend_from_slice(&r.next_u32().to_be_bytes());
                    b.extend_from_slice(&(r.next_u32() >> 1).to_be_bytes());
                }
                b.extend_from_slice(&1u16.to_be_bytes());
                b.extend_from_slice(&0u16.to_be_bytes());
            }
            let edts = bx(b"edts", &full(b"elst", v1 as u8, 0, &b));
            let at = nodes[ti].end();
            splice(img, &nodes, Some(ti), at, 0, &edts);
        }
        7 => {
            // hvcC with parameter-set arrays (the muxer writes none)
            let Some(hi) = nodes.iter().position(|n| n.is(b"hvcC")) else { return };
            let h = &nodes[hi];
            if h.size < h.hdr + 23 {
                return;
            }
            let mut body = img[h.body()..h.body() + 22].to_vec();
            let narr = 1 + r.below(3) as u8;
            body.push(narr);
            for a in 0..narr {
                body.push(0x80 | (32 + a));
                let nn = 1 + r.below(2) as u16;
                body.extend_from_slice(&nn.to_be_bytes());
                for _ in 0..nn {
                    let l = r.below(24) as u16;
                    body.extend_from_slice(&l.to_be_bytes());
                    let mut d = vec![0u8; l as usize];
                    r.fill(&mut d);
                    body.extend_from_slice(&d);
                }
            }
            let nb = bx(b"hvcC", &body);
            let (st, sz) = (h.start, h.size);
            splice(img, &nodes, h.parent, st, sz, &nb);
        }
        8 => {
            // an extra trak-level 'tref' / moov-level 'iods' style unknown boxes
            let unk = bx(if r.chance(1, 2) { b"iods" } else { b"tref" }, &vec![0u8; 4 + r.below(12) as usize]);
            let at = nodes[mi].end();
            splice(img, &nodes, Some(mi), at, 0, &unk);
        }
        0 | 1 => {
            let udta = bx(b"udta", &meta_box(r));
            let at = nodes[mi].end();
            splice(img, &nodes, Some(mi), at, 0, &udta);
        }
        2 => {
            let m = meta_box(r);
            let at = nodes[mi].end();
            splice(img, &nodes, Some(mi), at, 0, &m);
        }
        3 => {
            // free box at a random child boundary of a random container
            let conts: Vec<usize> = nodes.iter().enumerate().filter(|(_, n)| n.kids.is_some() && n.start >= nodes[mi].start && !n.is(b"stsd") && !n.is(b"dref")).map(|(i, _)| i).collect();
            if conts.is_empty() {
                return;
            }
            let ci = conts[r.usize_below(conts.len())];
            // behind the last child or in front of the first one (a parser that expects a
            // particular first child then takes its "something else comes first" path)
            // (the library insists on hvcC as the first child of hev1: "hvcc not found")
            let at = if r.chance(1, 2) || nodes[ci].is(b"hev1") { nodes[ci].end() } else { nodes[ci].kids.map(|k| k.0).unwrap_or(nodes[ci].end()) };
            let f = bx(if r.chance(1, 2) { b"free" } else { b"skip" }, &vec![0u8; r.below(9) as usize]);
            splice(img, &nodes, Some(ci), at, 0, &f);
        }
        4 => {
            // 64-bit size header on a random box inside moov (or moov itself)
            let cands: Vec<usize> = nodes.iter().enumerate().filter(|(_, n)| n.start >= nodes[mi].start && n.hdr == 8).map(|(i, _)| i).collect();
            if cands.is_empty() {
                return;
            }
            let bi = cands[r.usize_below(cands.len())];
            let n = &nodes[bi];
            let mut h = Vec::new();
            h.extend_from_slice(&1u32.to_be_bytes());
            h.extend_from_slice(&n.typ);
            h.extend_from_slice(&((n.size + 8) as u64).to_be_bytes());
            // replace the 8-byte header by the 16-byte one; ancestors grow by 8
            let start = n.start;
            splice(img, &nodes, n.parent, start, 8, &h);
        }
        _ => {
            // wrap esds of an mp4a entry into a QuickTime 'wave' box
            let Some(ei) = nodes.iter().position(|n| n.is(b"esds")) else { return };
            let e = &nodes[ei];
            let esds = img[e.start..e.end()].to_vec();
            let wave = bx(b"wave", &cat(&[&bx(b"frma", b"mp4a"), &esds, &bx(&[0, 0, 0, 0], &[])]));
            let (s, l) = (e.start, e.size);
            splice(img, &nodes, e.parent, s, l, &wave);
        }
    }
}

/// "Everything at once": one track of every kind, three samples each, every structural edit of
/// `meta_edit` applied (edit lists, hvcC arrays, wave-wrapped esds, udta/meta/ilst, meta in moov,
/// unknown boxes, a 64-bit header, rich handler names) and a leading `free` box in every container
/// in which the library tolerates one (decided by trial: the image must still open).
pub fn meta_all_image(seed: u64) -> Vec<u8> {
    use std::io::Cursor;
    let mut r = Rng::new(seed ^ 0xA11A);
    let o = small_opts();
    let mut ops = Vec::new();
    let kinds = [Kind::Avc, Kind::Aac, Kind::Hevc, Kind::Vp9, Kind::Ttxt];
    for k in kinds {
        let mut tc = gen_track_cfg(&mut r, &o, &[k]);
        tc.timescale = 1000;
        ops.push(Op::AddTrack(tc));
    }
    let mut tag = 1u32;
    for round in 0..3u32 {
        for t in 1..=kinds.len() as u32 {
            ops.push(Op::Write { track_id: t, s: SampleW { payload: Payload::Stamp { len: 5 + r.below(40) as u32, tag }, duration: 400 + 100 * round, offset: if t == 1 { 40 * round as i32 } else { 0 }, sync: round != 1, start_time: 0 } });
            tag += 1;
        }
    }
    ops.push(Op::End);
    let sc = MuxScenario { cfg: MovieCfg { major: *b"isom", minor: 512, compat: vec![*b"isom", *b"mp41"], timescale: 1000 }, ops, start_pos: 0, io: IoKnobs::plain(), preexisting: 0, fault: None, fault_len: 0, fault_api: None };
    let mut img = mux_bytes(&sc);
    let opens = |b: &[u8]| mp4::Mp4Reader::read_header(Cursor::new(b.to_vec()), b.len() as u64).is_ok();
    for v in [6u64, 7, 5, 0, 2, 8, 4, 9, 6] {
        let mut trial = img.clone();
        meta_edit(&mut trial, &mut r, v);
        if opens(&trial) {
            img = trial;
        }
    }
    // leading free boxes, innermost and last containers first (earlier offsets stay valid)
    let mut starts: Vec<usize> = walk(&img).iter().filter(|n| n.kids.is_some() && n.depth >= 1).map(|n| n.start).collect();
    starts.sort_unstable_by(|a, b| b.cmp(a));
    for st in starts {
        let nodes = walk(&img);
        let Some(ci) = nodes.iter().position(|n| n.start == st && n.kids.is_some()) else { continue };
        let at = nodes[ci].kids.map(|k| k.0).unwrap_or(nodes[ci].end());
        let mut trial = img.clone();
        splice(&mut trial, &nodes, Some(ci), at, 0, &bx(b"free", &[0u8; 4]));
        if opens(&trial) {
            img = trial;
        }
    }
    img
}

/// Muxer output (moov last) extended inside moov; chunk offsets stay valid.
pub fn meta_image(seed: u64) -> Vec<u8> {
    let mut r = Rng::new(seed ^ 0x3E7A);
    let sc = small_scenario(seed);
    let mut img = mux_bytes(&sc);
    // 1. udta/meta at the end of moov (or meta directly in moov / in a trak)
    let edits = 1 + r.below(3);
    for _ in 0..edits {
        let v = r.below(11);
        meta_edit(&mut img, &mut r, v);
    }
    img
}

/// Appends 1..4 (moof + mdat) pairs for tracks 1..=ntracks; decode_time carries each track's
/// running base media decode time. Variants: several trafs of one track in a moof, one or two
/// truns per traf (with different flag sets), data addressed relative to the moof
/// (default-base-is-moof) or through an explicit absolute base_data_offset (moof start or
/// payload start).
pub fn push_fragments(r: &mut Rng, out: &mut Vec<u8>, ntracks: u32, decode_time: &mut Vec<u64>) {
    struct Trun {
        flags: u32,
        durs: Vec<u32>,
        sizes: Vec<u32>,
        cts: Vec<u32>,
    }
    struct Run {
        track: u32,
        tfhd_flags: u32,
        truns: Vec<Trun>,
        default_dur: u32,
        tfdt_v1: bool,
        has_tfdt: bool,
        /// 0 = relative to the moof, 1 = explicit base at the moof start, 2 = at the payload start
        base_kind: u8,
    }
    fn gen_trun(r: &mut Rng) -> Trun {
        let n = r.below(5) as usize + if r.chance(1, 6) { 0 } else { 1 };
        let mut flags = 0x000001; // data offset
        if r.chance(9, 10) {
            flags |= 0x200;
        }
        if r.chance(1, 2) {
            flags |= 0x100;
        }
        if r.chance(1, 3) {
            flags |= 0x800;
        }
        if r.chance(1, 4) {
            flags |= 0x400;
        }
        if r.chance(1, 4) {
            flags |= 0x004;
        }
        Trun {
            flags,
            durs: (0..n).map(|_| *r.pick(&[0u32, 1, 512, 1024, 3003])).collect(),
            sizes: (0..n).map(|_| r.below(40) as u32).collect(),
            cts: (0..n).map(|_| *r.pick(&[0u32, 512, 1024, 0xFFFF_FE00])).collect(),
        }
    }
    let nfrags = 1 + r.below(4) as u32;
    let mut seq = 1u32;
    let mut stamp = 1u32;
    for _ in 0..nfrags {
        // which tracks appear in this fragment
        let mut tracks: Vec<u32> = (1..=ntracks).filter(|_| r.chance(3, 4)).collect();
        if tracks.is_empty() {
            tracks.push(1 + r.below(ntracks as u64) as u32);
        }
        // several track fragments of the same track inside one movie fragment are legal
        if r.chance(1, 4) {
            let again = tracks[r.usize_below(tracks.len())];
            tracks.push(again);
            if r.chance(1, 3) {
                tracks.push(again);
            }
        }
        let mut runs = Vec::new();
        for t in &tracks {
            let mut tfhd_flags = 0x020000u32; // default-base-is-moof
            if r.chance(1, 2) {
                tfhd_flags |= 0x000008;
            }
            if r.chance(1, 4) {
                tfhd_flags |= 0x000010;
            }
            if r.chance(1, 4) {
                tfhd_flags |= 0x000020;
            }
            if r.chance(1, 5) {
                tfhd_flags |= 0x000002;
            }
            let base_kind = if r.chance(1, 5) { 1 + r.below(2) as u8 } else { 0 };
            if base_kind != 0 {
                tfhd_flags = (tfhd_flags & !0x020000) | 0x000001;
            }
            let mut truns = vec![gen_trun(r)];
            if r.chance(1, 6) {
                truns.push(gen_trun(r));
            }
            if r.chance(1, 10) {
                // a track fragment without any run (legal: it only announces defaults)
                truns.clear();
            }
            runs.push(Run { track: *t, tfhd_flags, truns, default_dur: *r.pick(&[1u32, 512, 1001]), tfdt_v1: r.chance(1, 2), has_tfdt: r.chance(9, 10), base_kind });
        }
        let moof_start = out.len() as u64;
        // build with placeholder data offsets, then patch
        let build = |runs: &Vec<Run>, offs: &Vec<Vec<i32>>, payload_start: u64| -> Vec<u8> {
            let mut trafs = Vec::new();
            for (ri, run) in runs.iter().enumerate() {
                let mut tf = Vec::new();
                tf.extend_from_slice(&u32b(run.track));
                if run.tfhd_flags & 0x1 != 0 {
                    tf.extend_from_slice(&u64b(if run.base_kind == 1 { moof_start } else { payload_start }));
                }
                if run.tfhd_flags & 0x2 != 0 {
                    tf.extend_from_slice(&u32b(1));
                }
                if run.tfhd_flags & 0x8 != 0 {
                    tf.extend_from_slice(&u32b(run.default_dur));
                }
                if run.tfhd_flags & 0x10 != 0 {
                    tf.extend_from_slice(&u32b(9));
                }
                if run.tfhd_flags & 0x20 != 0 {
                    tf.extend_from_slice(&u32b(0x0101_0000));
                }
                let tfhd = full(b"tfhd", 0, run.tfhd_flags, &tf);
                let tfdt = if run.has_tfdt {
                    if run.tfdt_v1 {
                        full(b"tfdt", 1, 0, &u64b(decode_time[run.track as usize - 1]))
                    } else {
                        full(b"tfdt", 0, 0, &u32b(decode_time[run.track as usize - 1] as u32))
                    }
                } else {
                    Vec::new()
                };
                let mut body = cat(&[&tfhd, &tfdt]);
                for (ti, tn) in run.truns.iter().enumerate() {
                    let mut tr = Vec::new();
                    tr.extend_from_slice(&u32b(tn.sizes.len() as u32));
                    tr.extend_from_slice(&offs[ri][ti].to_be_bytes());
                    if tn.flags & 0x4 != 0 {
                        tr.extend_from_slice(&u32b(0x0200_0000));
                    }
                    for k in 0..tn.sizes.len() {
                        if tn.flags & 0x100 != 0 {
                            tr.extend_from_slice(&u32b(tn.durs[k]));
                        }
                        if tn.flags & 0x200 != 0 {
                            tr.extend_from_slice(&u32b(tn.sizes[k]));
                        }
                        if tn.flags & 0x400 != 0 {
                            tr.extend_from_slice(&u32b(0x0001_0000));
                        }
                        if tn.flags & 0x800 != 0 {
                            tr.extend_from_slice(&u32b(tn.cts[k]));
                        }
                    }
                    body.extend(full(b"trun", 0, tn.flags, &tr));
                }
                trafs.extend(bx(b"traf", &body));
            }
            bx(b"moof", &cat(&[&full(b"mfhd", 0, 0, &u32b(seq)), &trafs]))
        };
        let zero: Vec<Vec<i32>> = runs.iter().map(|ru| ru.truns.iter().map(|_| 0).collect()).collect();
        let moof_len = build(&runs, &zero, 0).len();
        let payload_start = moof_start + moof_len as u64 + 8;
        let mut offs: Vec<Vec<i32>> = Vec::new();
        let mut cursor = moof_len as i32 + 8; // relative to the moof start
        let mut payload = Vec::new();
        for run in &runs {
            let mut ro = Vec::new();
            for tn in &run.truns {
                ro.push(if run.base_kind == 2 { cursor - (moof_len as i32 + 8) } else { cursor });
                for sz in &tn.sizes {
                    let b = stamp_bytes(stamp, *sz as usize);
                    stamp += 1;
                    payload.extend_from_slice(&b);
                    cursor += *sz as i32;
                }
            }
            offs.push(ro);
        }
        let moof = build(&runs, &offs, payload_start);
        out.extend_from_slice(&moof);
        out.extend(bx(b"mdat", &payload));
        for run in &runs {
            for tn in &run.truns {
                let d: u64 = if tn.flags & 0x100 != 0 { tn.durs.iter().map(|x| *x as u64).sum() } else { tn.sizes.len() as u64 * run.default_dur as u64 };
                decode_time[run.track as usize - 1] += d;
            }
        }
        seq += 1;
    }
}

/// ftyp + mdat + moov(samples, + mvex) [moov moved first in half of the images] + (moof + mdat)*:
/// a regular file whose tracks are continued by movie fragments.
pub fn hybrid_image(seed: u64) -> Vec<u8> {
    let mut r = Rng::new(seed ^ 0x4B1D);
    let base = mux_bytes(&small_scenario(seed));
    let nodes = walk(&base);
    let moov = match nodes.iter().find(|n| n.depth == 0 && n.is(b"moov")) {
        Some(m) => m,
        None => return base,
    };
    if moov.end() != base.len() {
        return base;
    }
    // per track: running decode time = the media duration the moov already describes
    let mut decode_time = Vec::new();
    for n in nodes.iter().filter(|n| n.is(b"mdhd")) {
        let b = n.body();
        let d = if base[b] == 1 { be64(&base, b + 4 + 8 + 8 + 4) } else { be32(&base, b + 4 + 4 + 4 + 4) as u64 };
        decode_time.push(d);
    }
    let ntracks = decode_time.len() as u32;
    if ntracks == 0 {
        return base;
    }
    let mut mv = Vec::new();
    let trex_dur = *r.pick(&[0u32, 512, 1000, 3000]);
    for t in 1..=ntracks {
        mv.extend(full(b"trex", 0, 0, &cat(&[&u32b(t), &u32b(1), &u32b(trex_dur), &u32b(0), &u32b(0)])));
    }
    let mvex = bx(b"mvex", &mv);
    let mut out = base.clone();
    out.extend_from_slice(&mvex);
    let newsize = (moov.size + mvex.len()) as u32;
    out[moov.start..moov.start + 4].copy_from_slice(&newsize.to_be_bytes());
    if r.chance(1, 2) {
        if let Some(re) = relocate_moov_first(&out) {
            out = re;
        }
    }
    push_fragments(&mut r, &mut out, ntracks, &mut decode_time);
    out
}

/// Deep nesting: one box of a valid image (metadata variant, muxer output or fragment stream)
/// is wrapped in K nested headers of a container type - its parent's type (wave in wave, udta in
/// udta, ...), its own type or a random container. All enclosing sizes are adjusted, so the image
/// is well-formed; a parser that recurses per level needs stack proportional to K.
pub fn nest_image(seed: u64) -> Vec<u8> {
    let mut r = Rng::new(seed ^ 0x4E57);
    let mut img = match r.below(4) {
        0 | 1 => meta_image(r.below(4096)),
        2 => mux_bytes(&small_scenario(r.below(4096))),
        _ => frag_image(r.below(4096)).0,
    };
    let nodes = walk(&img);
    if nodes.is_empty() {
        return img;
    }
    // prefer boxes below the top level (inside moov / moof), they are what parsers descend into
    let deep: Vec<usize> = (0..nodes.len()).filter(|i| nodes[*i].depth >= 1 && !nodes[*i].is(b"mdat")).collect();
    let mut ni = if deep.is_empty() { r.usize_below(nodes.len()) } else { deep[r.usize_below(deep.len())] };
    // in a third of the images: a leaf that a parser looks for inside its parent (the spots where
    // "search the children, descend into wrappers" code lives)
    let mut spot = false;
    if r.chance(1, 3) {
        const LEAVES: [[u8; 4]; 10] = [*b"esds", *b"avcC", *b"hvcC", *b"vpcC", *b"data", *b"hdlr", *b"elst", *b"tfhd", *b"trun", *b"stsd"];
        let c: Vec<usize> = (0..nodes.len()).filter(|i| LEAVES.contains(&nodes[*i].typ)).collect();
        if !c.is_empty() {
            ni = c[r.usize_below(c.len())];
            spot = true;
        }
    }
    let n = &nodes[ni];
    const CONTAINERS: [[u8; 4]; 16] = [*b"wave", *b"udta", *b"meta", *b"moov", *b"trak", *b"mdia", *b"minf", *b"stbl", *b"dinf", *b"edts", *b"moof", *b"traf", *b"mvex", *b"ilst", *b"stsd", *b"mp4a"];
    let ptyp = n.parent.map(|p| nodes[p].typ).unwrap_or(*b"moov");
    let wt: [u8; 4] = if spot {
        // the parent's type when that is a plain container, else the QuickTime wrapper
        if CONTAINERS.contains(&ptyp) && r.chance(2, 3) { ptyp } else { *b"wave" }
    } else {
        match r.below(5) {
            0 | 1 => ptyp,
            2 => n.typ,
            _ => *r.pick(&CONTAINERS),
        }
    };
    let k = *r.pick(&[10usize, 1000, 20_000, 60_000, 120_000, 120_000]);
    // meta is a full box: its wrapper carries version/flags
    let hdr = if &wt == b"meta" { 12 } else { 8 };
    let inner = img[n.start..n.end()].to_vec();
    let mut w = Vec::with_capacity(k * hdr + inner.len());
    for i in 0..k {
        let size = ((k - i) * hdr + inner.len()) as u32;
        w.extend_from_slice(&size.to_be_bytes());
        w.extend_from_slice(&wt);
        if hdr == 12 {
            w.extend_from_slice(&[0, 0, 0, 0]);
        }
    }
    w.extend_from_slice(&inner);
    let (at, len, owner) = (n.start, n.size, n.parent);
    splice(&mut img, &nodes, owner, at, len, &w);
    img
}

/// One sample table of a valid muxer output replaced by a very long one whose entries are in
/// ascending, descending, random, constant or zigzag order. The file stays well-formed; the
/// track's samples need not make sense. Parsing and every accessor must stay (near-)linear.
pub fn big_table_image(seed: u64) -> Vec<u8> {
    let mut r = Rng::new(seed ^ 0xB167);
    let mut img = mux_bytes(&small_scenario(r.below(4096)));
    let nodes = walk(&img);
    let kind = r.below(7);
    let (typ, words): (&[u8; 4], usize) = match kind {
        0 => (b"stss", 1),
        1 => (b"stts", 2),
        2 => (b"ctts", 2),
        3 => (b"stsc", 3),
        4 => (b"stco", 1),
        5 => (b"co64", 2),
        _ => (b"stsz", 1),
    };
    // replace an existing table of that type, or add one to the first stbl
    let target = nodes.iter().position(|n| n.is(typ));
    let stbl = nodes.iter().position(|n| n.is(b"stbl"));
    let (Some(stbl), true) = (stbl, true) else { return img };
    let n_entries = (200_000 / words + r.below(40_000) as usize).min(1_000_000 / (4 * words));
    let order = r.below(5);
    let mut body = Vec::with_capacity(8 + 4 * words * n_entries);
    if typ == b"stsz" {
        body.extend_from_slice(&0u32.to_be_bytes()); // per-sample sizes follow
    }
    body.extend_from_slice(&(n_entries as u32).to_be_bytes());
    for i in 0..n_entries {
        let v: u32 = match order {
            0 => i as u32 + 1,
            1 => (n_entries - i) as u32,
            2 => 1 + r.below(n_entries as u64) as u32,
            3 => 1,
            _ => if i % 2 == 0 { i as u32 + 1 } else { (n_entries - i) as u32 },
        };
        match (typ, words) {
            (b"co64", _) => body.extend_from_slice(&(v as u64).to_be_bytes()),
            (_, 1) => body.extend_from_slice(&v.to_be_bytes()),
            (_, 2) => {
                // (count, value): counts stay small so that sums do not overflow
                body.extend_from_slice(&1u32.to_be_bytes());
                body.extend_from_slice(&v.to_be_bytes());
            }
            _ => {
                // stsc: first_chunk, samples_per_chunk, description index
                body.extend_from_slice(&v.to_be_bytes());
                body.extend_from_slice(&(1 + (i % 3) as u32).to_be_bytes());
                body.extend_from_slice(&1u32.to_be_bytes());
            }
        }
    }
    let table = full(typ, 0, 0, &body);
    match target {
        Some(t) => {
            let (at, len, owner) = (nodes[t].start, nodes[t].size, nodes[t].parent);
            splice(&mut img, &nodes, owner, at, len, &table);
        }
        None => {
            let at = nodes[stbl].end();
            splice(&mut img, &nodes, Some(stbl), at, 0, &table);
        }
    }
    img
}

pub struct FragPlan {
    pub ntracks: u32,
    pub nfrags: u32,
}

/// ftyp + moov(+mvex) [+ emsg] + (moof + mdat)*; returns (bytes, init_len).
pub fn frag_image(seed: u64) -> (Vec<u8>, usize) {
    let mut r = Rng::new(seed ^ 0xF4A6);
    let ntracks = 1 + r.below(2) as u32;
    // init part from the real muxer: tracks without samples
    let o = small_opts();
    let kinds = [Kind::Avc, Kind::Aac, Kind::Hevc, Kind::Vp9, Kind::Ttxt];
    let mut ops = Vec::new();
    for _ in 0..ntracks {
        let mut tc = gen_track_cfg(&mut r, &o, &kinds);
        tc.timescale = *r.pick(&[1000u32, 90000, 48000, 1]);
        ops.push(Op::AddTrack(tc));
    }
    ops.push(Op::End);
    let sc = MuxScenario {
        cfg: MovieCfg { major: *b"iso5", minor: 1, compat: vec![*b"iso5", *b"dash"], timescale: 1000 },
        ops,
        start_pos: 0,
        io: IoKnobs::plain(),
        preexisting: 0,
        fault: None, fault_len: 0, fault_api: None,
    };
    let base = mux_bytes(&sc);
    let nodes = walk(&base);
    let ftyp = nodes.iter().find(|n| n.depth == 0 && n.is(b"ftyp")).unwrap();
    let moov = nodes.iter().find(|n| n.depth == 0 && n.is(b"moov")).unwrap();
    let mut init = base[ftyp.start..ftyp.end()].to_vec();
    let mut moov_b = base[moov.start..moov.end()].to_vec();
    // mvex: optional mehd + one trex per track (the library keeps the last)
    let mut mv = Vec::new();
    if r.chance(1, 2) {
        if r.chance(1, 2) {
            mv.extend(full(b"mehd", 0, 0, &u32b(r.next_u32())));
        } else {
            mv.extend(full(b"mehd", 1, 0, &u64b(r.next_u64())));
        }
    }
    let trex_dur = *r.pick(&[0u32, 512, 1000, 3000]);
    for t in 1..=ntracks {
        mv.extend(full(b"trex", 0, 0, &cat(&[&u32b(t), &u32b(1), &u32b(trex_dur), &u32b(0), &u32b(0)])));
    }
    let mvex = bx(b"mvex", &mv);
    let newsize = (moov_b.len() + mvex.len()) as u32;
    moov_b.extend_from_slice(&mvex);
    moov_b[0..4].copy_from_slice(&newsize.to_be_bytes());
    init.extend_from_slice(&moov_b);
    let init_len = init.len();
    let mut out = init;
    if r.chance(1, 3) {
        // emsg version 0 or 1
        // emsg strings must be valid UTF-8 for the box to parse: keep seed images valid
        let valid = |t: Vec<u8>| if std::str::from_utf8(&t).is_ok() { t } else { b"urn:y".to_vec() };
        let mut scheme = if r.chance(1, 2) { b"urn:x".to_vec() } else { valid(g_text(&mut r)) };
        scheme.retain(|b| *b != 0);
        scheme.push(0);
        let mut value = if r.chance(1, 2) { b"v".to_vec() } else { valid(g_text(&mut r)) };
        value.retain(|b| *b != 0);
        value.push(0);
        let msg = if r.chance(1, 2) { b"payload".to_vec() } else { g_text(&mut r) };
        if r.chance(1, 2) {
            out.extend(full(b"emsg", 0, 0, &cat(&[&scheme, &value, &u32b(1000), &u32b(5), &u32b(10), &u32b(7), &msg])));
        } else {
            out.extend(full(b"emsg", 1, 0, &cat(&[&u32b(1000), &u64b(123456), &u32b(10), &u32b(7), &scheme, &value, &msg])));
        }
    }
    let mut decode_time = vec![0u64; ntracks as usize];
    push_fragments(&mut r, &mut out, ntracks, &mut decode_time);
    (out, init_len)
}

pub fn build(spec: &SeedSpec) -> SeedImage {
    match spec {
        SeedSpec::Canned(n) => SeedImage { bytes: canned(n), init_len: None },
        SeedSpec::CannedFrag => {
            let mut a = canned("minimal_init.mp4");
            let l = a.len();
            a.extend(canned("minimal_fragment.m4s"));
            SeedImage { bytes: a, init_len: Some(l) }
        }
        SeedSpec::Mux { seed } => SeedImage { bytes: mux_bytes(&small_scenario(*seed)), init_len: None },
        SeedSpec::MuxReloc { seed } => {
            let b = mux_bytes(&small_scenario(*seed));
            let r = relocate_moov_first(&b).unwrap_or(b);
            SeedImage { bytes: r, init_len: None }
        }
        SeedSpec::Meta { seed } => SeedImage { bytes: meta_image(*seed), init_len: None },
        SeedSpec::Frag { seed } => {
            let (b, l) = frag_image(*seed);
            SeedImage { bytes: b, init_len: Some(l) }
        }
        SeedSpec::Crash { seed, k } => SeedImage { bytes: crash_bytes(&small_scenario(*seed), *k), init_len: None },
        SeedSpec::Grammar { seed } => {
            let (b, l) = grammar_image(*seed);
            SeedImage { bytes: b, init_len: l }
        }
        SeedSpec::LengthChain { seed } => SeedImage { bytes: length_chain_image(*seed), init_len: None },
        SeedSpec::DescriptorChain { seed } => SeedImage { bytes: descriptor_chain_image(*seed), init_len: None },
        SeedSpec::Hybrid { seed } => SeedImage { bytes: hybrid_image(*seed), init_len: None },
        SeedSpec::Nest { seed } => SeedImage { bytes: nest_image(*seed), init_len: None },
        SeedSpec::BigTable { seed } => SeedImage { bytes: big_table_image(*seed), init_len: None },
        SeedSpec::MetaAll { seed } => SeedImage { bytes: meta_all_image(*seed), init_len: None },
        SeedSpec::HopChain { seed } => SeedImage { bytes: hop_chain_image(*seed), init_len: None },
        SeedSpec::SiblingWalk { seed } => SeedImage { bytes: sibling_walk_image(*seed), init_len: None },
        SeedSpec::All64 { seed } => {
            let (b, l) = if seed % 2 == 0 { (meta_all_image(seed / 2), None) } else { let (b, l) = frag_image(seed / 2); (b, Some(l)) };
            let _ = l;
            SeedImage { bytes: all_headers_64(&b), init_len: None }
        }
        SeedSpec::BigSample { seed } => {
            let mut r = Rng::new(*seed ^ 0xB165);
            let big = 1_100_000 + r.below(500_000) as u32;
            let mut ops = vec![Op::AddTrack(TrackCfg { kind: Kind::Ttxt, track_type: Kind::Ttxt.natural_track_type(), timescale: 1000, language: "und".into(), width: 0, height: 0, sps: vec![], pps: vec![], aac_profile: 2, freq_index: 3, chan_conf: 2, bitrate: 0 })];
            for (i, len) in [40u32, 900, big, 33, 70_000, 12].iter().enumerate() {
                ops.push(Op::Write { track_id: 1, s: SampleW { payload: Payload::Stamp { len: *len, tag: i as u32 + 1 }, duration: 1000, offset: 0, sync: true, start_time: 0 } });
            }
            ops.push(Op::End);
            let sc = MuxScenario { cfg: MovieCfg { major: *b"isom", minor: 512, compat: vec![], timescale: 1000 }, ops, start_pos: 0, io: IoKnobs::plain(), preexisting: 0, fault: None, fault_len: 0, fault_api: None };
            let b = mux_bytes(&sc);
            let b = relocate_moov_first(&b).unwrap_or(b);
            SeedImage { bytes: b, init_len: None }
        }
        SeedSpec::MuxRotated { seed, k } => {
            let b = mux_bytes(&small_scenario(*seed));
            let r = rotate_last_stbl(&b, *k as usize).unwrap_or(b);
            SeedImage { bytes: r, init_len: None }
        }
        SeedSpec::Scale { seed } => {
            let (b, l) = scale_image(*seed);
            SeedImage { bytes: b, init_len: l }
        }
        SeedSpec::MuxShuffled { seed } => {
            let b = mux_bytes(&small_scenario(*seed));
            let sh = shuffle_chunks(&b, *seed).unwrap_or(b);
            // odd seeds: movie header first as well - a prefix of such an image still opens,
            // and the chunks that are missing are not the last ones of the offset table
            let sh = if seed & 1 == 1 { relocate_moov_first(&sh).unwrap_or(sh) } else { sh };
            SeedImage { bytes: sh, init_len: None }
        }
    }
}

/// Swarm choice of a seed image.
pub fn gen_spec(r: &mut Rng) -> SeedSpec {
    if r.chance(1, 120) {
        return SeedSpec::Scale { seed: r.below(1 << 30) };
    }
    if r.chance(1, 400) {
        return SeedSpec::LengthChain { seed: r.below(1 << 30) };
    }
    if r.chance(1, 600) {
        return SeedSpec::DescriptorChain { seed: r.below(1 << 30) };
    }
    if r.chance(1, 150) {
        return SeedSpec::Nest { seed: r.below(1 << 30) };
    }
    if r.chance(1, 500) {
        return SeedSpec::HopChain { seed: r.below(1 << 30) };
    }
    if r.chance(1, 100) {
        return SeedSpec::SiblingWalk { seed: r.below(1 << 30) };
    }
    if r.chance(1, 300) {
        return SeedSpec::BigTable { seed: r.below(1 << 30) };
    }
    match r.below(30) {
        28 | 29 => SeedSpec::Hybrid { seed: r.below(4096) },
        20..=25 => SeedSpec::Grammar { seed: r.below(1 << 40) },
        26 => SeedSpec::MuxShuffled { seed: r.below(4096) },
        27 => {
            if r.chance(1, 2) {
                SeedSpec::MuxShuffled { seed: r.below(4096) }
            } else {
                SeedSpec::MuxRotated { seed: r.below(4096), k: r.below(8) as u8 }
            }
        }
        0 | 1 => SeedSpec::Canned("minimal.mp4".into()),
        2 => SeedSpec::Canned("extended_audio_object_type.mp4".into()),
        3 => {
            if r.chance(1, 4) {
                SeedSpec::Canned("big_buck_bunny_metadata.m4v".into())
            } else {
                SeedSpec::Canned("minimal.mp4".into())
            }
        }
        4 | 5 => SeedSpec::CannedFrag,
        6..=9 => SeedSpec::Mux { seed: r.below(4096) },
        10 | 11 => SeedSpec::MuxReloc { seed: r.below(4096) },
        12..=14 => SeedSpec::Meta { seed: r.below(4096) },
        15..=18 => SeedSpec::Frag { seed: r.below(4096) },
        _ => {
            let seed = r.below(4096);
            let n = mux_call_count(&small_scenario(seed));
            SeedSpec::Crash { seed, k: r.below(n.max(1)) }
        }
    }
}

#[cfg(test)]
mod tests {
    use super::*;
    use std::io::Cursor;

    fn all_samples(img: &[u8]) -> Option<Vec<(u32, u32, Vec<u8>, u64, u32, i32)>> {
        let mut r = mp4::Mp4Reader::read_header(Cursor::new(img.to_vec()), img.len() as u64).ok()?;
        let mut ids: Vec<u32> = r.tracks().keys().copied().collect();
        ids.sort_unstable();
        let mut v = Vec::new();
        for t in ids {
            let n = r.sample_count(t).ok()?;
            for k in 1..=n {
                let s = r.read_sample(t, k).ok()??;
                v.push((t, k, s.bytes.to_vec(), s.start_time, s.duration, s.rendering_offset));
            }
        }
        Some(v)
    }

    /// The packager only re-arranges / extends muxer output: every variant must open and give
    /// exactly the samples of the plain muxer output.
    #[test]
    fn packager_variants_read_back_like_the_original() {
        let mut reloc_ok = 0;
        let mut shuffled_ok = 0;
        for seed in 0..400u64 {
            let base = mux_bytes(&small_scenario(seed));
            let want = all_samples(&base).expect("muxer output opens");
            if let Some(rel) = relocate_moov_first(&base) {
                assert_eq!(all_samples(&rel).expect("relocated opens"), want, "reloc seed {seed}");
                reloc_ok += 1;
            }
            let meta = meta_image(seed);
            assert_eq!(all_samples(&meta).expect("meta variant opens"), want, "meta seed {seed}");
            for k in 0..8 {
                if let Some(rot) = rotate_last_stbl(&base, k) {
                    assert_eq!(all_samples(&rot).expect("rotated opens"), want, "rotated seed {seed} k {k}");
                }
            }
            if seed < 40 {
                // 64-bit headers on every box change no offsets of the media data (moov last)
                let wide = all_headers_64(&base);
                assert_eq!(all_samples(&wide).expect("64-bit headers open"), want, "all64 seed {seed}");
                assert!(wide.len() > base.len());
            }
            if let Some(sh) = shuffle_chunks(&base, seed) {
                assert_eq!(all_samples(&sh).expect("shuffled opens"), want, "shuffled seed {seed}");
                if sh != base {
                    shuffled_ok += 1;
                }
                // the form C11 cuts: shuffled *and* movie header first
                let both = build(&SeedSpec::MuxShuffled { seed: seed | 1 }).bytes;
                let want1 = all_samples(&mux_bytes(&small_scenario(seed | 1))).expect("opens");
                assert_eq!(all_samples(&both).expect("shuffled+relocated opens"), want1, "shuffled+reloc seed {}", seed | 1);
            }
        }
        assert!(reloc_ok > 300);
        assert!(shuffled_ok > 150, "only {shuffled_ok} shuffled variants");
    }

    #[test]
    fn fragment_images_open_both_ways() {
        let mut with_samples = 0;
        for seed in 0..400u64 {
            let (img, l) = frag_image(seed);
            let r = mp4::Mp4Reader::read_header(Cursor::new(img.clone()), img.len() as u64).expect("fragmented stream opens");
            assert!(r.is_fragmented());
            let init = mp4::Mp4Reader::read_header(Cursor::new(img[..l].to_vec()), l as u64).expect("init opens");
            let seg = img[l..].to_vec();
            let n = seg.len() as u64;
            let mut f = init.read_fragment_header(Cursor::new(seg), n).expect("segment opens against init");
            let mut ids: Vec<u32> = f.tracks().keys().copied().collect();
            ids.sort_unstable();
            for t in ids {
                if let Ok(c) = f.sample_count(t) {
                    for k in 1..=c {
                        if let Ok(Some(_)) = f.read_sample(t, k) {
                            with_samples += 1;
                        }
                    }
                }
            }
        }
        assert!(with_samples > 500, "only {with_samples} samples read from fragment images");
    }
}

// ---------------------------------------------------------------------------------------------
// Grammar-built images: well-formed boxes (every size correct) whose *contents* are random and
// need not be mutually consistent - tables of unrelated lengths, duplicated or missing optional
// boxes, shuffled children, several tracks with equal ids, fragments for unknown tracks. These
// are states that a handful of storage faults on a valid file does not reach.
// ---------------------------------------------------------------------------------------------

fn g_u32(r: &mut Rng) -> u32 {
    match r.below(6) {
        0 => 0,
        1 => 1,
        2 => r.below(16) as u32,
        3 => r.below(5000) as u32,
        4 => r.edgy_u32(),
        _ => r.next_u32(),
    }
}

fn g_table(r: &mut Rng, typ: &[u8; 4], version: u8, entry_words: usize, maxn: u64) -> Vec<u8> {
    let n = match r.below(8) {
        0 => 0,
        1 => 1,
        _ => r.below(maxn + 1),
    } as usize;
    let mut b = Vec::new();
    // declared count: usually honest, sometimes off
    let declared = match r.below(40) {
        0 => n as u32 + 1,
        1 => (n as u32).saturating_sub(1),
        2 => g_u32(r),
        _ => n as u32,
    };
    b.extend_from_slice(&declared.to_be_bytes());
    let wild = r.chance(1, 6);
    let mut running = 0u32;
    for i in 0..n {
        for w in 0..entry_words {
            let v: u32 = if wild {
                g_u32(r)
            } else {
                match (typ, w) {
                    (b"stsc", 0) => {
                        running += if i == 0 { 1 } else { 1 + r.below(3) as u32 };
                        running
                    }
                    (b"stsc", 1) => *r.pick(&[1u32, 1, 2, 3, 5, 0]),
                    (b"stsc", _) => 1,
                    (b"stts", 0) | (b"ctts", 0) => r.below(6) as u32,
                    (b"stss", _) => {
                        running += 1 + r.below(3) as u32;
                        running
                    }
                    (b"stco", _) => r.below(900) as u32,
                    (b"co64", 0) => 0,
                    (b"co64", _) => r.below(900) as u32,
                    _ => match r.below(3) {
                        0 => r.below(4) as u32,
                        1 => 1 + r.below(3000) as u32,
                        _ => g_u32(r),
                    },
                }
            };
            b.extend_from_slice(&v.to_be_bytes());
        }
    }
    full(typ, version, 0, &b)
}

fn g_visual_entry(r: &mut Rng, typ: &[u8; 4]) -> Vec<u8> {
    let mut b = vec![0u8; 78];
    b[6..8].copy_from_slice(&1u16.to_be_bytes());
    b[24..26].copy_from_slice(&(r.below(65536) as u16).to_be_bytes());
    b[26..28].copy_from_slice(&(r.below(65536) as u16).to_be_bytes());
    let cfg: Vec<u8> = match typ {
        b"avc1" => {
            let nsps = r.below(3) as u8;
            let npps = r.below(3) as u8;
            let mut c = vec![1, 100, 0, 31, 0xFF, 0xE0 | nsps];
            for _ in 0..nsps {
                let l = r.below(12) as u16;
                c.extend_from_slice(&l.to_be_bytes());
                c.extend((0..l).map(|i| i as u8));
            }
            c.push(npps);
            for _ in 0..npps {
                let l = r.below(8) as u16;
                c.extend_from_slice(&l.to_be_bytes());
                c.extend((0..l).map(|i| i as u8));
            }
            bx(b"avcC", &c)
        }
        b"hev1" => {
            let mut c = vec![0u8; 22];
            c[0] = 1;
            let na = r.below(3) as u8;
            c.push(na);
            for a in 0..na {
                c.push(32 + a);
                let nn = r.below(3) as u16;
                c.extend_from_slice(&nn.to_be_bytes());
                for _ in 0..nn {
                    let l = r.below(10) as u16;
                    c.extend_from_slice(&l.to_be_bytes());
                    c.extend((0..l).map(|i| i as u8));
                }
            }
            bx(b"hvcC", &c)
        }
        _ => full(b"vpcC", 1, 0, &[0, 0x1F, 0x80, 0, 0, 0, 0, 0]),
    };
    let extra = if r.chance(1, 4) { bx(b"pasp", &[0, 0, 0, 1, 0, 0, 0, 1]) } else { vec![] };
    let kids = if r.chance(1, 6) { cat(&[&extra, &cfg]) } else { cat(&[&cfg, &extra]) };
    bx(typ, &cat(&[&b, &kids]))
}

fn g_trak(r: &mut Rng, id: u32) -> Vec<u8> {
    // tkhd
    let v1 = r.chance(1, 4);
    let mut t = Vec::new();
    if v1 {
        t.extend_from_slice(&[0u8; 16]);
        t.extend_from_slice(&id.to_be_bytes());
        t.extend_from_slice(&[0u8; 4]);
        t.extend_from_slice(&r.next_u64().to_be_bytes());
    } else {
        t.extend_from_slice(&[0u8; 8]);
        t.extend_from_slice(&id.to_be_bytes());
        t.extend_from_slice(&[0u8; 4]);
        t.extend_from_slice(&g_u32(r).to_be_bytes());
    }
    t.extend_from_slice(&[0u8; 60]);
    let tkhd = full(b"tkhd", v1 as u8, 1, &t);
    // mdhd
    let mv1 = r.chance(1, 4);
    let mut m = Vec::new();
    let ts = match r.below(6) {
        0 => 0,
        1 => 1,
        _ => *r.pick(&[1000u32, 90000, 48000, u32::MAX]),
    };
    if mv1 {
        m.extend_from_slice(&[0u8; 16]);
        m.extend_from_slice(&ts.to_be_bytes());
        m.extend_from_slice(&r.next_u64().to_be_bytes());
    } else {
        m.extend_from_slice(&[0u8; 8]);
        m.extend_from_slice(&ts.to_be_bytes());
        m.extend_from_slice(&g_u32(r).to_be_bytes());
    }
    m.extend_from_slice(&(r.below(0x8000) as u16).to_be_bytes());
    m.extend_from_slice(&[0, 0]);
    let mdhd = full(b"mdhd", mv1 as u8, 0, &m);
    let handler: [u8; 4] = *r.pick(&[*b"vide", *b"soun", *b"sbtl", *b"text", *b"meta"]);
    let gname = g_text(r);
    let hdlr = hdlr_box(&handler, &gname);
    // sample entry
    let entry = match r.below(7) {
        0 | 1 => g_visual_entry(r, b"avc1"),
        2 => g_visual_entry(r, b"hev1"),
        3 => g_visual_entry(r, b"vp09"),
        4 => {
            let mut a = vec![0u8; 28];
            a[6..8].copy_from_slice(&1u16.to_be_bytes());
            a[16..18].copy_from_slice(&2u16.to_be_bytes());
            let esds = if r.chance(3, 4) {
                let asc = [(r.below(46) as u8) << 3 | (r.below(8) as u8), ((r.below(2) as u8) << 7) | ((r.below(8) as u8) << 3)];
                let dsi = cat(&[&[0x05, 2], &asc]);
                let dcd = cat(&[&[0x04, (13 + dsi.len()) as u8, 0x40, 0x15, 0, 0, 0], &[0u8; 8], &dsi]);
                let sl = [0x06u8, 1, 2];
                let es = cat(&[&[0x03, (3 + dcd.len() + sl.len()) as u8, 0, 1, 0], &dcd, &sl]);
                full(b"esds", 0, 0, &es)
            } else {
                vec![]
            };
            bx(b"mp4a", &cat(&[&a, &esds]))
        }
        5 => bx(b"tx3g", &vec![0u8; 38]),
        _ => bx(b"zzzz", &vec![0u8; r.below(40) as usize]),
    };
    let nent = if r.chance(1, 8) { 2 } else { 1 };
    let mut sd = Vec::new();
    sd.extend_from_slice(&(nent as u32).to_be_bytes());
    sd.extend_from_slice(&entry);
    if nent == 2 {
        sd.extend(bx(b"tx3g", &vec![0u8; 38]));
    }
    let stsd = full(b"stsd", 0, 0, &sd);
    let nsamp = r.below(12) as u32;
    let stts = g_table(r, b"stts", 0, 2, 4);
    let stsc = g_table(r, b"stsc", 0, 3, 4);
    let stsz = if r.chance(1, 2) {
        full(b"stsz", 0, 0, &cat(&[&(1 + r.below(50) as u32).to_be_bytes(), &if r.chance(1, 6) { g_u32(r) } else { nsamp }.to_be_bytes()]))
    } else {
        let mut b = Vec::new();
        b.extend_from_slice(&0u32.to_be_bytes());
        b.extend_from_slice(&if r.chance(1, 8) { g_u32(r) } else { nsamp }.to_be_bytes());
        for _ in 0..nsamp {
            b.extend_from_slice(&(r.below(60) as u32).to_be_bytes());
        }
        full(b"stsz", 0, 0, &b)
    };
    let mut stbl_kids: Vec<Vec<u8>> = vec![stsd, stts, stsc, stsz];
    match r.below(20) {
        0 => {}
        1 => {
            stbl_kids.push(g_table(r, b"stco", 0, 1, 6));
            stbl_kids.push(g_table(r, b"co64", 0, 2, 3));
        }
        2 => stbl_kids.push(g_table(r, b"co64", 0, 2, 4)),
        _ => stbl_kids.push(g_table(r, b"stco", 0, 1, 8)),
    }
    if r.chance(1, 2) {
        let cv = r.below(2) as u8;
        stbl_kids.push(g_table(r, b"ctts", cv, 2, 4));
    }
    if r.chance(1, 2) {
        stbl_kids.push(g_table(r, b"stss", 0, 1, 6));
    }
    if r.chance(1, 10) {
        stbl_kids.push(g_table(r, b"stts", 0, 2, 3)); // duplicate table
    }
    r.shuffle(&mut stbl_kids);
    let stbl = bx(b"stbl", &stbl_kids.concat());
    let url = if r.chance(1, 3) {
        let mut loc = g_text(r);
        loc.push(0);
        full(b"url ", 0, 0, &loc)
    } else {
        full(b"url ", 0, 1, &[])
    };
    let dinf = bx(b"dinf", &full(b"dref", 0, 0, &cat(&[&1u32.to_be_bytes(), &url])));
    let mut minf_kids: Vec<Vec<u8>> = vec![dinf, stbl];
    if r.chance(1, 2) {
        minf_kids.push(full(b"vmhd", 0, 1, &[0u8; 8]));
    }
    if r.chance(1, 3) {
        minf_kids.push(full(b"smhd", 0, 0, &[0u8; 4]));
    }
    r.shuffle(&mut minf_kids);
    let minf = bx(b"minf", &minf_kids.concat());
    let mut mdia_kids = vec![mdhd, hdlr, minf];
    r.shuffle(&mut mdia_kids);
    let mdia = bx(b"mdia", &mdia_kids.concat());
    let mut trak_kids = vec![tkhd, mdia];
    if r.chance(1, 3) {
        let v1 = r.chance(1, 2);
        let n = r.below(3) as u32;
        let mut b = Vec::new();
        b.extend_from_slice(&if r.chance(1, 6) { g_u32(r) } else { n }.to_be_bytes());
        for _ in 0..n {
            if v1 {
                b.extend_from_slice(&r.next_u64().to_be_bytes());
                b.extend_from_slice(&r.next_u64().to_be_bytes());
            } else {
                b.extend_from_slice(&g_u32(r).to_be_bytes());
                b.extend_from_slice(&g_u32(r).to_be_bytes());
            }
            b.extend_from_slice(&[0, 1, 0, 0]);
        }
        trak_kids.push(bx(b"edts", &full(b"elst", v1 as u8, 0, &b)));
    }
    if r.chance(1, 8) {
        trak_kids.push(meta_box(r));
    }
    r.shuffle(&mut trak_kids);
    bx(b"trak", &trak_kids.concat())
}

fn g_moof(r: &mut Rng, seq: u32, track_ids: &[u32]) -> Vec<u8> {
    let mut kids: Vec<Vec<u8>> = vec![full(b"mfhd", 0, 0, &seq.to_be_bytes())];
    let ntraf = r.below(4);
    for _ in 0..ntraf {
        let tid = if track_ids.is_empty() || r.chance(1, 10) { g_u32(r) } else { *r.pick(track_ids) };
        let tf_flags: u32 = if r.chance(1, 6) { r.next_u32() & 0x00FF_FFFF } else { *r.pick(&[0u32, 0x020000, 0x01, 0x08, 0x18, 0x3A, 0x020008]) };
        let mut tf = Vec::new();
        tf.extend_from_slice(&tid.to_be_bytes());
        if tf_flags & 0x1 != 0 {
            tf.extend_from_slice(&if r.chance(1, 2) { r.below(4000) } else { r.next_u64() }.to_be_bytes());
        }
        for bit in [0x2u32, 0x8, 0x10, 0x20] {
            if tf_flags & bit != 0 {
                tf.extend_from_slice(&g_u32(r).to_be_bytes());
            }
        }
        let mut tk: Vec<Vec<u8>> = vec![full(b"tfhd", 0, tf_flags, &tf)];
        if r.chance(3, 4) {
            if r.chance(1, 2) {
                tk.push(full(b"tfdt", 1, 0, &if r.chance(1, 4) { r.next_u64() } else { r.below(1 << 20) }.to_be_bytes()));
            } else {
                tk.push(full(b"tfdt", 0, 0, &g_u32(r).to_be_bytes()));
            }
        }
        let ntrun = if r.chance(1, 8) { 2 } else if r.chance(1, 8) { 0 } else { 1 };
        for _ in 0..ntrun {
            // mostly meaningful flag sets; sometimes arbitrary 24-bit flags (reserved bits too)
            let fl: u32 = if r.chance(1, 4) { r.next_u32() & 0x00FF_FFFF } else { *r.pick(&[0x201u32, 0x301, 0xB01, 0xF05, 0x001, 0x800, 0x100, 0x200, 0x000, 0xA01]) };
            let n = r.below(5) as u32;
            let mut b = Vec::new();
            b.extend_from_slice(&if r.chance(1, 8) { g_u32(r) } else { n }.to_be_bytes());
            if fl & 1 != 0 {
                b.extend_from_slice(&(if r.chance(1, 4) { r.next_u32() as i32 } else { r.below(400) as i32 }).to_be_bytes());
            }
            if fl & 4 != 0 {
                b.extend_from_slice(&0u32.to_be_bytes());
            }
            for _ in 0..n {
                for bit in [0x100u32, 0x200, 0x400, 0x800] {
                    if fl & bit != 0 {
                        b.extend_from_slice(&(if bit == 0x200 { r.below(30) as u32 } else { g_u32(r) }).to_be_bytes());
                    }
                }
            }
            tk.push(full(b"trun", 0, fl, &b));
        }
        r.shuffle(&mut tk);
        kids.push(bx(b"traf", &tk.concat()));
    }
    if r.chance(1, 10) {
        kids.remove(0); // no mfhd
    }
    bx(b"moof", &kids.concat())
}

/// "Scale" images: many small structures of the same kind (tens to hundreds of tiny traks,
/// thousands of empty movie fragments, long runs of metadata items, hundreds of sample entries):
/// behaviour that is quadratic in the number of boxes only shows at this size.
/// "Traf storm": a track whose moov holds thousands of variable-size samples in ONE chunk and
/// which is continued by one movie fragment with tens of thousands of track fragments (most of
/// them without a run, some with a one-sample run of size 0). Whatever is done per traf - at
/// open or per sample read - must not be multiplied by the number of trafs or by the length of
/// the chunk. 1.5 to 3 MB.
pub fn traf_storm_image(seed: u64) -> (Vec<u8>, Option<usize>) {
    let mut r = Rng::new(seed ^ 0x57A4);
    let k = 8000 + r.below(16_000) as u32;
    let t = 60_000 + r.below(60_000) as u32;
    let mut ops = vec![Op::AddTrack(TrackCfg { kind: Kind::Ttxt, track_type: Kind::Ttxt.natural_track_type(), timescale: 1000, language: "und".into(), width: 0, height: 0, sps: vec![], pps: vec![], aac_profile: 2, freq_index: 3, chan_conf: 2, bitrate: 0 })];
    for i in 0..k {
        // duration 0: the samples never complete a chunk, write_end flushes them as one
        ops.push(Op::Write { track_id: 1, s: SampleW { payload: Payload::Stamp { len: 1 + (i % 3), tag: i + 1 }, duration: 0, offset: 0, sync: true, start_time: 0 } });
    }
    ops.push(Op::End);
    let sc = MuxScenario { cfg: MovieCfg { major: *b"isom", minor: 512, compat: vec![], timescale: 1000 }, ops, start_pos: 0, io: IoKnobs::plain(), preexisting: 0, fault: None, fault_len: 0, fault_api: None };
    let base = mux_bytes(&sc);
    let nodes = walk(&base);
    let Some(moov) = nodes.iter().find(|n| n.depth == 0 && n.is(b"moov")) else { return (base, None) };
    if moov.end() != base.len() {
        return (base, None);
    }
    let mvex = bx(b"mvex", &full(b"trex", 0, 0, &cat(&[&u32b(1), &u32b(1), &u32b(0), &u32b(0), &u32b(0)])));
    let mut out = base.clone();
    out.extend_from_slice(&mvex);
    let newsize = (moov.size + mvex.len()) as u32;
    out[moov.start..moov.start + 4].copy_from_slice(&newsize.to_be_bytes());
    let init_len = out.len();
    let mut trafs = Vec::with_capacity(t as usize * 26);
    // in a third of the images every traf carries a one-sample run
    let every = if r.chance(1, 3) { 1 } else { 50 + r.below(200) as u32 };
    let t = if every == 1 { t / 2 } else { t };
    for i in 0..t {
        let tfhd = full(b"tfhd", 0, 0x020000, &u32b(1));
        if i % every == every - 1 {
            let trun = full(b"trun", 0, 0x201, &cat(&[&u32b(1), &u32b(0), &u32b(0)]));
            trafs.extend(bx(b"traf", &cat(&[&tfhd, &trun])));
        } else {
            trafs.extend(bx(b"traf", &tfhd));
        }
    }
    out.extend(bx(b"moof", &cat(&[&full(b"mfhd", 0, 0, &u32b(1)), &trafs])));
    (out, Some(init_len))
}

/// *Top-level storm*: a small valid movie followed by 6 000 - 20 000 small top-level boxes of one
/// kind - event messages (`emsg`, version 0 or 1, same scheme and value, ids distinct, equal or
/// cycling), `free` boxes, unknown boxes, or empty `moof`s. Whatever the reader does per
/// top-level box must not be multiplied by the number of top-level boxes already seen.
pub fn top_level_storm_image(seed: u64) -> Vec<u8> {
    let mut r = Rng::new(seed ^ 0x70B5);
    let mut out = mux_bytes(&small_scenario(seed));
    let k = 6000 + r.below(14_000) as u32;
    let kind = r.below(6);
    let id_law = r.below(3);
    let scheme: &[u8] = if r.chance(1, 2) { b"urn:x\0" } else { b"\0" };
    let value: &[u8] = if r.chance(1, 2) { b"1\0" } else { b"\0" };
    for i in 0..k {
        let id = match id_law {
            0 => i,
            1 => 7,
            _ => i % 5,
        };
        let mut b: Vec<u8> = Vec::new();
        let name: &[u8; 4] = match kind {
            0 | 1 | 2 => {
                if kind == 2 || (kind == 1 && i % 2 == 1) {
                    b.extend_from_slice(&[1, 0, 0, 0]); // version 1
                    b.extend_from_slice(&1000u32.to_be_bytes());
                    b.extend_from_slice(&(i as u64).to_be_bytes());
                    b.extend_from_slice(&1u32.to_be_bytes());
                    b.extend_from_slice(&id.to_be_bytes());
                    b.extend_from_slice(scheme);
                    b.extend_from_slice(value);
                } else {
                    b.extend_from_slice(&[0, 0, 0, 0]); // version 0
                    b.extend_from_slice(scheme);
                    b.extend_from_slice(value);
                    b.extend_from_slice(&1000u32.to_be_bytes());
                    b.extend_from_slice(&i.to_be_bytes());
                    b.extend_from_slice(&1u32.to_be_bytes());
                    b.extend_from_slice(&id.to_be_bytes());
                }
                b"emsg"
            }
            3 => b"free",
            4 => {
                b.extend_from_slice(&i.to_be_bytes());
                b"zz7z"
            }
            _ => b"moof",
        };
        out.extend_from_slice(&(8 + b.len() as u32).to_be_bytes());
        out.extend_from_slice(name);
        out.extend_from_slice(&b);
    }
    out
}

pub fn scale_image(seed: u64) -> (Vec<u8>, Option<usize>) {
    let mut r = Rng::new(seed ^ 0x5CA1E);
    if r.chance(1, 5) {
        return traf_storm_image(seed);
    }
    if r.chance(1, 6) {
        return (top_level_storm_image(seed), None);
    }
    // valid building blocks from the real muxer: ftyp, mdat and the trak boxes of a small history
    let base = mux_bytes(&small_scenario(seed));
    let nodes = walk(&base);
    let top = |t: &[u8; 4]| nodes.iter().find(|n| n.depth == 0 && n.is(t));
    let (Some(ftyp), Some(mdat), Some(moov)) = (top(b"ftyp"), top(b"mdat"), top(b"moov")) else {
        return (base, None);
    };
    let traks: Vec<&Node> = nodes.iter().filter(|n| n.depth == 1 && n.is(b"trak")).collect();
    let mvhd = nodes.iter().find(|n| n.depth == 1 && n.is(b"mvhd"));
    let (Some(mvhd), false) = (mvhd, traks.is_empty()) else {
        return (base, None);
    };
    let _ = moov;
    let ntrak = match r.below(4) {
        0 => 1 + r.below(3),
        1 => 20 + r.below(40),
        _ => 60 + r.below(140),
    } as u32;
    let mut moov_kids: Vec<Vec<u8>> = vec![base[mvhd.start..mvhd.end()].to_vec()];
    let mut ids = Vec::new();
    for i in 0..ntrak {
        let src = traks[r.usize_below(traks.len())];
        let mut t = base[src.start..src.end()].to_vec();
        // patch tkhd.track_id (tkhd is the first child of a muxer-written trak)
        if let Some(tk) = nodes.iter().find(|n| n.parent.map(|p| std::ptr::eq(&nodes[p], src)).unwrap_or(false) && n.is(b"tkhd")) {
            let body = tk.body() - src.start;
            let v1 = t[body] == 1;
            let at = body + if v1 { 20 } else { 12 };
            let id = if r.chance(1, 30) { 1 + r.below(3) as u32 } else { i + 1 };
            t[at..at + 4].copy_from_slice(&id.to_be_bytes());
            ids.push(id);
        }
        moov_kids.push(t);
        if i == ntrak / 2 && r.chance(1, 4) {
            moov_kids.push(g_trak(&mut r, i + 1000)); // an odd one among the regular ones
        }
    }
    moov_kids.push(bx(b"mvex", &full(b"trex", 0, 0, &cat(&[&1u32.to_be_bytes(), &1u32.to_be_bytes(), &0u32.to_be_bytes(), &0u32.to_be_bytes(), &0u32.to_be_bytes()]))));
    if r.chance(1, 3) {
        // a long run of metadata items
        let n = 100 + r.below(900);
        let mut items = Vec::new();
        // coordinated overrun: every item's child declares a size beyond its parent (a parser
        // must reject the first one; one that does not re-reads the run again and again)
        let overrun: u32 = if r.chance(1, 3) { 8 + r.below(20_000) as u32 } else { 0 };
        for i in 0..n {
            let t: [u8; 4] = *r.pick(&[[0xA9, b'n', b'a', b'm'], [0xA9, b'd', b'a', b'y'], *b"desc", *b"covr", *b"zzzz"]);
            let mut item = bx(&t, &data_box(1, &[b'a' + (i % 26) as u8; 3]));
            if overrun > 0 {
                let declared = be32(&item, 8) + overrun;
                item[8..12].copy_from_slice(&declared.to_be_bytes());
            }
            items.extend(item);
        }
        let meta = full(b"meta", 0, 0, &cat(&[&hdlr_box(b"mdir", b""), &bx(b"ilst", &items)]));
        moov_kids.push(bx(b"udta", &meta));
    }
    let moov2 = bx(b"moov", &moov_kids.concat());
    // ftyp, mdat at their original offsets (chunk offsets stay valid), the new moov after them
    let mut out = cat(&[&base[ftyp.start..ftyp.end()], &base[mdat.start..mdat.end()], &moov2]);
    let init_len = out.len();
    let nmoof = match r.below(3) {
        0 => 0,
        1 => 200 + r.below(800),
        _ => 2000 + r.below(6000),
    };
    // variant: thousands of track fragments without samples for ONE track, then one fragment with
    // a very long run (all sample sizes 0, so no payload is needed): looking up a late sample
    // must not cost (number of fragments) x (samples in the run)
    if r.chance(1, 4) && !ids.is_empty() {
        let tid = ids[0];
        let k = 6000 + r.below(2000) as u32;
        let run = 100_000 + r.below(40_000) as u32;
        for seq in 0..k {
            let traf = bx(b"traf", &full(b"tfhd", 0, 0x020000, &tid.to_be_bytes()));
            out.extend(bx(b"moof", &cat(&[&full(b"mfhd", 0, 0, &(seq + 1).to_be_bytes()), &traf])));
        }
        let mut tr = Vec::with_capacity(8 + 4 * run as usize);
        tr.extend_from_slice(&run.to_be_bytes());
        tr.extend_from_slice(&0i32.to_be_bytes());
        tr.resize(8 + 4 * run as usize, 0);
        let traf = bx(b"traf", &cat(&[&full(b"tfhd", 0, 0x020000, &tid.to_be_bytes()), &full(b"tfdt", 0, 0, &0u32.to_be_bytes()), &full(b"trun", 0, 0x201, &tr)]));
        out.extend(bx(b"moof", &cat(&[&full(b"mfhd", 0, 0, &(k + 1).to_be_bytes()), &traf])));
        return (out, Some(init_len));
    }
    // fragments: mostly empty ones (mfhd only), some with a small valid traf for a known track;
    // an occasional arbitrary one only when there are few (one bad fragment fails the open)
    for seq in 0..nmoof {
        if r.chance(1, 6) && !ids.is_empty() {
            let tid = *r.pick(&ids);
            let n = r.below(3) as u32;
            let mut tr = Vec::new();
            tr.extend_from_slice(&n.to_be_bytes());
            tr.extend_from_slice(&0i32.to_be_bytes());
            for _ in 0..n {
                tr.extend_from_slice(&0u32.to_be_bytes()); // sample size 0: no payload needed
            }
            let traf = bx(b"traf", &cat(&[&full(b"tfhd", 0, 0x020000, &tid.to_be_bytes()), &full(b"tfdt", 0, 0, &(seq as u32 * 100).to_be_bytes()), &full(b"trun", 0, 0x201, &tr)]));
            out.extend(bx(b"moof", &cat(&[&full(b"mfhd", 0, 0, &(seq as u32 + 1).to_be_bytes()), &traf])));
        } else if nmoof < 400 && r.chance(1, 100) {
            out.extend(g_moof(&mut r, seq as u32 + 1, &ids));
        } else {
            out.extend(bx(b"moof", &full(b"mfhd", 0, 0, &(seq as u32 + 1).to_be_bytes())));
        }
    }
    (out, if nmoof > 0 { Some(init_len) } else { None })
}

/// "Length chain" image: many small AVC traks whose avcC declares parameter sets that lie far
/// beyond the avcC box, in data planted behind the movie header so that every declared length
/// is backed by bytes: [ftyp][moov: mvhd, trak x T][free: FF.. then 00..]. Each trak re-reads the
/// same ~128 KiB; a parser that does not bound parameter sets by their box does T x 128 KiB of
/// work and allocation on a file of about T x 0.6 KiB + 200 KiB.
pub fn length_chain_image(seed: u64) -> Vec<u8> {
    let mut r = Rng::new(seed ^ 0xC4A1);
    let t = 40 + r.below(200) as usize;
    let hevc = seed % 2 == 1;
    // one valid AVC / HEVC trak from the real muxer
    let sc = MuxScenario {
        cfg: MovieCfg { major: *b"isom", minor: 512, compat: vec![], timescale: 1000 },
        ops: vec![
            Op::AddTrack(TrackCfg { kind: if hevc { Kind::Hevc } else { Kind::Avc }, track_type: 0, timescale: 1000, language: "und".into(), width: 16, height: 16, sps: vec![0x67, 0x42, 0, 0x1f], pps: vec![0x68], aac_profile: 2, freq_index: 3, chan_conf: 2, bitrate: 0 }),
            Op::End,
        ],
        start_pos: 0,
        io: IoKnobs::plain(),
        preexisting: 0,
        fault: None, fault_len: 0, fault_api: None,
    };
    let mut base = mux_bytes(&sc);
    if hevc {
        // give the hvcC one parameter-set array with two NAL units whose first length field is
        // the last thing inside the box: 22 bytes of configuration, numOfArrays = 1,
        // array header (type, numNalus = 2), length of the first unit
        let nodes = walk(&base);
        let Some(h) = nodes.iter().find(|n| n.is(b"hvcC")) else { return base };
        if h.size < h.hdr + 23 {
            return base;
        }
        let mut body = base[h.body()..h.body() + 22].to_vec();
        body.push(1);
        body.push(0x20);
        body.extend_from_slice(&2u16.to_be_bytes());
        body.extend_from_slice(&0xFFFFu16.to_be_bytes());
        let nb = bx(b"hvcC", &body);
        let (st, sz) = (h.start, h.size);
        splice(&mut base, &nodes, h.parent, st, sz, &nb);
    }
    let nodes = walk(&base);
    let cfg_box: &[u8; 4] = if hevc { b"hvcC" } else { b"avcC" };
    let (Some(ftyp), Some(mvhd), Some(trak), Some(cfgn)) = (
        nodes.iter().find(|n| n.depth == 0 && n.is(b"ftyp")),
        nodes.iter().find(|n| n.is(b"mvhd")),
        nodes.iter().find(|n| n.depth == 1 && n.is(b"trak")),
        nodes.iter().find(|n| n.is(cfg_box)),
    ) else {
        return base;
    };
    let trak_bytes = base[trak.start..trak.end()].to_vec();
    // u16 length of the first parameter set, relative to the trak
    let len_at = if hevc { cfgn.end() - 2 - trak.start } else { cfgn.body() + 6 - trak.start };
    let moov_body_start = ftyp.size + 8 + mvhd.size; // offset of the first trak in the new file
    let trak_len = trak_bytes.len();
    let mut moov_kids = base[mvhd.start..mvhd.end()].to_vec();
    for i in 0..t {
        let mut tb = trak_bytes.clone();
        tb[len_at..len_at + 2].copy_from_slice(&0xFFFFu16.to_be_bytes());
        if !hevc {
            // two sequence parameter sets are declared (low 5 bits of the byte in front)
            tb[len_at - 1] = 0xE2;
        }
        // distinct track ids (tkhd is the first child: version/flags + 2 times + id)
        let tk = 8 + 8 + 4 + 8;
        tb[tk..tk + 4].copy_from_slice(&(i as u32 + 1).to_be_bytes());
        moov_kids.extend_from_slice(&tb);
    }
    let moov = bx(b"moov", &moov_kids);
    // first unit of trak i: data at p_i = moov_body_start + i*trak_len + len_at + 2, 65535 bytes;
    // the second unit's length at p_i + 65535 must read FFFF, its data another 65535 bytes; for
    // avcC the picture-parameter-set count that follows must read 0
    let p0 = moov_body_start + len_at + 2;
    let p_last = p0 + (t - 1) * trak_len;
    let ff_from = p0 + 65535;
    let ff_to = p_last + 65535 + 2;
    let zero_to = p_last + 2 * 65535 + 2 + 1 + 64;
    let mut out = cat(&[&base[ftyp.start..ftyp.end()], &moov]);
    let free_start = out.len();
    let total = zero_to.max(free_start + 16);
    let mut free_body = vec![0u8; total - free_start - 8];
    for (k, b) in free_body.iter_mut().enumerate() {
        let pos = free_start + 8 + k;
        if pos >= ff_from && pos < ff_to {
            *b = 0xFF;
        }
    }
    out.extend(bx(b"free", &free_body));
    out
}

/// "Hop chain" image: T copies of a valid HEVC trak whose hvcC declares N parameter sets. Every
/// length is the same value v, small enough to fit the box on its own; the box holds only the
/// first unit. Traks are exactly 2 x (v + 2) bytes long and filled with the byte pattern of v, so
/// a parser that bounds each unit by the box size but not by what is left of the box hops from
/// trak to trak (two hops per trak) and on through planted filler behind the movie header,
/// copying about (T - i) x trak bytes for trak i: T^2 work on a file of T x trak + filler bytes.
/// A parser that bounds the units by the box rejects the second unit of the first trak.
pub fn hop_chain_image(seed: u64) -> Vec<u8> {
    let mut r = Rng::new(seed ^ 0x40B5);
    let t = 120 + r.below(80) as usize;
    let b = *r.pick(&[0x06u8, 0x08, 0x0A]);
    let v = b as usize * 257; // every 16-bit read of the filler gives v, at any alignment
    let sc = MuxScenario {
        cfg: MovieCfg { major: *b"isom", minor: 512, compat: vec![], timescale: 1000 },
        ops: vec![
            Op::AddTrack(TrackCfg { kind: Kind::Hevc, track_type: 0, timescale: 1000, language: "und".into(), width: 16, height: 16, sps: vec![0x67, 0x42, 0, 0x1f], pps: vec![0x68], aac_profile: 2, freq_index: 3, chan_conf: 2, bitrate: 0 }),
            Op::End,
        ],
        start_pos: 0,
        io: IoKnobs::plain(),
        preexisting: 0,
        fault: None, fault_len: 0, fault_api: None,
    };
    let base = mux_bytes(&sc);
    let n_units = (2 * t + 150) as u16;
    // hvcC of total size h: 22 configuration bytes, one array (type, count), then filler
    let with_hvcc = |h: usize| -> Option<Vec<u8>> {
        let mut img = base.clone();
        let nodes = walk(&img);
        let hn = nodes.iter().find(|n| n.is(b"hvcC"))?;
        if hn.size < hn.hdr + 23 || h < 8 + 26 {
            return None;
        }
        let mut body = img[hn.body()..hn.body() + 22].to_vec();
        body.push(1);
        body.push(0x20);
        body.extend_from_slice(&n_units.to_be_bytes());
        body.resize(h - 8, b);
        let nb = bx(b"hvcC", &body);
        let (st, sz, par) = (hn.start, hn.size, hn.parent);
        splice(&mut img, &nodes, par, st, sz, &nb);
        Some(img)
    };
    let h0 = v + 64;
    let Some(probe) = with_hvcc(h0) else { return base };
    let trak_len0 = match walk(&probe).iter().find(|n| n.depth == 1 && n.is(b"trak")) {
        Some(n) => n.size,
        None => return base,
    };
    let overhead = trak_len0 - h0;
    let want = 2 * (v + 2);
    if want < overhead + v + 64 {
        return base;
    }
    let Some(img) = with_hvcc(want - overhead) else { return base };
    let nodes = walk(&img);
    let (Some(ftyp), Some(mvhd), Some(trak)) = (nodes.iter().find(|n| n.depth == 0 && n.is(b"ftyp")), nodes.iter().find(|n| n.is(b"mvhd")), nodes.iter().find(|n| n.depth == 1 && n.is(b"trak"))) else {
        return base;
    };
    if trak.size != want {
        return base;
    }
    let trak_bytes = img[trak.start..trak.end()].to_vec();
    let mut moov_kids = img[mvhd.start..mvhd.end()].to_vec();
    for i in 0..t {
        let mut tb = trak_bytes.clone();
        let tk = 8 + 8 + 4 + 8;
        tb[tk..tk + 4].copy_from_slice(&(i as u32 + 1).to_be_bytes());
        moov_kids.extend_from_slice(&tb);
    }
    let mut out = cat(&[&img[ftyp.start..ftyp.end()], &bx(b"moov", &moov_kids)]);
    // planted filler: room for the longest chain (that of the first trak) and a margin
    let planted = (n_units as usize + 8) * (v + 2);
    out.extend(bx(b"free", &vec![b; planted]));
    out
}

/// "Sibling walk" image. A small box B of a valid image (dref, stsd, elst, stts, url, hdlr, ...)
/// gets one of its first three words - where count fields live - set to about K + F, optionally
/// its first child's type replaced by an unknown one, and is then replicated K times as siblings,
/// followed by F small filler boxes inside the same parent (8-byte `free` boxes, copies of B's
/// first child, or copies of B). A parser whose count-driven loop is not bounded by the box walks
/// from each copy over all later copies and fillers: K x (K + F) steps on (K + F) x small bytes.
/// K and F are a few thousand so that the quadratic term passes the linear budgets.
pub fn sibling_walk_image(seed: u64) -> Vec<u8> {
    let mut r = Rng::new(seed ^ 0x51B1);
    let mut img = if r.chance(1, 2) { meta_all_image(r.below(4)) } else { mux_bytes(&small_scenario(r.below(4096))) };
    let nodes = walk(&img);
    let cands: Vec<usize> = (0..nodes.len())
        .filter(|i| {
            let n = &nodes[*i];
            n.depth >= 2 && n.hdr == 8 && n.size >= 16 && n.size <= 220 && n.end() <= img.len() && !n.is(b"free") && !n.is(b"skip")
        })
        .collect();
    if cands.is_empty() {
        return img;
    }
    let bi = cands[r.usize_below(cands.len())];
    let b = &nodes[bi];
    let mut bb = img[b.start..b.end()].to_vec();
    let k = 1500 + r.below(2000) as usize;
    let f = 1500 + r.below(2000) as usize;
    // the lie: a count of about "everything that follows" in one of the first three words
    let word = 8 + 4 * r.below(3) as usize;
    let v = match r.below(4) {
        0 => f as u32,
        1 => (k + f) as u32,
        2 => (k + f) as u32 / 2,
        _ => (k + f) as u32 + 1 + r.below(3) as u32,
    };
    if word + 4 <= bb.len() && r.chance(7, 8) {
        bb[word..word + 4].copy_from_slice(&v.to_be_bytes());
    }
    // first child inside B (walker's view, or a header found behind the usual 8 bytes of
    // version/flags + count of a table-like container)
    let child_at = nodes.iter().position(|c| c.parent == Some(bi)).map(|ci| nodes[ci].start - b.start).or(if bb.len() >= 24 { Some(16) } else { None });
    let mut child: Option<Vec<u8>> = None;
    if let Some(ca) = child_at {
        if ca + 8 <= bb.len() {
            let cs = be32(&bb, ca) as usize;
            if cs >= 8 && ca + cs <= bb.len() {
                if r.chance(1, 2) {
                    let t: [u8; 4] = *r.pick(&[*b"urn ", *b"alis", *b"free", *b"zzzz"]);
                    bb[ca + 4..ca + 8].copy_from_slice(&t);
                }
                child = Some(bb[ca..ca + cs].to_vec());
            }
        }
    }
    let filler: Vec<u8> = match (r.below(4), &child) {
        (0, Some(c)) => c.clone(),
        (1, _) => bb.clone(),
        _ => bx(b"free", &[]),
    };
    let mut run = Vec::with_capacity(k * bb.len() + f * filler.len());
    for _ in 0..k {
        run.extend_from_slice(&bb);
    }
    for _ in 0..f {
        run.extend_from_slice(&filler);
    }
    let (at, len, owner) = (b.start, b.size, b.parent);
    splice(&mut img, &nodes, owner, at, len, &run);
    img
}

/// "Descriptor chain" image: one AAC track whose sample table holds K sample-description boxes
/// (a parser keeps the last), each with an esds whose ES descriptor declares a length reaching
/// far beyond the box, into zero filler behind the movie header. Descriptor walking costs a few
/// stream calls per two bytes, so a parser that does not bound descriptors by their box walks the
/// same filler K times.
pub fn descriptor_chain_image(seed: u64) -> Vec<u8> {
    let mut r = Rng::new(seed ^ 0xDE5C);
    let k = 30 + r.below(120) as usize;
    let filler = 20_000 + r.below(60_000) as usize;
    let sc = MuxScenario {
        cfg: MovieCfg { major: *b"isom", minor: 512, compat: vec![], timescale: 1000 },
        ops: vec![
            Op::AddTrack(TrackCfg { kind: Kind::Aac, track_type: 1, timescale: 48000, language: "und".into(), width: 0, height: 0, sps: vec![], pps: vec![], aac_profile: 2, freq_index: 3, chan_conf: 2, bitrate: 128_000 }),
            Op::End,
        ],
        start_pos: 0,
        io: IoKnobs::plain(),
        preexisting: 0,
        fault: None, fault_len: 0, fault_api: None,
    };
    let mut base = mux_bytes(&sc);
    // 1. give the ES descriptor a 4-byte length field (3 bytes longer)
    let nodes = walk(&base);
    let Some(e) = nodes.iter().find(|n| n.is(b"esds")) else { return base };
    let eb = e.body();
    if base.get(eb + 4) != Some(&0x03) || base[eb + 5] & 0x80 != 0 {
        return base;
    }
    let old_len = base[eb + 5] as u32;
    let mut body = base[eb..eb + 5].to_vec();
    body.extend_from_slice(&[0x80, 0x80, 0x80, old_len as u8]);
    body.extend_from_slice(&base[eb + 6..e.end()]);
    // a trailing descriptor of an unknown kind (skipped by its length) whose payload lies
    // outside the box: it carries the walk over the boxes that follow, into the filler
    body.extend_from_slice(&[0x7F, 0x80, 0x80, 0x80, 0x00]);
    let nb = bx(b"esds", &body);
    let (st, sz) = (e.start, e.size);
    splice(&mut base, &nodes, e.parent, st, sz, &nb);
    // 2. K further copies of the stsd box at the end of stbl, each with its own huge length
    let nodes = walk(&base);
    let (Some(stsd), Some(stbl_i)) = (nodes.iter().find(|n| n.is(b"stsd")), nodes.iter().position(|n| n.is(b"stbl"))) else {
        return base;
    };
    let stsd_bytes = base[stsd.start..stsd.end()].to_vec();
    let Some(e) = nodes.iter().find(|n| n.is(b"esds")) else { return base };
    let len_at = e.body() + 5 - stsd.start; // 4-byte descriptor length, relative to the stsd copy
    let slen = stsd_bytes.len();
    let mut copies = Vec::with_capacity(k * slen);
    for j in 0..k {
        let mut c = stsd_bytes.clone();
        // from the byte after the length field to 64 bytes before the end of the filler
        let after_len = len_at + 4;
        let dist = (slen - after_len) + (k - 1 - j) * slen + 8 + filler - 64;
        let put = |c: &mut Vec<u8>, at: usize, l: u32| {
            c[at] = 0x80 | ((l >> 21) & 0x7F) as u8;
            c[at + 1] = 0x80 | ((l >> 14) & 0x7F) as u8;
            c[at + 2] = 0x80 | ((l >> 7) & 0x7F) as u8;
            c[at + 3] = (l & 0x7F) as u8;
        };
        put(&mut c, len_at, dist as u32);
        // the skip descriptor is the last 5 bytes of the copy: jump over the following copies
        // and the 8-byte header of the filler box
        put(&mut c, slen - 4, ((k - 1 - j) * slen + 8) as u32);
        copies.extend_from_slice(&c);
    }
    let at = nodes[stbl_i].end();
    splice(&mut base, &nodes, Some(stbl_i), at, 0, &copies);
    // 3. zero filler right behind the movie header (moov is the last box of muxer output)
    base.extend(bx(b"free", &vec![0u8; filler]));
    base
}

/// Returns (bytes, init_len if a fragmented tail was generated).
pub fn grammar_image(seed: u64) -> (Vec<u8>, Option<usize>) {
    let mut r = Rng::new(seed ^ 0x6AA3);
    let ftyp = bx(b"ftyp", &cat(&[b"isom", &512u32.to_be_bytes(), b"isomiso2"]));
    let ntrak = match r.below(8) {
        0 => 0,
        1..=4 => 1,
        5 | 6 => 2,
        _ => 3,
    };
    let mut ids = Vec::new();
    let mut moov_kids: Vec<Vec<u8>> = Vec::new();
    // mvhd
    let v1 = r.chance(1, 4);
    let mut m = Vec::new();
    let ts = match r.below(6) {
        0 => 0u32,
        _ => *r.pick(&[1000u32, 600, 90000, 1]),
    };
    if v1 {
        m.extend_from_slice(&[0u8; 16]);
        m.extend_from_slice(&ts.to_be_bytes());
        m.extend_from_slice(&r.next_u64().to_be_bytes());
    } else {
        m.extend_from_slice(&[0u8; 8]);
        m.extend_from_slice(&ts.to_be_bytes());
        m.extend_from_slice(&g_u32(&mut r).to_be_bytes());
    }
    m.extend_from_slice(&[0u8; 80]);
    moov_kids.push(full(b"mvhd", v1 as u8, 0, &m));
    for i in 0..ntrak {
        let id = match r.below(8) {
            0 => 1, // duplicate ids are likely
            1 => g_u32(&mut r).max(1),
            _ => i as u32 + 1,
        };
        ids.push(id);
        moov_kids.push(g_trak(&mut r, id));
    }
    let fragmented = r.chance(1, 3);
    if fragmented || r.chance(1, 6) {
        let mut mv = Vec::new();
        if r.chance(1, 2) {
            mv.extend(full(b"mehd", r.below(2) as u8, 0, &r.next_u64().to_be_bytes()[..if r.chance(1, 2) { 4 } else { 8 }]));
        }
        let trex_ids: Vec<u32> = if ids.is_empty() { vec![1] } else { ids.iter().copied().take(2).collect() };
        for id in trex_ids.iter() {
            mv.extend(full(b"trex", 0, 0, &cat(&[&id.to_be_bytes(), &1u32.to_be_bytes(), &g_u32(&mut r).to_be_bytes(), &g_u32(&mut r).to_be_bytes(), &0u32.to_be_bytes()])));
        }
        moov_kids.push(bx(b"mvex", &mv));
    }
    if r.chance(1, 4) {
        moov_kids.push(bx(b"udta", &meta_box(&mut r)));
    }
    if r.chance(1, 8) {
        moov_kids.push(meta_box(&mut r));
    }
    let first = moov_kids.remove(0);
    r.shuffle(&mut moov_kids);
    if r.chance(7, 8) {
        moov_kids.insert(0, first);
    } else {
        moov_kids.push(first);
    }
    let moov = bx(b"moov", &moov_kids.concat());
    let mut payload = vec![0u8; r.below(400) as usize];
    r.fill(&mut payload);
    let mdat = bx(b"mdat", &payload);
    let mut out = if r.chance(1, 2) { cat(&[&ftyp, &moov, &mdat]) } else { cat(&[&ftyp, &mdat, &moov]) };
    let mut init_len = None;
    if fragmented {
        init_len = Some(out.len());
        for seq in 0..1 + r.below(3) as u32 {
            out.extend(g_moof(&mut r, seq + 1, &ids));
            let mut p = vec![0u8; r.below(200) as usize];
            r.fill(&mut p);
            out.extend(bx(b"mdat", &p));
        }
    }
    (out, init_len)
}

#[cfg(test)]
mod grammar_tests {
    use super::*;
    use std::io::Cursor;
    /// A healthy share of grammar images must get past read_header, or they test nothing.
    #[test]
    fn grammar_images_often_open() {
        let mut opened = 0;
        let mut with_tracks = 0;
        let n = 2000;
        let mut errs = std::collections::BTreeMap::new();
        for seed in 0..n {
            let (img, _) = grammar_image(seed);
            match mp4::Mp4Reader::read_header(Cursor::new(img.clone()), img.len() as u64) {
                Ok(r) => {
                    opened += 1;
                    if !r.tracks().is_empty() {
                        with_tracks += 1;
                    }
                }
                Err(e) => {
                    *errs.entry(format!("{e}")).or_insert(0u32) += 1;
                }
            }
        }
        eprintln!("grammar: {opened}/{n} open, {with_tracks} with tracks; errors: {errs:?}");
        assert!(opened * 100 / n >= 40, "only {opened}/{n} grammar images open");
    }
}

#[cfg(test)]
mod chain_tests {
    use super::*;
    use std::io::Cursor;
    /// Hop-chain images: traks are exactly two hops long, the image tiles, and a parser that
    /// bounds parameter sets by their box refuses the second unit of the first trak.
    #[test]
    fn hop_chain_images_have_the_intended_geometry() {
        for seed in 0..6 {
            let img = hop_chain_image(seed);
            let nodes = walk(&img);
            let traks: Vec<&Node> = nodes.iter().filter(|n| n.depth == 1 && n.is(b"trak")).collect();
            assert!(traks.len() >= 120, "seed {seed}: {} traks", traks.len());
            let hv = nodes.iter().find(|n| n.is(b"hvcC")).unwrap();
            let v = be32(&img, hv.body() + 26) as usize >> 16; // first unit length
            assert_eq!(traks[0].size, 2 * (v + 2), "seed {seed}");
            assert!(traks.iter().all(|t| t.size == traks[0].size));
            assert_eq!(nodes.iter().filter(|n| n.depth == 0).map(|n| n.size).sum::<usize>(), img.len());
            // follow the chain of the first trak independently: every length read is v, to the end
            let n_units = (be32(&img, hv.body() + 22) & 0xFFFF) as usize;
            let mut pos = hv.body() + 26;
            for k in 0..n_units {
                assert!(pos + 2 <= img.len(), "seed {seed}: chain leaves the file at unit {k}");
                let l = (img[pos] as usize) << 8 | img[pos + 1] as usize;
                assert_eq!(l, v, "seed {seed}: unit {k} at {pos}");
                pos += 2 + l;
            }
            assert!(pos <= img.len());
            match mp4::Mp4Reader::read_header(Cursor::new(img.clone()), img.len() as u64) {
                Ok(_) => panic!("seed {seed}: opened"),
                Err(e) => assert!(format!("{e}").contains("hvcC"), "seed {seed}: {e}"),
            }
        }
    }
    #[test]
    fn length_chain_images_are_well_formed_up_to_the_chain() {
        for seed in 0..5 {
            let img = length_chain_image(seed);
            let r = mp4::Mp4Reader::read_header(Cursor::new(img.clone()), img.len() as u64);
            // before fix ab3439b these images opened (after re-reading T x 128 KiB); with it the
            // first over-long parameter set is rejected. Either way the structure is as intended
            // when nothing else is wrong with the image.
            match r {
                Ok(r) => eprintln!("seed {seed}: n={} tracks={}", img.len(), r.tracks().len()),
                Err(e) => {
                    let m = format!("{e}");
                    // avcC chains are stopped by fix ab3439b, hvcC chains by c3157f2 / bb01007
                    assert!(m.contains("avcC parameter set") || m.contains("hvcC"), "seed {seed}: unexpected error {e}")
                }
            }
        }
    }
}

#[cfg(test)]
mod shape_tests {
    use super::*;
    use std::io::Cursor;
    /// Nest / BigTable images are well-formed for the independent walker (sizes tile) and a fair
    /// share of them opens, so that the deep / long structures are really traversed.
    #[test]
    fn nest_and_big_table_images_are_well_formed() {
        for (name, f) in [("nest", nest_image as fn(u64) -> Vec<u8>), ("big_table", big_table_image as fn(u64) -> Vec<u8>), ("sibling_walk", sibling_walk_image as fn(u64) -> Vec<u8>)] {
            let mut opened = 0;
            let n = 60;
            let mut slowest = std::time::Duration::ZERO;
            for seed in 0..n {
                let img = f(seed);
                // top-level boxes tile the image exactly
                let mut pos = 0usize;
                while pos + 8 <= img.len() {
                    let sz = be32(&img, pos) as usize;
                    let sz = if sz == 1 { be64(&img, pos + 8) as usize } else { sz };
                    assert!(sz >= 8 && pos + sz <= img.len(), "{name} seed {seed}: bad top-level box at {pos}");
                    pos += sz;
                }
                assert_eq!(pos, img.len(), "{name} seed {seed}");
                let t0 = std::time::Instant::now();
                if mp4::Mp4Reader::read_header(Cursor::new(img.clone()), img.len() as u64).is_ok() {
                    opened += 1;
                }
                slowest = slowest.max(t0.elapsed());
            }
            eprintln!("{name}: {opened}/{n} open, slowest open {slowest:?}");
            // (a sanity floor, not a calibrated rate: which box gets wrapped depends on the
            // generated history, and a third of the wrapped boxes are leaves the reader searches)
            assert!(opened * 8 >= n, "only {opened}/{n} {name} images open");
        }
    }
}

#[cfg(test)]
mod hybrid_tests {
    use super::*;
    use std::io::Cursor;
    /// A regular file continued by fragments: the samples of the moov keep their ids and
    /// contents, the fragments add further samples after them.
    #[test]
    fn hybrid_images_extend_the_plain_file() {
        let read = |img: &[u8]| {
            let mut r = mp4::Mp4Reader::read_header(Cursor::new(img.to_vec()), img.len() as u64).unwrap();
            let mut ids: Vec<u32> = r.tracks().keys().copied().collect();
            ids.sort_unstable();
            let mut v = Vec::new();
            for t in ids {
                let n = r.sample_count(t).unwrap();
                let mut tv = Vec::new();
                for k in 1..=n {
                    // runs without per-sample sizes are not supported by the library (it reports
                    // an error for their samples): keep a placeholder for those
                    match r.read_sample(t, k) {
                        Ok(Some(s)) => tv.push((s.bytes.to_vec(), s.start_time, s.duration, s.rendering_offset)),
                        _ => tv.push((Vec::new(), u64::MAX, 0, 0)),
                    }
                }
                v.push(tv);
            }
            v
        };
        let mut extended = 0;
        for seed in 0..100u64 {
            let plain = read(&mux_bytes(&small_scenario(seed)));
            let hy = read(&hybrid_image(seed));
            assert_eq!(plain.len(), hy.len(), "seed {seed}");
            for (p, h) in plain.iter().zip(hy.iter()) {
                assert!(h.len() >= p.len(), "seed {seed}");
                assert_eq!(&h[..p.len()], &p[..], "seed {seed}: moov samples changed");
                if h.len() > p.len() {
                    extended += 1;
                }
            }
        }
        assert!(extended > 50, "only {extended} tracks were continued by fragments");
    }
}

#[cfg(test)]
mod openrate_tests {
    use super::*;
    use std::io::Cursor;
    #[test]
    fn open_rates_by_class() {
        for class in ["mux", "reloc", "shuffled", "meta", "frag", "hybrid"] {
            let mut fails = std::collections::BTreeMap::new();
            let mut ok = 0;
            for seed in 0..300u64 {
                let spec = match class {
                    "mux" => SeedSpec::Mux { seed },
                    "reloc" => SeedSpec::MuxReloc { seed },
                    "shuffled" => SeedSpec::MuxShuffled { seed },
                    "meta" => SeedSpec::Meta { seed },
                    "hybrid" => SeedSpec::Hybrid { seed },
                    _ => SeedSpec::Frag { seed },
                };
                let img = build(&spec).bytes;
                match mp4::Mp4Reader::read_header(Cursor::new(img.clone()), img.len() as u64) {
                    Ok(_) => ok += 1,
                    Err(e) => *fails.entry(format!("{e}")).or_insert(0u32) += 1,
                }
            }
            eprintln!("class {class}: {ok}/300 open; {fails:?}");
            assert_eq!(ok, 300, "seed images of class {class} must open intact: {fails:?}");
        }
    }
}
