//! Violations and their signatures.

use serde::{Deserialize, Serialize};

#[derive(Clone, Debug, PartialEq, Eq, Serialize, Deserialize)]
pub struct Violation {
    pub property: String,
    /// name of the invariant that failed
    pub invariant: String,
    /// what distinguishes this failure from others of the same invariant (function, kind, ...)
    pub discriminator: String,
    /// free text for the human reader; not part of the signature
    pub detail: String,
}

impl Violation {
    pub fn new(property: &str, invariant: &str, discriminator: impl Into<String>, detail: impl Into<String>) -> Self {
        Violation {
            property: property.to_string(),
            invariant: invariant.to_string(),
            discriminator: discriminator.into(),
            detail: detail.into(),
        }
    }
    pub fn signature(&self) -> String {
        format!("{}/{}", self.invariant, self.discriminator)
    }
}
