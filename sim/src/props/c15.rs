//! C15 — reads are history-independent; muxing and parsing are deterministic (modes F, A).
use crate::model::{Opened, Player, SampleOutcome};
use crate::modec::IoSrc;
use crate::mux::ErrSummary;
use crate::panicx::guard;
use crate::prng::{mix, Rng};
use crate::runner::{Prop, Tier};
use crate::seeds::{build, mux_bytes, small_scenario, SeedSpec};
use crate::simdisk::{ErrK, Fault, Sim, SimDisk};
use crate::stats::{hash_str, Stats};
use crate::verdict::Violation;
use serde::{Deserialize, Serialize};
use std::collections::HashMap;

pub struct C15;

#[derive(Clone, Debug, PartialEq, Eq, Hash, Serialize, Deserialize)]
pub enum Q {
    ReadSample { t: u32, k: u32 },
    SampleOffset { t: u32, k: u32 },
    SampleCount { t: u32 },
    /// digest of every Mp4Track accessor of track t
    TrackAccessors { t: u32 },
    /// duration, timescale, brands, is_fragmented, size
    MovieAccessors,
    Metadata,
}

#[derive(Clone, Debug, Serialize, Deserialize)]
pub struct SCall {
    pub q: Q,
    /// transient hard fault: the j-th stream call made by this API call fails
    pub fault_at: Option<u32>,
}

#[derive(Clone, Debug, Serialize, Deserialize)]
pub struct SchedCase {
    pub src: IoSrc,
    pub calls: Vec<SCall>,
    /// transfer chunking / EINTR of the stream under the long-lived reader (legal, transparent):
    /// with split transfers a transient fault can land in the middle of a sample
    #[serde(default = "crate::scenario::IoKnobs::plain")]
    pub io: crate::scenario::IoKnobs,
    /// real milliseconds to let pass between the two muxing runs that are compared. The library
    /// has no clock seam because it reads no clock; this is the one place where real time is
    /// used, to expose an output that depends on the time of day (three cases per run).
    #[serde(default)]
    pub pause_ms: u32,
}

fn sample_code(o: &SampleOutcome) -> String {
    match o {
        SampleOutcome::Some(s) => {
            let mut h = 0x15u64;
            for c in s.bytes.chunks(8) {
                let mut w = [0u8; 8];
                w[..c.len()].copy_from_slice(c);
                h = mix(h, u64::from_le_bytes(w));
            }
            format!("some:{}:{}:{}:{}:{}:{h:x}", s.bytes.len(), s.start_time, s.duration, s.rendering_offset, s.is_sync)
        }
        SampleOutcome::None => "none".into(),
        SampleOutcome::Err(e) => format!("err:{}", e.key()),
        SampleOutcome::Panic(p) => format!("panic:{}", p.discriminator()),
    }
}

fn res_code<T: std::fmt::Debug>(r: Result<Result<T, ErrSummary>, crate::panicx::PanicInfo>) -> String {
    match r {
        Ok(Ok(v)) => format!("ok:{v:?}"),
        Ok(Err(e)) => format!("err:{}", e.key()),
        Err(p) => format!("panic:{}", p.discriminator()),
    }
}

fn ask(p: &mut Player, q: &Q) -> String {
    match q {
        Q::ReadSample { t, k } => sample_code(&p.read_sample(*t, *k)),
        Q::SampleOffset { t, k } => res_code(p.sample_offset(*t, *k)),
        Q::SampleCount { t } => res_code(p.sample_count(*t)),
        Q::TrackAccessors { t } => {
            let r = &p.reader;
            match guard(|| {
                r.tracks().get(t).map(|tr| {
                    format!(
                        "{:?}|{:?}|{:?}|{:?}|{}|{}|{}|{:?}|{:?}|{}|{}|{:?}|{}|{}|{:?}|{:?}|{:?}|{:?}",
                        tr.track_id(),
                        tr.track_type().ok(),
                        tr.media_type().ok(),
                        tr.box_type().ok().map(|f| f.value),
                        tr.width(),
                        tr.height(),
                        tr.frame_rate(),
                        tr.sample_freq_index().ok().map(|x| x as u8),
                        tr.channel_config().ok().map(|x| x as u8),
                        tr.language(),
                        tr.timescale(),
                        tr.duration(),
                        tr.bitrate(),
                        tr.sample_count(),
                        tr.video_profile().ok().map(|x| x as u8),
                        tr.sequence_parameter_set().ok().map(|x| x.to_vec()),
                        tr.picture_parameter_set().ok().map(|x| x.to_vec()),
                        tr.audio_profile().ok().map(|x| x as u8),
                    )
                })
            }) {
                Ok(v) => format!("ok:{v:?}"),
                Err(pi) => format!("panic:{}", pi.discriminator()),
            }
        }
        Q::MovieAccessors => {
            let r = &p.reader;
            match guard(|| format!("{:?}|{}|{:?}|{}|{:?}|{}|{}", r.duration(), r.timescale(), r.major_brand().value, r.minor_version(), r.compatible_brands().iter().map(|b| b.value).collect::<Vec<_>>(), r.is_fragmented(), r.size())) {
                Ok(v) => format!("ok:{v}"),
                Err(pi) => format!("panic:{}", pi.discriminator()),
            }
        }
        Q::Metadata => {
            use mp4::Metadata;
            let r = &p.reader;
            match guard(|| {
                let m = r.metadata();
                format!("{:?}|{:?}|{:?}|{:?}", m.title(), m.year(), m.poster().map(|x| x.len()), m.summary())
            }) {
                Ok(v) => format!("ok:{v}"),
                Err(pi) => format!("panic:{}", pi.discriminator()),
            }
        }
    }
}

fn qkind(q: &Q) -> &'static str {
    match q {
        Q::ReadSample { .. } => "read_sample",
        Q::SampleOffset { .. } => "sample_offset",
        Q::SampleCount { .. } => "sample_count",
        Q::TrackAccessors { .. } => "track_accessors",
        Q::MovieAccessors => "movie_accessors",
        Q::Metadata => "metadata",
    }
}

fn open_player(img: &[u8], split: Option<usize>, io: &crate::scenario::IoKnobs) -> Option<(Player, Vec<crate::simdisk::SimRef>)> {
    open_player_via(img, split, io, 0)
}

/// `via` chooses the reader through which a media segment is opened: 0 = a reader that has seen
/// the initialisation part only; 1 = a reader that was itself opened on this segment through the
/// init reader (segments chained from reader to reader); 2 = a reader that has read the whole
/// stream (init and fragments). The parent's own fragments are no part of "the file and the
/// arguments" of the new reader, so all three must answer alike.
fn open_player_via(img: &[u8], split: Option<usize>, io: &crate::scenario::IoKnobs, via: u8) -> Option<(Player, Vec<crate::simdisk::SimRef>)> {
    let knobs = |sim: &crate::simdisk::SimRef| sim.borrow_mut().set_transparent(io.chunking, io.intr_ppm, io.io_seed);
    match split {
        None => {
            let sim = Sim::shared(SimDisk::from_bytes(img.to_vec()));
            knobs(&sim);
            match Player::open(&sim, 0, img.len() as u64, 0) {
                Opened::Ok(p) => Some((p, vec![sim])),
                _ => None,
            }
        }
        Some(l) => {
            let isim = Sim::shared(SimDisk::from_bytes(img[..l].to_vec()));
            knobs(&isim);
            let init = match Player::open(&isim, 0, l as u64, 0) {
                Opened::Ok(p) => p,
                _ => return None,
            };
            let ssim = Sim::shared(SimDisk::from_bytes(img[l..].to_vec()));
            knobs(&ssim);
            let f = crate::simdisk::SimFile::new(&ssim);
            let slen = (img.len() - l) as u64;
            // a parent that cannot be had (the whole stream does not open) is no verdict on the
            // segment: fall back to the init reader
            let other: Option<Player> = match via {
                1 => {
                    let psim = Sim::shared(SimDisk::from_bytes(img[l..].to_vec()));
                    let pf = crate::simdisk::SimFile::new(&psim);
                    match guard(|| init.reader.read_fragment_header(pf, slen)) {
                        Ok(Ok(reader)) => Some(Player { sim: psim.clone(), reader, api: 1 }),
                        _ => None,
                    }
                }
                2 => {
                    let wsim = Sim::shared(SimDisk::from_bytes(img.to_vec()));
                    match Player::open(&wsim, 0, img.len() as u64, 0) {
                        Opened::Ok(p) => Some(p),
                        _ => None,
                    }
                }
                _ => None,
            };
            let parent = other.unwrap_or(init);
            match guard(|| parent.reader.read_fragment_header(f, slen)) {
                Ok(Ok(reader)) => Some((Player { sim: ssim.clone(), reader, api: 1 }, vec![isim, ssim])),
                _ => None,
            }
        }
    }
}

fn gen_calls(r: &mut Rng, tracks: &[(u32, u32)], n: usize) -> Vec<SCall> {
    let mut v: Vec<SCall> = Vec::new();
    let ghost = tracks.iter().map(|t| t.0).max().unwrap_or(0).wrapping_add(1);
    let pick_track = |r: &mut Rng| -> (u32, u32) {
        if tracks.is_empty() || r.chance(1, 12) {
            (if r.chance(1, 2) { ghost } else { 0 }, 3)
        } else {
            tracks[r.usize_below(tracks.len())]
        }
    };
    let pick_id = |r: &mut Rng, c: u32| -> u32 {
        match r.below(12) {
            0 => 0,
            1 => 1,
            2 => 2,
            3 => c.wrapping_sub(1),
            4 => c,
            5 => c.wrapping_add(1),
            6 => u32::MAX,
            _ => 1 + r.below(c.max(1) as u64) as u32,
        }
    };
    while v.len() < n {
        let (t, c) = pick_track(r);
        match r.below(10) {
            0 => {
                // descending sweep
                let from = c.min(6);
                for k in (1..=from).rev() {
                    v.push(SCall { q: Q::ReadSample { t, k }, fault_at: None });
                }
            }
            1 => {
                // A-B-A
                let (t2, c2) = pick_track(r);
                let a = Q::ReadSample { t, k: pick_id(r, c) };
                let b = Q::ReadSample { t: t2, k: pick_id(r, c2) };
                v.push(SCall { q: a.clone(), fault_at: None });
                v.push(SCall { q: b, fault_at: None });
                v.push(SCall { q: a, fault_at: None });
            }
            2 => {
                // immediate repeat
                let q = Q::ReadSample { t, k: pick_id(r, c) };
                v.push(SCall { q: q.clone(), fault_at: None });
                v.push(SCall { q, fault_at: None });
            }
            3 => v.push(SCall { q: Q::SampleOffset { t, k: pick_id(r, c) }, fault_at: None }),
            4 => v.push(SCall { q: Q::SampleCount { t }, fault_at: None }),
            5 => v.push(SCall { q: Q::TrackAccessors { t }, fault_at: None }),
            6 => v.push(SCall { q: if r.chance(1, 2) { Q::MovieAccessors } else { Q::Metadata }, fault_at: None }),
            7 => {
                // a read that fails in the middle (transient fault), then the same read again
                let q = Q::ReadSample { t, k: pick_id(r, c) };
                v.push(SCall { q: q.clone(), fault_at: Some(if r.chance(1, 2) { r.below(3) } else { r.below(24) } as u32) });
                if r.chance(1, 2) {
                    v.push(SCall { q, fault_at: None });
                }
            }
            _ => v.push(SCall { q: Q::ReadSample { t, k: pick_id(r, c) }, fault_at: None }),
        }
    }
    v.truncate(n);
    v
}

impl Prop for C15 {
    type Case = SchedCase;
    const ID: &'static str = "C15";
    const LEVEL: &'static str = "exploration";
    const UNREPRODUCIBLE_IS_VIOLATION: bool = true;
    fn count(tier: Tier) -> u64 {
        match tier {
            Tier::Quick => 200_000,
            Tier::Thorough => 4_000_000,
        }
    }
    fn gen(seed: u64, idx: u64, tier: Tier) -> SchedCase {
        if idx < 3 {
            // the same history muxed twice, 1.1 s of real time apart
            let mut r = Rng::new(seed);
            let sc = small_scenario(r.next_u64() >> 16);
            let mut c = Self::gen(seed, idx + 1000, tier);
            c.src = IoSrc::Mux(sc);
            c.calls.truncate(4);
            c.pause_ms = 1100;
            return c;
        }
        let mut r = Rng::new(seed);
        let src = match r.below(12) {
            0..=3 => IoSrc::Mux(small_scenario(r.next_u64() >> 16)),
            4 => {
                if r.chance(1, 2) {
                    IoSrc::Seed(SeedSpec::Hybrid { seed: r.below(1 << 16) })
                } else {
                    IoSrc::Seed(SeedSpec::MuxShuffled { seed: r.below(1 << 16) })
                }
            }
            5 => IoSrc::Seed(SeedSpec::Canned("minimal.mp4".into())),
            6 => IoSrc::Seed(SeedSpec::CannedFrag),
            7 | 8 => IoSrc::Seed(SeedSpec::Frag { seed: r.below(1 << 16) }),
            9 => {
                if r.chance(1, 2) {
                    IoSrc::Seed(SeedSpec::Meta { seed: r.below(1 << 16) })
                } else {
                    IoSrc::Seed(SeedSpec::Grammar { seed: r.below(1 << 30) })
                }
            }
            10 => {
                if r.chance(1, 2) {
                    IoSrc::Seed(SeedSpec::MuxReloc { seed: r.below(1 << 16) })
                } else {
                    IoSrc::Seed(SeedSpec::MuxShuffled { seed: r.below(1 << 16) })
                }
            }
            _ => IoSrc::Seed(SeedSpec::Canned("extended_audio_object_type.mp4".into())),
        };
        let img = match &src {
            IoSrc::Mux(sc) => mux_bytes(sc),
            IoSrc::Seed(s) => build(s).bytes,
        };
        let mut tracks = Vec::new();
        if let Some((mut p, _)) = open_player(&img, None, &crate::scenario::IoKnobs::plain()) {
            for t in p.track_ids() {
                if let Ok(Ok(c)) = p.sample_count(t) {
                    tracks.push((t, c));
                }
            }
        }
        let n = match r.below(10) {
            0..=5 => 1 + r.usize_below(12),
            6..=8 => 12 + r.usize_below(60),
            _ => 72 + r.usize_below(228),
        };
        let calls = gen_calls(&mut r, &tracks, n);
        let io = if r.chance(1, 2) { crate::scenario::IoKnobs::plain() } else { crate::scenario::IoKnobs::gen(&mut r) };
        SchedCase { src, calls, io, pause_ms: 0 }
    }
    fn eval(case: &SchedCase, st: &mut Stats) -> Vec<Violation> {
        let prop = "C15";
        let mut out = Vec::new();
        // ---- image; for muxed sources: muxing twice must give identical bytes
        let (img, split) = match &case.src {
            IoSrc::Mux(sc) => {
                let a = mux_bytes(sc);
                if case.pause_ms > 0 {
                    std::thread::sleep(std::time::Duration::from_millis(case.pause_ms as u64));
                    st.inc("probe.double_mux_across_a_second_boundary");
                }
                let b = mux_bytes(sc);
                st.inc("double_mux_runs");
                if a != b {
                    let at = a.iter().zip(b.iter()).position(|(x, y)| x != y).unwrap_or(a.len().min(b.len()));
                    out.push(Violation::new(prop, "mux_not_deterministic", "", format!("two runs of the same history differ at byte {at} ({} vs {} bytes)", a.len(), b.len())));
                }
                st.case_digest = mix(st.case_digest, hash_str(&format!("{}", a.len())));
                (a, None)
            }
            IoSrc::Seed(s) => {
                let si = build(s);
                // fragmented seeds: half of the cases read the media part against the init part
                let split = si.init_len.filter(|_| case.calls.len() % 2 == 0);
                (si.bytes, split)
            }
        };
        st.inc(&format!("image.{}", match &case.src { IoSrc::Mux(_) => "mux", IoSrc::Seed(s) => s.class() }));
        // ---- parsing twice gives equal structures
        // a segment is opened through one of three parents (see open_player_via); the second
        // opening below and every fresh reader go through the plain init reader
        let via = if split.is_some() { ((case.calls.len() / 2) % 3) as u8 } else { 0 };
        if via > 0 {
            st.inc(if via == 1 { "probe.segment_opened_through_a_segment_reader" } else { "probe.segment_opened_through_a_whole_stream_reader" });
        }
        let Some((mut p, sims)) = open_player_via(&img, split, &case.io, via) else {
            if via > 0 && open_player(&img, split, &case.io).is_some() {
                out.push(Violation::new(prop, "parent_dependent_open", &format!("via={via}"), "a segment that opens through the init reader does not open through a reader that already holds fragments".to_string()));
            }
            st.inc("image_does_not_open");
            st.inc(&format!("image_does_not_open.{}", match &case.src { IoSrc::Mux(_) => "mux", IoSrc::Seed(s) => s.class() }));
            return out;
        };
        if let Some((p2, _)) = open_player(&img, split, &case.io) {
            let (a, b) = (&p.reader, &p2.reader);
            let mut ids_a: Vec<u32> = a.tracks().keys().copied().collect();
            let mut ids_b: Vec<u32> = b.tracks().keys().copied().collect();
            ids_a.sort_unstable();
            ids_b.sort_unstable();
            let tracks_equal = ids_a == ids_b
                && ids_a.iter().all(|id| {
                    let (x, y) = (&a.tracks()[id], &b.tracks()[id]);
                    x.trak == y.trak && x.trafs == y.trafs && x.moof_offsets == y.moof_offsets && x.default_sample_duration == y.default_sample_duration
                });
            if a.ftyp != b.ftyp || a.moov != b.moov || a.moofs != b.moofs || a.emsgs != b.emsgs || !tracks_equal {
                out.push(Violation::new(prop, "parse_not_deterministic", "", "opening the same bytes twice gave different structures".to_string()));
            }
        }
        // ---- refused openings of *other* bytes in between must not change what these bytes give
        // (one case in 16): 8-47 damaged variants of the image - a deep box retyped, or the image
        // cut inside a deep box - are opened (most are refused), then the intact image is opened
        // once more and must give the same structures as before. State that outlives a reader
        // (a process- or thread-wide counter, cache or pool fed by failed parses) shows here.
        if case.calls.len() % 16 == 3 {
            let nodes = crate::boxtree::walk(&img);
            let mut deep: Vec<&crate::boxtree::Node> = nodes.iter().filter(|n| n.depth >= 2 && n.start + 8 <= img.len()).collect();
            deep.sort_by_key(|n| std::cmp::Reverse(n.depth));
            if !deep.is_empty() {
                let n_var = 8 + case.calls.len() % 40;
                let mut refused = 0u32;
                for j in 0..n_var {
                    let node = deep[(j * 7 + case.calls.len()) % deep.len()];
                    let mut v = img.clone();
                    if j % 3 == 2 {
                        v.truncate(node.start + 8 + (j % 5));
                    } else {
                        v[node.start + 4..node.start + 8].copy_from_slice(b"zz9z");
                    }
                    let vsim = Sim::shared(SimDisk::from_bytes(v.clone()));
                    if !matches!(Player::open(&vsim, 0, v.len() as u64, 0), Opened::Ok(_)) {
                        refused += 1;
                    }
                }
                st.add("refused_openings_in_between", refused as u64);
                if refused > 0 {
                    st.inc("probe.reopened_after_refused_openings");
                }
                match open_player(&img, split, &crate::scenario::IoKnobs::plain()) {
                    None => out.push(Violation::new(prop, "open_depends_on_earlier_openings", "", format!("the image opened, {refused} damaged variants of it were refused, and now the same bytes are refused as well"))),
                    Some((p3, _)) => {
                        let (a, b) = (&p.reader, &p3.reader);
                        let mut ids_a: Vec<u32> = a.tracks().keys().copied().collect();
                        let mut ids_b: Vec<u32> = b.tracks().keys().copied().collect();
                        ids_a.sort_unstable();
                        ids_b.sort_unstable();
                        let tracks_equal = ids_a == ids_b
                            && ids_a.iter().all(|id| {
                                let (x, y) = (&a.tracks()[id], &b.tracks()[id]);
                                x.trak == y.trak && x.trafs == y.trafs && x.moof_offsets == y.moof_offsets
                            });
                        if a.ftyp != b.ftyp || a.moov != b.moov || a.moofs != b.moofs || !tracks_equal {
                            out.push(Violation::new(prop, "open_depends_on_earlier_openings", "", format!("the same bytes gave different structures after {refused} refused openings of damaged variants")));
                        }
                    }
                }
            }
        }
        // ---- the schedule on one long-lived reader vs fresh-reader answers
        let mut memo: HashMap<Q, String> = HashMap::new();
        let mut shape = 0x15u64;
        let mut last_kind = "";
        let sim = p.sim.clone();
        for (i, c) in case.calls.iter().enumerate() {
            let mut planned = false;
            if let Some(j) = c.fault_at {
                let mut s = sim.borrow_mut();
                let at = s.seq + j as u64;
                s.plan.clear();
                s.plan.push((at, Fault::Err(ErrK::Other)));
                s.last_hard = None;
                planned = true;
            }
            let got = ask(&mut p, &c.q);
            let fired = planned && sim.borrow().last_hard.is_some();
            sim.borrow_mut().plan.clear();
            if fired {
                st.inc("transient_faults_fired");
                // the faulted call itself must report the I/O error (C10 judges that); here it
                // only matters that it does not disturb the calls that follow
                continue;
            }
            let want = match memo.get(&c.q) {
                Some(w) => w.clone(),
                None => {
                    let w = match open_player(&img, split, &crate::scenario::IoKnobs::plain()) {
                        Some((mut fresh, _)) => ask(&mut fresh, &c.q),
                        None => "unopenable".into(),
                    };
                    memo.insert(c.q.clone(), w.clone());
                    w
                }
            };
            st.inc("calls_compared");
            if got != want {
                let after_fault = i > 0 && case.calls[i - 1].fault_at.is_some();
                out.push(Violation::new(
                    prop,
                    "history_dependent_result",
                    format!("call={} after_faulted_call={after_fault}", qkind(&c.q)),
                    format!("call #{i} {:?}: long-lived reader returned {got}, a fresh reader returns {want}", c.q),
                ));
                if out.len() > 8 {
                    break;
                }
            }
            let k = qkind(&c.q);
            if k != last_kind {
                shape = mix(shape, hash_str(k));
                last_kind = k;
            }
        }
        st.distinct.insert(mix(shape, case.calls.len().min(16) as u64));
        st.probe("probe.split_transfers_under_long_lived_reader", case.io.chunking != crate::simdisk::Chunking::Full);
        for s in &sims {
            let s = s.borrow();
            st.case_digest = mix(st.case_digest, s.digest);
            st.absorb_sim(&s);
        }
        let mut seen = std::collections::BTreeSet::new();
        out.retain(|v| seen.insert(v.signature()));
        out
    }
    fn shrink_steps(c: &SchedCase) -> Vec<SchedCase> {
        let mut v = Vec::new();
        let n = c.calls.len();
        let mut size = n / 2;
        while size >= 1 {
            let mut a = 0;
            while a < n {
                let mut d = c.clone();
                let b = (a + size).min(n);
                d.calls.drain(a..b);
                v.push(d);
                a += size;
            }
            if size == 1 {
                break;
            }
            size /= 2;
        }
        if c.io != crate::scenario::IoKnobs::plain() {
            let mut d = c.clone();
            d.io = crate::scenario::IoKnobs::plain();
            v.push(d);
        }
        for i in 0..n {
            if c.calls[i].fault_at.is_some() {
                let mut d = c.clone();
                d.calls[i].fault_at = None;
                v.push(d);
            }
        }
        v
    }
    fn rule() -> String {
        "seeded reader schedules (<= 300 calls of read_sample / sample_offset / sample_count / all track accessors / movie accessors / metadata; ids biased to 0,1,2,count-1,count,count+1,u32::MAX; unknown track ids; immediate repeats, A-B-A patterns, descending sweeps) over muxer-made, canned and packager images (fragmented ones also as init+segment, the segment opened through the init reader, through a reader that was itself opened on a segment, or through a reader of the whole fragmented stream - all judged against the init-reader answer), with transient hard stream faults inside some read_sample calls (the stream under the long-lived reader may split transfers or report EINTR, so a fault can land in the middle of a sample; fresh readers use a plain stream); every non-faulted call must equal the answer of a fresh reader asked once, in particular the call right after a faulted one; the same muxing history run twice must give identical bytes and the same bytes opened twice equal structures; distinct_nontrivial = distinct schedule shapes (sequence of call kinds with repeats collapsed, bucketed length); three cases per run mux their history twice with 1.1 s of real time between the runs (the only real delay in the machinery: the library reads no clock, so there is no seam to put one behind; an output that depends on the time of day shows here)".into()
    }
    fn assumptions() -> Vec<String> {
        vec![
            "the fresh-reader answer is the reference (the property is relative: history independence), errors are compared by variant and message, I/O errors by kind".into(),
            "cross-process determinism of muxing is covered by the run digest compared across processes in selfcheck".into(),
        ]
    }
    fn mandatory_probes(_t: Tier) -> Vec<&'static str> {
        vec!["transient_faults_fired", "double_mux_runs", "probe.double_mux_across_a_second_boundary", "image.frag", "image.canned_frag", "calls_compared", "probe.segment_opened_through_a_segment_reader", "probe.segment_opened_through_a_whole_stream_reader", "probe.reopened_after_refused_openings"]
    }
}
