//! C11 — truncated files never yield wrong data (mode D: cut enumeration).
use crate::model::{Opened, Player, SampleOutcome};
use crate::prng::{mix, Rng};
use crate::runner::{Prop, Tier};
use crate::seeds::{build, SeedSpec};
use crate::simdisk::{Sim, SimDisk};
use crate::stats::{hash_str, Stats};
use crate::verdict::Violation;
use serde::{Deserialize, Serialize};
use std::collections::BTreeMap;

pub struct C11;

#[derive(Clone, Debug, Serialize, Deserialize)]
pub struct CutCase {
    pub seed: SeedSpec,
    /// None = every cut position (or the stride rule for large images); Some = just these
    pub cuts: Option<Vec<u64>>,
}

#[derive(Clone)]
struct BaseSample {
    bytes_hash: u64,
    len: usize,
    start: u64,
    duration: u32,
    offset: i32,
}

fn hash_bytes(b: &[u8]) -> u64 {
    let mut h = 0x11u64;
    for c in b.chunks(8) {
        let mut w = [0u8; 8];
        w[..c.len()].copy_from_slice(c);
        h = mix(h, u64::from_le_bytes(w));
    }
    mix(h, b.len() as u64)
}

const MAX_IDS: u32 = 64;

fn ids_for(count: u32) -> Vec<u32> {
    let mut v: Vec<u32> = if count < MAX_IDS {
        (1..=count + 1).collect()
    } else {
        let mut v: Vec<u32> = (1..=24).collect();
        v.extend(count - 23..=count + 1);
        let step = ((count - 48) / 16).max(1);
        let mut k = 25;
        while k < count - 23 && v.len() < MAX_IDS as usize {
            v.push(k);
            k += step;
        }
        v
    };
    v.sort_unstable();
    v.dedup();
    v
}

fn cuts_for(len: u64, img: &[u8]) -> Vec<u64> {
    if len <= 64 << 10 {
        return (0..len).collect();
    }
    // large image: every cut inside metadata, every box boundary +-8, every 61st byte of media
    let nodes = crate::boxtree::walk(img);
    let mut set = std::collections::BTreeSet::new();
    for n in nodes.iter() {
        let (a, b) = (n.start as u64, n.end() as u64);
        for d in 0..=8u64 {
            for x in [a.saturating_sub(d), a + d, b.saturating_sub(d), b + d] {
                if x < len {
                    set.insert(x);
                }
            }
        }
        if n.depth == 0 && !n.is(b"mdat") {
            for x in a..b.min(len) {
                set.insert(x);
            }
        }
        if n.depth == 0 && n.is(b"mdat") {
            // every 61st byte of the media data; about 1 500 cuts for very large media data
            let step = 61u64.max((b - a) / 1500) | 1;
            let mut x = a;
            while x < b.min(len) {
                set.insert(x);
                x += step;
            }
        }
    }
    set.into_iter().collect()
}


#[derive(Default)]
struct Tally {
    opened: u64,
    samples: u64,
    fewer: bool,
}

#[allow(clippy::too_many_arguments)]
fn scan(
    prop: &str,
    class: &str,
    spec_hash: u64,
    sim: &crate::simdisk::SimRef,
    len: u64,
    opener: &mut dyn FnMut(u64) -> Opened,
    base: &BTreeMap<(u32, u32), BaseSample>,
    base_counts: &BTreeMap<u32, u32>,
    cuts: &[u64],
    st: &mut Stats,
    out: &mut Vec<Violation>,
    tally: &mut Tally,
) {
        for c in cuts.iter().copied() {
            if c >= len {
                continue;
            }
            {
                let mut s = sim.borrow_mut();
                s.disk.set_cap(Some(c));
                s.budget_ops = 10_000 + 64 * c;
                s.budget_bytes = (1 << 20) + 64 * c;
                s.budget_tripped = false;
            }
            st.evaluations_override += 1;
            st.distinct.insert(mix(spec_hash, c));
            let opened = opener(c);
            if sim.borrow().budget_tripped {
                out.push(Violation::new(prop, "hang_on_truncated_file", format!("api=read_header image={class}"), format!("cut at {c} of {len}: read_header exceeded 10000+64n stream calls")));
            }
            match opened {
                Opened::Err(_) => {}
                Opened::Panic(pi) => out.push(Violation::new(prop, "panic_on_truncated_file", format!("api=read_header {}", pi.discriminator()), format!("cut at {c} of {len} ({class}): {} at {}", pi.msg, pi.location))),
                Opened::Ok(mut p) => {
                    tally.opened += 1;
                    for t in p.track_ids() {
                        let cnt = match p.sample_count(t) {
                            Ok(Ok(x)) => x,
                            Ok(Err(_)) => 0,
                            Err(pi) => {
                                out.push(Violation::new(prop, "panic_on_truncated_file", format!("api=sample_count {}", pi.discriminator()), format!("cut at {c} of {len} ({class})")));
                                0
                            }
                        };
                        let bc = base_counts.get(&t).copied();
                        if bc.is_none() {
                            out.push(Violation::new(prop, "phantom_track", format!("image={class}"), format!("cut at {c} of {len}: track {t} does not exist in the complete file")));
                            continue;
                        }
                        // same id selection as the baseline (ids are chosen from the complete
                        // file's count so that every compared id has a baseline entry or is past the end)
                        let mut ids = ids_for(bc.unwrap());
                        if cnt < bc.unwrap() {
                            tally.fewer = true;
                        }
                        if cnt != bc.unwrap() {
                            ids.extend(ids_for(cnt));
                            ids.sort_unstable();
                            ids.dedup();
                        }
                        for k in ids {
                            sim.borrow_mut().budget_tripped = false;
                            let o = p.read_sample(t, k);
                            if sim.borrow().budget_tripped {
                                out.push(Violation::new(prop, "hang_on_truncated_file", format!("api=read_sample image={class}"), format!("cut at {c} of {len}: read_sample({t},{k}) exceeded its stream-call budget")));
                            }
                            match o {
                                SampleOutcome::Panic(pi) => out.push(Violation::new(prop, "panic_on_truncated_file", format!("api=read_sample {}", pi.discriminator()), format!("cut at {c} of {len} ({class}): read_sample({t},{k})"))),
                                SampleOutcome::Some(s) => {
                                    tally.samples += 1;
                                    match base.get(&(t, k)) {
                                        None => {
                                            let bcount = bc.unwrap();
                                            if k > bcount {
                                                out.push(Violation::new(prop, "phantom_sample", format!("image={class}"), format!("cut at {c} of {len}: read_sample({t},{k}) returned a sample, the complete file has {bcount} samples")));
                                            } else if ids_for(bcount).contains(&k) {
                                                // the complete file was asked for this id and gave no sample
                                                out.push(Violation::new(prop, "phantom_sample", format!("image={class}"), format!("cut at {c} of {len}: read_sample({t},{k}) returned a sample that the complete file does not return")));
                                            }
                                        }
                                        Some(b) => {
                                            let what = if s.bytes.len() != b.len || hash_bytes(&s.bytes) != b.bytes_hash {
                                                Some("bytes")
                                            } else if s.start_time != b.start {
                                                Some("start_time")
                                            } else if s.duration != b.duration {
                                                Some("duration")
                                            } else if s.rendering_offset != b.offset {
                                                Some("rendering_offset")
                                            } else {
                                                None
                                            };
                                            if let Some(w) = what {
                                                out.push(Violation::new(prop, "wrong_sample_from_truncated_file", format!("what={w} image={class}"), format!("cut at {c} of {len}: read_sample({t},{k}) differs from the complete file in {w}")));
                                            }
                                        }
                                    }
                                }
                                _ => {
                                    // the read failed (the sample reaches beyond the cut): asked
                                    // again, the same reader must not hand out anything that is
                                    // not that sample of the complete file
                                    if let SampleOutcome::Some(s) = p.read_sample(t, k) {
                                        tally.samples += 1;
                                        let ok = base.get(&(t, k)).map(|b| s.bytes.len() == b.len && hash_bytes(&s.bytes) == b.bytes_hash && s.start_time == b.start && s.duration == b.duration && s.rendering_offset == b.offset).unwrap_or(false);
                                        if !ok {
                                            out.push(Violation::new(prop, "wrong_sample_from_truncated_file", format!("what=after_failed_read image={class}"), format!("cut at {c} of {len}: read_sample({t},{k}) failed, the same call again returned a sample that is not that sample of the complete file")));
                                        }
                                    }
                                }
                            }
                        }
                    }
                }
            }
            if out.len() > 40 {
                break;
            }
        }
    sim.borrow_mut().disk.set_cap(None);
}

impl Prop for C11 {
    type Case = CutCase;
    const ID: &'static str = "C11";
    const LEVEL: &'static str = "fault_enumeration";
    const STALL_SECS: u64 = 120;
    fn count(tier: Tier) -> u64 {
        match tier {
            Tier::Quick => 400,
            Tier::Thorough => 12_000,
        }
    }
    fn gen(seed: u64, idx: u64, tier: Tier) -> CutCase {
        let mut r = Rng::new(seed);
        let class = if idx < 20 { idx } else { 3 + r.below(9) };
        let spec = match class {
            0 => SeedSpec::Canned("minimal.mp4".into()),
            1 => SeedSpec::CannedFrag,
            2 => SeedSpec::Canned("extended_audio_object_type.mp4".into()),
            3 | 4 => SeedSpec::Mux { seed: r.below(1 << 20) },
            5 => SeedSpec::MuxReloc { seed: r.below(1 << 20) },
            6 => SeedSpec::MuxShuffled { seed: r.below(1 << 20) },
            7 => SeedSpec::Meta { seed: r.below(1 << 20) },
            8 => SeedSpec::Frag { seed: r.below(1 << 20) },
            10 => SeedSpec::Hybrid { seed: r.below(1 << 20) },
            // every table of the last track in turn as the final box of the file
            11 => SeedSpec::MuxRotated { seed: r.below(1 << 20), k: r.below(8) as u8 },
            12..=18 => SeedSpec::MuxRotated { seed: 7 + idx, k: (idx - 12) as u8 },
            // movie header first, one sample of more than a MiB among small ones
            19 => SeedSpec::BigSample { seed: r.below(1 << 20) },
            _ => {
                if (tier == Tier::Thorough && r.chance(1, 40)) || idx == 9 {
                    SeedSpec::Canned("big_buck_bunny_metadata.m4v".into())
                } else {
                    SeedSpec::Frag { seed: r.below(1 << 20) }
                }
            }
        };
        CutCase { seed: spec, cuts: None }
    }
    fn eval(case: &CutCase, st: &mut Stats) -> Vec<Violation> {
        let prop = "C11";
        let mut out: Vec<Violation> = Vec::new();
        let si = build(&case.seed);
        let si_init_len = si.init_len;
        let img = si.bytes;
        let len = img.len() as u64;
        let class = case.seed.class();
        let spec_hash = hash_str(&serde_json::to_string(&case.seed).unwrap_or_default());
        st.inc(&format!("image.{class}"));
        let sim = Sim::shared(SimDisk::from_bytes(img.clone()));
        // ---- baseline: the library's own answers on the intact image
        let mut base: BTreeMap<(u32, u32), BaseSample> = BTreeMap::new();
        let mut base_counts: BTreeMap<u32, u32> = BTreeMap::new();
        match Player::open(&sim, 0, len, 0) {
            Opened::Ok(mut p) => {
                for t in p.track_ids() {
                    let c = match p.sample_count(t) {
                        Ok(Ok(c)) => c,
                        _ => 0,
                    };
                    base_counts.insert(t, c);
                    for k in ids_for(c) {
                        if let SampleOutcome::Some(s) = p.read_sample(t, k) {
                            base.insert((t, k), BaseSample { bytes_hash: hash_bytes(&s.bytes), len: s.bytes.len(), start: s.start_time, duration: s.duration, offset: s.rendering_offset });
                        }
                    }
                }
            }
            _ => {
                // the property is about prefixes of VALID files: an image that does not open
                // intact has no baseline and is not in its domain
                st.inc("intact_image_does_not_open");
                // feeds the runner's reach guard (valid-by-construction images must open)
                st.inc(&format!("image_does_not_open.{class}"));
                return out;
            }
        }
        st.add("baseline_samples", base.len() as u64);
        // ---- every cut of the single stream
        let cuts = match &case.cuts {
            Some(c) => c.clone(),
            None => cuts_for(len, &img),
        };
        let mut tally = Tally::default();
        {
            let simc = sim.clone();
            let mut opener = |c: u64| Player::open(&simc, 0, c, 0);
            scan(prop, class, spec_hash, &sim, len, &mut opener, &base, &base_counts, &cuts, st, &mut out, &mut tally);
        }
        // ---- fragmented seeds: every cut of the media part opened against the intact init part
        if let (Some(l), None) = (si_init_len, &case.cuts) {
            if l < img.len() {
                let isim = Sim::shared(SimDisk::from_bytes(img[..l].to_vec()));
                if let Opened::Ok(init) = Player::open(&isim, 0, l as u64, 0) {
                    let seg = img[l..].to_vec();
                    let slen = seg.len() as u64;
                    let ssim = Sim::shared(SimDisk::from_bytes(seg.clone()));
                    let open_seg = |c: u64| -> Opened {
                        let f = crate::simdisk::SimFile::new(&ssim);
                        ssim.borrow_mut().begin_api(0);
                        match crate::panicx::guard(|| init.reader.read_fragment_header(f, c)) {
                            Ok(Ok(reader)) => Opened::Ok(Player { sim: ssim.clone(), reader, api: 1 }),
                            Ok(Err(e)) => Opened::Err(crate::mux::ErrSummary::of(&e)),
                            Err(p) => Opened::Panic(p),
                        }
                    };
                    // baseline of the split view
                    let mut sbase: BTreeMap<(u32, u32), BaseSample> = BTreeMap::new();
                    let mut sbase_counts: BTreeMap<u32, u32> = BTreeMap::new();
                    if let Opened::Ok(mut p) = open_seg(slen) {
                        for t in p.track_ids() {
                            let c = match p.sample_count(t) {
                                Ok(Ok(c)) => c,
                                _ => 0,
                            };
                            sbase_counts.insert(t, c);
                            for k in ids_for(c) {
                                if let SampleOutcome::Some(s) = p.read_sample(t, k) {
                                    sbase.insert((t, k), BaseSample { bytes_hash: hash_bytes(&s.bytes), len: s.bytes.len(), start: s.start_time, duration: s.duration, offset: s.rendering_offset });
                                }
                            }
                        }
                        st.inc("split_view_baselines");
                        let scuts: Vec<u64> = (0..slen).collect();
                        let mut opener = |c: u64| open_seg(c);
                        let split_class: &'static str = if class == "frag" { "frag_split" } else { "canned_frag_split" };
                        scan(prop, split_class, spec_hash ^ 0x5117, &ssim, slen, &mut opener, &sbase, &sbase_counts, &scuts, st, &mut out, &mut tally);
                        st.absorb_sim(&ssim.borrow());
                    }
                }
            }
        }
        let (opened_cuts, samples_checked, fewer) = (tally.opened, tally.samples, tally.fewer);
        {
            let mut s = sim.borrow_mut();
            s.disk.set_cap(None);
            st.case_digest = mix(st.case_digest, s.digest);
        }
        st.add("cuts_that_opened", opened_cuts);
        st.add("samples_compared_with_baseline", samples_checked);
        st.probe("probe.some_cut_opened", opened_cuts > 0);
        st.probe("probe.cut_opened_with_fewer_samples", fewer);
        st.absorb_sim(&sim.borrow());
        let mut seen = std::collections::BTreeSet::new();
        out.retain(|v| seen.insert(v.signature()));
        out
    }
    fn shrink_steps(c: &CutCase) -> Vec<CutCase> {
        // narrow the cut set: halves, then singles
        let cuts: Vec<u64> = match &c.cuts {
            Some(v) => v.clone(),
            None => {
                let si = build(&c.seed);
                cuts_for(si.bytes.len() as u64, &si.bytes)
            }
        };
        let mut v = Vec::new();
        if cuts.len() > 1 {
            let mid = cuts.len() / 2;
            v.push(CutCase { seed: c.seed.clone(), cuts: Some(cuts[..mid].to_vec()) });
            v.push(CutCase { seed: c.seed.clone(), cuts: Some(cuts[mid..].to_vec()) });
            if cuts.len() <= 16 {
                for x in &cuts {
                    v.push(CutCase { seed: c.seed.clone(), cuts: Some(vec![*x]) });
                }
            }
        }
        v
    }
    fn rule() -> String {
        "per seed image (canned files incl. moov-first with metadata, mdat-first, init+fragment as one stream; real-muxer outputs mdat-first and relocated moov-first; metadata variants; packager fragmented streams with several fragments): EVERY cut position c in [0,len) for images <= 64 KiB (larger: every byte of metadata, every box boundary +-8, every 61st media byte); the prefix is opened with size = c; if it opens, every track's samples (<= 64 ids per track, boundary-biased, incl. count+1) are read and each returned sample must equal the complete file's sample in bytes, start time, duration and rendering offset; panics and exceeded stream-call budgets are violations; evaluations = cuts executed; distinct_nontrivial = distinct (seed image, cut position) pairs".into()
    }
    fn assumptions() -> Vec<String> {
        vec![
            "the baseline is the library's own reading of the intact image (absolute correctness of that reading is C01's job for muxer-made images)".into(),
            "is_sync is not compared: for fragmented files it is a function of the number of fragments present".into(),
        ]
    }
    fn exhaustive() -> bool {
        false
    }
    fn mandatory_probes(_t: Tier) -> Vec<&'static str> {
        vec!["probe.some_cut_opened", "image.canned_frag", "image.mux_reloc", "image.frag", "image.meta", "image.hybrid", "image.mux_rotated", "image.big_sample"]
    }
}

#[allow(dead_code)]
fn unused(_r: &mut Rng) {}
