//! C17 — muxer API is total: bad arguments are errors, never panics (mode B, both profiles).
use crate::configcheck::check_config;
use crate::model::{check_readback, Model};
use crate::modea;
use crate::mux::{run_mux, CallResult};
use crate::prng::{mix, Rng};
use crate::runner::{Prop, Tier};
use crate::scenario::*;
use crate::simdisk::{ErrK, Fault, Sim};
use crate::stats::{hash_str, Stats};
use crate::verdict::Violation;
use serde::{Deserialize, Serialize};

pub struct C17;

#[derive(Clone, Debug, Serialize, Deserialize)]
pub struct HostileCase {
    pub sc: MuxScenario,
    /// hard stream fault (stream-call sequence number, fault) or none
    pub fault: Option<(u64, Fault)>,
}

/// Is the history inside the domain in which the other muxer properties are stated? Judged on
/// the calls the muxer accepted: rejected calls leave no trace, so their arguments do not matter.
fn in_valid_domain(full: &MuxScenario, results: &[CallResult]) -> bool {
    let sc = &MuxScenario {
        ops: full.ops.iter().enumerate().filter(|(i, _)| results.get(i + 1).map(|r| r.is_ok()).unwrap_or(false)).map(|(_, o)| o.clone()).collect(),
        ..full.clone()
    };
    if sc.cfg.timescale == 0 {
        return false;
    }
    // (a history whose track duration does not fit the 64-bit header field is not excluded:
    // the muxer has to reject the sample that would overflow it, not store something else)
    sc.ops.iter().all(|op| match op {
        Op::AddTrack(t) => t.timescale >= 1,
        _ => true,
    })
}

impl Prop for C17 {
    type Case = HostileCase;
    const ID: &'static str = "C17";
    const LEVEL: &'static str = "exploration";
    const BOTH_PROFILES: bool = true;
    fn count(tier: Tier) -> u64 {
        match tier {
            Tier::Quick => 120_000,
            Tier::Thorough => 6_000_000,
        }
    }
    fn gen(seed: u64, _idx: u64, tier: Tier) -> HostileCase {
        let mut r = Rng::new(seed);
        let mut o = GenOpts::hostile();
        if tier == Tier::Thorough {
            o.long_ops = 600;
        }
        let mut sc = gen_mux(&mut r, &o);
        // 64 KiB parameter sets under one-byte transfers cost 10^5 stream calls and add nothing
        if sc.io.chunking != crate::simdisk::Chunking::Full {
            for op in sc.ops.iter_mut() {
                if let Op::AddTrack(t) = op {
                    if t.sps.len() > 4096 {
                        t.sps.truncate(300);
                    }
                    if t.pps.len() > 4096 {
                        t.pps.truncate(300);
                    }
                }
            }
        }
        // extreme sample fields sprinkled over the history
        let n = sc.ops.len();
        for op in sc.ops.iter_mut() {
            if let Op::Write { s, .. } = op {
                if r.chance(1, 12) {
                    s.duration = *r.pick(&[0u32, 1, u32::MAX, u32::MAX - 1, 1 << 31]);
                }
                if r.chance(1, 12) {
                    s.offset = *r.pick(&[i32::MIN, i32::MAX, -1, 0]);
                }
            }
        }
        // rare: one very large sample around the 24-bit boundary (16 MiB)
        if r.chance(1, 100) && n > 1 {
            let big = *r.pick(&[(1u64 << 24) - 1, 1 << 24, (1 << 24) + 1]);
            for op in sc.ops.iter_mut() {
                if let Op::Write { s, .. } = op {
                    s.payload = Payload::Fill { byte: 0x5A, len: big };
                    break;
                }
            }
            // 16 MiB through one-byte transfers would be 10^7 stream calls for nothing
            sc.io = IoKnobs::plain();
        }
        let fault = if r.chance(1, 5) {
            let seq = r.below(4 * n as u64 + 24);
            let f = match r.below(4) {
                0 => Fault::Zero,
                1 => Fault::Err(ErrK::StorageFull),
                2 => Fault::Err(ErrK::Other),
                _ => Fault::Err(ErrK::BrokenPipe),
            };
            Some((seq, f))
        } else {
            None
        };
        HostileCase { sc, fault }
    }
    fn eval(case: &HostileCase, st: &mut Stats) -> Vec<Violation> {
        let prop = "C17";
        let sc = &case.sc;
        let mut out = Vec::new();
        let sim = Sim::shared(modea::initial_disk(sc));
        {
            let mut s = sim.borrow_mut();
            s.set_transparent(sc.io.chunking, sc.io.intr_ppm, sc.io.io_seed);
            if let Some(f) = case.fault {
                s.plan.push(f);
            }
        }
        let run = run_mux(sc, &sim, None);
        // a planned fault that never fired must not fire during the read-back
        sim.borrow_mut().plan.clear();
        {
            let s = sim.borrow();
            st.case_digest = mix(st.case_digest, s.digest);
            st.case_digest = mix(st.case_digest, s.disk.digest());
        }
        let mut all_ok = true;
        for (i, r) in run.results.iter().enumerate() {
            st.case_digest = mix(st.case_digest, hash_str(&r.code()));
            let api = if i == 0 {
                "write_start"
            } else {
                match &sc.ops[i - 1] {
                    Op::AddTrack(_) => "add_track",
                    Op::Write { .. } => "write_sample",
                    Op::End => "write_end",
                }
            };
            match r {
                CallResult::Ok => {
                    st.inc(&format!("outcome.{api}.ok"));
                }
                CallResult::Err(e) => {
                    all_ok = false;
                    st.inc(&format!("outcome.{api}.err"));
                    st.distinct.insert(hash_str(&format!("{api} {}", e.short())));
                }
                CallResult::Panic(p) => {
                    all_ok = false;
                    out.push(Violation::new(prop, "mux_panic", format!("api={api} {}", p.discriminator()), format!("{} at {}", p.msg, p.location)));
                }
                CallResult::NotRun => {
                    all_ok = false;
                }
            }
        }
        let fault_fired = sim.borrow().last_hard.is_some();
        st.probe("probe.hard_fault_fired", fault_fired);
        st.probe("probe.zero_timescale", sc.cfg.timescale == 0 || sc.ops.iter().any(|o| matches!(o, Op::AddTrack(t) if t.timescale == 0)));
        st.probe("probe.short_sps", sc.ops.iter().any(|o| matches!(o, Op::AddTrack(t) if t.kind == Kind::Avc && t.sps.len() < 4)));
        st.probe("probe.huge_sample", sc.ops.iter().any(|o| matches!(o, Op::Write { s, .. } if s.payload.len() >= (1 << 24) - 1)));
        st.probe("probe.no_tracks", sc.track_count() == 0);
        st.probe("probe.mismatched_track_type", sc.ops.iter().any(|o| matches!(o, Op::AddTrack(t) if t.track_type != t.kind.natural_track_type())));
        // table-shape style signature of the call history for the distinct measure
        let mut h = 0x17u64;
        for r in run.results.iter().take(24) {
            h = mix(h, match r {
                CallResult::Ok => 1,
                CallResult::Err(_) => 2,
                CallResult::Panic(_) => 3,
                CallResult::NotRun => 4,
            });
        }
        st.distinct.insert(h);
        if all_ok && run.ended_ok && !fault_fired {
            st.inc("histories_all_ok");
            if in_valid_domain(sc, &run.results) {
                st.inc("histories_all_ok_in_domain");
                let model = Model::build(prop, sc, &run, &mut out);
                let end = run.end_pos.unwrap_or_else(|| sim.borrow().disk.len());
                check_readback(prop, &sim, sc.start_pos, end, &model, false, &mut out);
                let parsed = crate::indep::parse(&sim.borrow().disk, sc.start_pos, end);
                match parsed {
                    Ok(m) => {
                        modea::check_structure(prop, &m, &model, end, &mut out);
                    }
                    Err((inv, d)) => out.push(Violation::new(prop, inv, "parse".to_string(), d)),
                }
                check_config(prop, &sim, sc, end, &model, true, &mut out);
            }
        }
        st.absorb_sim(&sim.borrow());
        out
    }
    fn shrink_steps(case: &HostileCase) -> Vec<HostileCase> {
        let mut v = Vec::new();
        if case.fault.is_some() {
            v.push(HostileCase { sc: case.sc.clone(), fault: None });
        }
        for sc in modea::shrink_mux(&case.sc) {
            v.push(HostileCase { sc, fault: case.fault });
        }
        v
    }
    fn rule() -> String {
        "seeded hostile muxing histories: the full value range of every public field (timescales incl. 0, empty/long/non-ASCII languages, SPS/PPS of 0..8 and >64 KiB bytes, mismatched track_type/media_conf, 0 or 300 brands, durations 0/u32::MAX, offsets i32::MIN/MAX, samples of 2^24-1/2^24/2^24+1 bytes, track ids 0/n+1/u32::MAX, no tracks), any call order up to write_end, a hard stream fault at a random call in 20% of the cases, each call under catch_unwind in the overflow-checked and in the wrapping build; when every call succeeded inside the documented domain the C01 read-back, C02 relations and C14 comparisons are applied; distinct_nontrivial = distinct (API call, error message) pairs plus distinct outcome sequences of the first 24 calls".into()
    }
    fn assumptions() -> Vec<String> {
        vec![
            "a panic is anything caught by catch_unwind around one Mp4Writer call; aborts and stack overflows are caught by the supervisor as worker death".into(),
            "the other muxer properties are applied only inside their own quantifier domain (timescales >= 1, track duration < 2^62 movie ticks)".into(),
        ]
    }
    fn mandatory_probes(_t: Tier) -> Vec<&'static str> {
        vec!["probe.hard_fault_fired", "probe.zero_timescale", "probe.short_sps", "probe.huge_sample", "probe.no_tracks", "probe.mismatched_track_type"]
    }
}
