//! C17 — muxer API is total: bad arguments are errors, never panics (mode B, both profiles).
use crate::configcheck::check_config;
use crate::model::{check_readback, Model};
use crate::modea;
use crate::mux::{run_mux, CallResult};
use crate::prng::{mix, Rng};
use crate::runner::{Prop, Tier};
use crate::scenario::*;
use crate::simdisk::{ErrK, Fault, Sim};
use crate::stats::{hash_str, Stats};
use crate::verdict::Violation;
use serde::{Deserialize, Serialize};

pub struct C17;

#[derive(Clone, Debug, Serialize, Deserialize)]
pub struct HostileCase {
    pub sc: MuxScenario,
    /// hard stream fault (stream-call sequence number, fault) or none
    pub fault: Option<(u64, Fault)>,
    /// long-run form: after the add_track calls of `sc`, this many write_sample calls of one
    /// one-byte sample on track 1 (not materialised as ops), then write_end
    /// length of the outage in consecutive stream calls (0 and 1 both mean a single call)
    #[serde(default)]
    pub fault_len: u8,
    #[serde(default)]
    pub repeat: u64,
    /// before API call `.0` (1 = first call after write_start) the sink's position is `.1`:
    /// another handle on the same open file was used between two muxer calls
    #[serde(default)]
    pub reposition: Option<(u32, u64)>,
    /// the application alternates the shared offset between two regions of one big file
    /// (nothing is overwritten): the finished file must be as good as on a plain sink
    #[serde(default)]
    pub regions: Option<crate::simdisk::RegionPlan>,
}

/// The history that no vector of operations can hold: more write_sample calls than the 32-bit
/// sample counters of a track can count. Every call must return success or an error, and when
/// write_end succeeds the file must describe exactly the accepted samples.
fn eval_long_run(case: &HostileCase, st: &mut Stats) -> Vec<Violation> {
    use crate::panicx::guard;
    use std::io::Write as _;
    let prop = "C17";
    let mut out = Vec::new();
    let sim = Sim::shared(crate::simdisk::SimDisk::new());
    let file = crate::simdisk::SimFile::at(&sim, 0);
    let cfg = crate::mux::to_mp4_config(&case.sc.cfg);
    let mut w = match guard(|| mp4::Mp4Writer::write_start(file, &cfg)) {
        Ok(Ok(w)) => w,
        Ok(Err(e)) => {
            out.push(Violation::new(prop, "long_run_setup", "api=write_start", format!("{e}")));
            return out;
        }
        Err(p) => {
            out.push(Violation::new(prop, "mux_panic", format!("api=write_start {}", p.discriminator()), format!("{} at {}", p.msg, p.location)));
            return out;
        }
    };
    for op in &case.sc.ops {
        if let Op::AddTrack(tc) = op {
            let c = crate::mux::to_track_config(tc);
            match guard(|| w.add_track(&c)) {
                Ok(Ok(())) => {}
                Ok(Err(e)) => {
                    out.push(Violation::new(prop, "long_run_setup", "api=add_track", format!("{e}")));
                    return out;
                }
                Err(p) => {
                    out.push(Violation::new(prop, "mux_panic", format!("api=add_track {}", p.discriminator()), format!("{} at {}", p.msg, p.location)));
                    return out;
                }
            }
        }
    }
    static ONE: [u8; 1] = [0x5A];
    let sample = mp4::Mp4Sample { start_time: 0, duration: 1, rendering_offset: 0, is_sync: false, bytes: bytes::Bytes::from_static(&ONE) };
    let n = case.repeat;
    let mut calls = 0u64;
    let mut accepted = 0u64;
    let mut err_run = 0u32;
    let mut first_err: Option<(u64, String)> = None;
    let mut ok_after_err = false;
    while calls < n && err_run < 3 {
        let batch = (n - calls).min(1 << 24);
        let r = guard(|| {
            for _ in 0..batch {
                calls += 1;
                match w.write_sample(1, &sample) {
                    Ok(_) => {
                        accepted += 1;
                        if first_err.is_some() {
                            ok_after_err = true;
                        }
                        err_run = 0;
                    }
                    Err(e) => {
                        if first_err.is_none() {
                            first_err = Some((calls, format!("{e}")));
                        }
                        err_run += 1;
                        if err_run >= 3 {
                            return;
                        }
                    }
                }
            }
        });
        if let Err(p) = r {
            st.case_digest = mix(st.case_digest, calls);
            out.push(Violation::new(prop, "mux_panic", format!("api=write_sample {}", p.discriminator()), format!("call {calls} of a run of one-byte samples on one track: {} at {}", p.msg, p.location)));
            return out;
        }
        // heartbeat for the supervisor: this case legitimately runs for minutes
        let so = std::io::stdout();
        let mut o = so.lock();
        let _ = writeln!(o, "H {calls}");
        let _ = o.flush();
    }
    st.inc("long_run.histories");
    st.add("long_run.write_sample_calls", calls);
    st.probe("probe.long_run_beyond_u32_samples", calls >= u32::MAX as u64);
    st.probe("probe.long_run_rejection_seen", first_err.is_some());
    st.case_digest = mix(st.case_digest, accepted);
    st.case_digest = mix(st.case_digest, first_err.as_ref().map(|(c, m)| mix(*c, hash_str(m))).unwrap_or(0));
    st.distinct.insert(mix(0x10e6, accepted));
    match guard(|| w.write_end()) {
        Err(p) => {
            out.push(Violation::new(prop, "mux_panic", format!("api=write_end {}", p.discriminator()), format!("after {accepted} accepted samples: {} at {}", p.msg, p.location)));
            return out;
        }
        Ok(Err(e)) => {
            // an error is an allowed outcome; nothing further can be said about the file
            st.inc("long_run.write_end_err");
            st.case_digest = mix(st.case_digest, hash_str(&format!("{e}")));
            return out;
        }
        Ok(Ok(())) => {}
    }
    let end = sim.borrow().disk.len();
    st.case_digest = mix(st.case_digest, sim.borrow().disk.digest());
    // read back: the file must describe exactly the accepted samples
    let rf = crate::simdisk::SimFile::at(&sim, 0);
    let mut rd = match guard(|| mp4::Mp4Reader::read_header(rf, end)) {
        Ok(Ok(r)) => r,
        Ok(Err(e)) => {
            out.push(Violation::new(prop, "readback_open_failed", "long_run", format!("after {accepted} accepted samples: {e}")));
            return out;
        }
        Err(p) => {
            out.push(Violation::new(prop, "readback_panic", format!("long_run {}", p.discriminator()), format!("{} at {}", p.msg, p.location)));
            return out;
        }
    };
    let count = guard(|| rd.sample_count(1)).ok().and_then(|r| r.ok());
    if count.map(|c| c as u64) != Some(accepted) {
        out.push(Violation::new(prop, "sample_count", "long_run", format!("{accepted} write_sample calls returned Ok (of {calls}; first error: {first_err:?}), write_end returned Ok, the file declares {count:?} samples")));
        return out;
    }
    let media_dur = rd.tracks().get(&1).map(|t| t.trak.mdia.mdhd.duration);
    if media_dur != Some(accepted) {
        out.push(Violation::new(prop, "mdhd_duration", "long_run", format!("{accepted} samples of duration 1 accepted, media duration {media_dur:?}")));
    }
    let mut ids: Vec<u64> = vec![1, 2, 3, 65535, 65536, 65537, accepted / 2, accepted.saturating_sub(65536), accepted.saturating_sub(1), accepted];
    ids.retain(|k| *k >= 1 && *k <= accepted);
    ids.dedup();
    for k in ids {
        match guard(|| rd.read_sample(1, k as u32)) {
            Ok(Ok(Some(s))) => {
                if s.bytes.as_ref() != &ONE[..] || s.start_time != k - 1 || s.duration != 1 {
                    out.push(Violation::new(prop, "sample_bytes", "long_run", format!("sample {k} of {accepted}: {} bytes, start {}, duration {}", s.bytes.len(), s.start_time, s.duration)));
                    break;
                }
            }
            Ok(other) => {
                out.push(Violation::new(prop, "sample_missing", "long_run", format!("sample {k} of {accepted}: {:?}", other.map(|o| o.is_some()).map_err(|e| format!("{e}")))));
                break;
            }
            Err(p) => {
                out.push(Violation::new(prop, "readback_panic", format!("long_run {}", p.discriminator()), format!("sample {k}: {} at {}", p.msg, p.location)));
                break;
            }
        }
    }
    let _ = ok_after_err;
    out
}

/// Is the history inside the domain in which the other muxer properties are stated? Judged on
/// the calls the muxer accepted: rejected calls leave no trace, so their arguments do not matter.
fn in_valid_domain(full: &MuxScenario, results: &[CallResult]) -> bool {
    let sc = &MuxScenario {
        ops: full.ops.iter().enumerate().filter(|(i, _)| results.get(i + 1).map(|r| r.is_ok()).unwrap_or(false)).map(|(_, o)| o.clone()).collect(),
        ..full.clone()
    };
    if sc.cfg.timescale == 0 {
        return false;
    }
    // (a history whose track duration does not fit the 64-bit header field is not excluded:
    // the muxer has to reject the sample that would overflow it, not store something else)
    sc.ops.iter().all(|op| match op {
        Op::AddTrack(t) => t.timescale >= 1,
        _ => true,
    })
}

impl Prop for C17 {
    type Case = HostileCase;
    const ID: &'static str = "C17";
    const LEVEL: &'static str = "exploration";
    const BOTH_PROFILES: bool = true;
    fn count(tier: Tier) -> u64 {
        match tier {
            Tier::Quick => 120_000,
            Tier::Thorough => 6_000_000,
        }
    }
    fn gen(seed: u64, idx: u64, tier: Tier) -> HostileCase {
        let mut r = Rng::new(seed);
        if tier == Tier::Thorough && idx == 0 {
            // one subtitle track at 65536 ticks per second: one chunk per 65536 one-byte samples
            // keeps every table of the muxer small while the sample counters run past 2^32
            let tc = TrackCfg { kind: Kind::Ttxt, track_type: Kind::Ttxt.natural_track_type(), timescale: 65536, language: "und".into(), width: 0, height: 0, sps: vec![], pps: vec![], aac_profile: 2, freq_index: 3, chan_conf: 2, bitrate: 0 };
            let sc = MuxScenario { cfg: MovieCfg { major: *b"isom", minor: 512, compat: vec![], timescale: 1000 }, ops: vec![Op::AddTrack(tc)], start_pos: 0, io: IoKnobs::plain(), preexisting: 0, fault: None, fault_len: 0, fault_api: None };
            return HostileCase { sc, fault: None, fault_len: 0, repeat: (1u64 << 32) + 70_000, reposition: None, regions: None };
        }
        let mut o = GenOpts::hostile();
        if tier == Tier::Thorough {
            o.long_ops = 600;
        }
        let mut sc = gen_mux(&mut r, &o);
        // 64 KiB parameter sets under one-byte transfers cost 10^5 stream calls and add nothing
        if sc.io.chunking != crate::simdisk::Chunking::Full {
            for op in sc.ops.iter_mut() {
                if let Op::AddTrack(t) = op {
                    if t.sps.len() > 4096 {
                        t.sps.truncate(300);
                    }
                    if t.pps.len() > 4096 {
                        t.pps.truncate(300);
                    }
                }
            }
        }
        // extreme sample fields sprinkled over the history
        let n = sc.ops.len();
        for op in sc.ops.iter_mut() {
            if let Op::Write { s, .. } = op {
                if r.chance(1, 12) {
                    s.duration = *r.pick(&[0u32, 1, u32::MAX, u32::MAX - 1, 1 << 31]);
                }
                if r.chance(1, 12) {
                    s.offset = *r.pick(&[i32::MIN, i32::MAX, -1, 0]);
                }
            }
        }
        // rare: one very large sample around the 24-bit boundary (16 MiB)
        if r.chance(1, 100) && n > 1 {
            let big = *r.pick(&[(1u64 << 24) - 1, 1 << 24, (1 << 24) + 1]);
            for op in sc.ops.iter_mut() {
                if let Op::Write { s, .. } = op {
                    s.payload = Payload::Fill { byte: 0x5A, len: big };
                    break;
                }
            }
            // 16 MiB through one-byte transfers would be 10^7 stream calls for nothing
            sc.io = IoKnobs::plain();
        }
        let fault = if r.chance(1, 5) {
            let seq = r.below(4 * n as u64 + 24);
            let f = match r.below(4) {
                0 => Fault::Zero,
                1 => Fault::Err(ErrK::StorageFull),
                2 => Fault::Err(ErrK::Other),
                _ => Fault::Err(ErrK::BrokenPipe),
            };
            Some((seq, f))
        } else {
            None
        };
        if fault.is_some() && r.chance(1, 2) {
            // what a caller does when write_end fails: perhaps more samples, then write_end again
            append_retry_tail(&mut sc, &mut r);
        }
        // a third of the faults are outages of two or three consecutive stream calls
        let fault_len: u8 = if fault.is_some() {
            match r.below(6) {
                0 => 2,
                1 => 3,
                _ => 1,
            }
        } else {
            0
        };
        let reposition = if fault.is_none() && r.chance(1, 16) {
            let api = 1 + r.below(sc.ops.len().max(1) as u64) as u32;
            let pos = match r.below(6) {
                0 => 0,
                1 => r.below(64),
                2 => sc.start_pos + r.below(64),
                3 => r.below(1 << 16),
                4 => (1u64 << 32) + r.below(1 << 16),
                _ => 1u64 << 40,
            };
            Some((api, pos))
        } else {
            None
        };
        // (also together with a fault: chunk offsets beyond 4 GiB when a write_end fails and is retried)
        let regions = if reposition.is_none() && r.chance(1, 12) {
            let nops = sc.ops.len().max(1) as u64;
            let mut toggles: Vec<u32> = (0..1 + r.below(4)).map(|_| 1 + r.below(nops) as u32).collect();
            toggles.sort_unstable();
            toggles.dedup();
            let gap = *r.pick(&[4096u64, 1 << 31, 1 << 32, (1 << 32) + (1 << 20), 1 << 33]);
            let final_api = sc.ops.iter().position(|o| matches!(o, Op::End)).map(|i| i as u32 + 1).unwrap_or(0);
            Some(crate::simdisk::RegionPlan { toggles, gap, final_api })
        } else {
            None
        };
        HostileCase { sc, fault, fault_len, repeat: 0, reposition, regions }
    }
    fn eval(case: &HostileCase, st: &mut Stats) -> Vec<Violation> {
        let prop = "C17";
        if case.repeat > 0 {
            return eval_long_run(case, st);
        }
        let sc = &case.sc;
        let mut out = Vec::new();
        let sim = Sim::shared(modea::initial_disk(sc));
        {
            let mut s = sim.borrow_mut();
            s.set_transparent(sc.io.chunking, sc.io.intr_ppm, sc.io.io_seed);
            if let Some((seq, f)) = case.fault {
                for i in 0..case.fault_len.max(1) as u64 {
                    s.plan.push((seq + i, f));
                }
            }
            s.reposition = case.reposition;
            s.regions = case.regions.clone();
        }
        let run = run_mux(sc, &sim, None);
        sim.borrow_mut().clear_moves();
        // a planned fault that never fired must not fire during the read-back
        sim.borrow_mut().plan.clear();
        {
            let s = sim.borrow();
            st.case_digest = mix(st.case_digest, s.digest);
            st.case_digest = mix(st.case_digest, s.disk.digest());
        }
        let mut all_ok = true;
        for (i, r) in run.results.iter().enumerate() {
            st.case_digest = mix(st.case_digest, hash_str(&r.code()));
            let api = if i == 0 {
                "write_start"
            } else {
                match &sc.ops[i - 1] {
                    Op::AddTrack(_) => "add_track",
                    Op::Write { .. } => "write_sample",
                    Op::End => "write_end",
                }
            };
            match r {
                CallResult::Ok => {
                    st.inc(&format!("outcome.{api}.ok"));
                }
                CallResult::Err(e) => {
                    all_ok = false;
                    st.inc(&format!("outcome.{api}.err"));
                    st.distinct.insert(hash_str(&format!("{api} {}", e.short())));
                }
                CallResult::Panic(p) => {
                    all_ok = false;
                    out.push(Violation::new(prop, "mux_panic", format!("api={api} {}", p.discriminator()), format!("{} at {}", p.msg, p.location)));
                }
                CallResult::NotRun => {
                    all_ok = false;
                }
            }
        }
        let moved = sim.borrow().fired.repositioned > 0;
        st.probe("probe.position_moved_between_calls", moved);
        // after either kind of fault only "no panic" is judged: the muxer cannot know where the
        // bytes it wrote before went
        // alternating between two regions destroys nothing: the full oracle stays on, unless the
        // low region grew into the high one (then the application, not the muxer, lost data)
        let (region_moves, collision) = {
            let s = sim.borrow();
            (s.region_moves, s.region_collision)
        };
        st.probe("probe.sink_regions_alternated", region_moves >= 2 && !collision);
        st.add("fault.offset_moved_to_other_region", region_moves);
        let fault_fired = sim.borrow().last_hard.is_some() || moved || collision;
        st.probe("probe.hard_fault_fired", sim.borrow().last_hard.is_some());
        st.probe("probe.zero_timescale", sc.cfg.timescale == 0 || sc.ops.iter().any(|o| matches!(o, Op::AddTrack(t) if t.timescale == 0)));
        st.probe("probe.short_sps", sc.ops.iter().any(|o| matches!(o, Op::AddTrack(t) if t.kind == Kind::Avc && t.sps.len() < 4)));
        st.probe("probe.huge_sample", sc.ops.iter().any(|o| matches!(o, Op::Write { s, .. } if s.payload.len() >= (1 << 24) - 1)));
        st.probe("probe.no_tracks", sc.track_count() == 0);
        st.probe("probe.mismatched_track_type", sc.ops.iter().any(|o| matches!(o, Op::AddTrack(t) if t.track_type != t.kind.natural_track_type())));
        // table-shape style signature of the call history for the distinct measure
        let mut h = 0x17u64;
        for r in run.results.iter().take(24) {
            h = mix(h, match r {
                CallResult::Ok => 1,
                CallResult::Err(_) => 2,
                CallResult::Panic(_) => 3,
                CallResult::NotRun => 4,
            });
        }
        st.distinct.insert(h);
        if all_ok && run.ended_ok && !fault_fired {
            st.inc("histories_all_ok");
            if in_valid_domain(sc, &run.results) {
                st.inc("histories_all_ok_in_domain");
                let model = Model::build(prop, sc, &run, &mut out);
                let end = run.end_pos.unwrap_or_else(|| sim.borrow().disk.len());
                check_readback(prop, &sim, sc.start_pos, end, &model, false, &mut out);
                let parsed = crate::indep::parse(&sim.borrow().disk, sc.start_pos, end);
                match parsed {
                    Ok(m) => {
                        modea::check_structure(prop, &m, &model, end, &mut out);
                    }
                    Err((inv, d)) => out.push(Violation::new(prop, inv, "parse".to_string(), d)),
                }
                check_config(prop, &sim, sc, end, &model, true, &mut out);
            }
        }
        st.absorb_sim(&sim.borrow());
        out
    }
    fn shrink_steps(case: &HostileCase) -> Vec<HostileCase> {
        let mut v = Vec::new();
        if case.repeat > 0 {
            // the long run is its own minimal form (a shorter one does not reach the counters' end)
            return v;
        }
        if case.fault.is_some() {
            v.push(HostileCase { sc: case.sc.clone(), fault: None, fault_len: 0, repeat: 0, reposition: case.reposition, regions: case.regions.clone() });
            if case.fault_len > 1 {
                v.push(HostileCase { fault_len: case.fault_len - 1, ..case.clone() });
            }
        }
        if case.reposition.is_some() {
            v.push(HostileCase { sc: case.sc.clone(), fault: case.fault, fault_len: case.fault_len, repeat: 0, reposition: None, regions: case.regions.clone() });
        }
        if let Some(rp) = &case.regions {
            v.push(HostileCase { sc: case.sc.clone(), fault: case.fault, fault_len: case.fault_len, repeat: 0, reposition: case.reposition, regions: None });
            for i in 0..rp.toggles.len() {
                let mut t = rp.clone();
                t.toggles.remove(i);
                v.push(HostileCase { sc: case.sc.clone(), fault: case.fault, fault_len: case.fault_len, repeat: 0, reposition: case.reposition, regions: Some(t) });
            }
        }
        for sc in modea::shrink_mux(&case.sc) {
            // dropping an operation shifts the later calls: keep the moves inside the history
            let nops = sc.ops.len().max(1) as u32;
            let reposition = case.reposition.map(|(a, p)| (a.min(nops), p));
            let regions = case.regions.as_ref().map(|rp| {
                let mut toggles: Vec<u32> = rp.toggles.iter().map(|a| (*a).min(nops)).collect();
                toggles.dedup();
                crate::simdisk::RegionPlan { toggles, gap: rp.gap, final_api: sc.ops.iter().position(|o| matches!(o, Op::End)).map(|i| i as u32 + 1).unwrap_or(0) }
            });
            v.push(HostileCase { sc, fault: case.fault, fault_len: case.fault_len, repeat: 0, reposition, regions });
        }
        v
    }
    fn rule() -> String {
        "seeded hostile muxing histories: the full value range of every public field (timescales incl. 0, empty/long/non-ASCII languages, SPS/PPS of 0..8 and >64 KiB bytes, mismatched track_type/media_conf, 0 or 300 brands, durations 0/u32::MAX, offsets i32::MIN/MAX, samples of 2^24-1/2^24/2^24+1 bytes, track ids 0/n+1/u32::MAX, no tracks), any call order up to write_end, a hard stream fault - one call, or an outage of two or three consecutive calls - at a random call in 20% of the cases (in half of them the caller reacts to a failed write_end with further samples and a second write_end), the sink's position moved by somebody else between two calls in 6% (only the absence of panics is judged after either), the shared offset alternating between a low and a high region of one big file (gap 4 KiB..8 GiB, nothing overwritten: full read-back oracle) in 6%, in the thorough tier one history of 2^32 + 70 000 write_sample calls on one track (every call Ok or Err, and the finished file describes exactly the accepted samples), each call under catch_unwind in the overflow-checked and in the wrapping build; when every call succeeded inside the documented domain the C01 read-back, C02 relations and C14 comparisons are applied; distinct_nontrivial = distinct (API call, error message) pairs plus distinct outcome sequences of the first 24 calls".into()
    }
    fn assumptions() -> Vec<String> {
        vec![
            "a panic is anything caught by catch_unwind around one Mp4Writer call; aborts and stack overflows are caught by the supervisor as worker death".into(),
            "the other muxer properties are applied only inside their own quantifier domain (timescales >= 1, track duration < 2^62 movie ticks)".into(),
        ]
    }
    fn mandatory_probes(t: Tier) -> Vec<&'static str> {
        let mut v = Self::base_probes();
        if t == Tier::Thorough {
            v.push("probe.long_run_beyond_u32_samples");
            v.push("probe.long_run_rejection_seen");
        }
        v
    }
}

impl C17 {
    fn base_probes() -> Vec<&'static str> {
        vec!["probe.hard_fault_fired", "probe.position_moved_between_calls", "probe.sink_regions_alternated", "probe.zero_timescale", "probe.short_sps", "probe.huge_sample", "probe.no_tracks", "probe.mismatched_track_type"]
    }
}
