//! C07 — parsing always terminates, with work linear in the input length (mode E).
use crate::modee::*;
use crate::runner::{Prop, Tier};
use crate::sched::{CallRec, SessionCfg};
use crate::stats::Stats;
use crate::verdict::Violation;

pub struct C07;

pub const STALL_MICROS: u64 = 500_000;
// Session halts the schedule after a call slower than 0.4 s of CPU, so a stalling case costs one slow
// call per execution (three executions to confirm).

/// 0.5 s of CPU per started MiB of input, for inputs up to 8 MiB (the heaviest legitimate call
/// observed costs about 30 ms per MiB).
fn slow(rec: &CallRec) -> bool {
    let mib = (rec.n + (1 << 20) - 1) >> 20;
    rec.micros > STALL_MICROS * mib.max(1) && rec.n <= (8 << 20)
}

impl Prop for C07 {
    type Case = CorruptCase;
    const ID: &'static str = "C07";
    const LEVEL: &'static str = "exploration";
    const STALL_SECS: u64 = 60;
    fn count(tier: Tier) -> u64 {
        sweep_len(tier)
            + match tier {
                Tier::Quick => 250_000,
                Tier::Thorough => 15_000_000,
            }
    }
    fn gen(seed: u64, idx: u64, tier: Tier) -> CorruptCase {
        // indices below sweep_len: systematic single-field enumeration; above: seeded campaign
        if idx < sweep_len(tier) {
            sweep_case(idx, tier)
        } else {
            gen_case(seed)
        }
    }
    fn eval(case: &CorruptCase, st: &mut Stats) -> Vec<Violation> {
        let run = run_case(case, SessionCfg::standard(), st);
        account(case, &run, st);
        let mut out = Vec::new();
        for rec in &run.recs {
            st.max("max_stream_ops_in_one_call", rec.ops);
            if rec.n > 0 {
                st.max("max_ops_per_input_byte_x1000", rec.ops * 1000 / rec.n);
                st.max("max_bytes_moved_per_input_byte_x1000", rec.bytes * 1000 / rec.n);
            }
            st.max("max_bytes_moved_in_one_call", rec.bytes);
            if rec.budget_tripped {
                out.push(Violation::new(
                    "C07",
                    "work_budget",
                    format!("api={}", rec.api),
                    format!("{} made {} stream calls / moved {} bytes on an image of {} bytes (budget 10000+64n calls, 1MiB+64n bytes)", rec.api, rec.ops, rec.bytes, rec.n),
                ));
            }
            if !rec.stream && rec.ops > 0 {
                out.push(Violation::new("C07", "accessor_touched_stream", format!("api={}", rec.api), format!("{} stream calls", rec.ops)));
            }
        }
        // CPU-only stalls: wall time is a physical observation, so it is confirmed twice more
        let slow_idx: Vec<usize> = run.recs.iter().enumerate().filter(|(_, r)| slow(r)).map(|(i, _)| i).collect();
        if !slow_idx.is_empty() {
            let mut confirmed = slow_idx.clone();
            for _ in 0..2 {
                let mut scratch = Stats::default();
                let again = run_case(case, SessionCfg::standard(), &mut scratch);
                confirmed.retain(|i| again.recs.get(*i).map(slow).unwrap_or(false));
            }
            for i in confirmed {
                let rec = &run.recs[i];
                out.push(Violation::new("C07", "cpu_stall", format!("api={}", rec.api), format!("{} burned {} ms of CPU on an image of {} bytes in three executions", rec.api, rec.micros / 1000, rec.n)));
            }
        }
        out.dedup_by(|a, b| a.signature() == b.signature());
        out
    }
    fn shrink_steps(case: &CorruptCase) -> Vec<CorruptCase> {
        shrink_case(case)
    }
    fn rule() -> String {
        format!("(systematic part) every located field of a fixed list of 20 seed images (first the everything-at-once image: one track per kind, every metadata and layout variant, a leading free box in every container; two regular files continued by fragments) x 13 boundary values, one substitution per run (thorough: all {} (image, field, value) triples; quick: the first 50 000), then coordinated pairs: the size of every leaf box and one of its first three words inflated together (4 x 5 values; thorough: all {} pairs, quick: the first 10 000), then {} vacuous-ancestor cases on images whose boxes all have 64-bit headers (one enclosing box, or every enclosing box, claims a size with the top bit set while a leaf lies about its size and a count); {}", crate::modee::sweep_total(), crate::modee::pair_total(), crate::modee::vac_total(), "(seeded part) same storage-fault campaign as C06 (own case stream), stream in full-transfer mode so stream calls = library calls; per API call: stream calls <= 10000 + 64n and bytes moved <= 1 MiB + 64n (n = image length; the unchanged tree peaks at 3.0 calls and 1.5 bytes per input byte over 35 million cases, the analytical ceiling for any input is about 32 calls per byte), accessors make no stream call; a call burning > 0.5 s of CPU time per started MiB of input (15x the heaviest legitimate call observed) on an image <= 8 MiB in three executions is a CPU stall; a call that never returns is caught by the supervisor heartbeat; distinct_nontrivial = distinct (fault kind, box path:field, outcome class) triples")
    }
    fn assumptions() -> Vec<String> {
        vec![
            "CPU-only loops are observed through confirmed CPU time (> 0.5 s, three executions), not counted".into(),
            "explores the fault neighbourhood of valid images, not all byte strings".into(),
        ]
    }
    fn mandatory_probes(_t: Tier) -> Vec<&'static str> {
        vec!["probe.opened_after_faults", "probe.no_fault_baseline", "probe.embedded_stream_opened"]
    }
}
