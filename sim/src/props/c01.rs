//! C01 — muxed samples read back exactly (mode A).
use crate::modea;
use crate::prng::Rng;
use crate::runner::{Prop, Tier};
use crate::scenario::*;
use crate::stats::Stats;
use crate::verdict::Violation;

pub struct C01;

pub fn gen_valid(seed: u64, tier: Tier) -> MuxScenario {
    let mut r = Rng::new(seed);
    let mut o = GenOpts::valid();
    if tier == Tier::Thorough {
        o.long_ops = 4000;
    }
    let mut sc = gen_mux(&mut r, &o);
    // a rejected add_track in front of an accepted one (a rejected call of any kind must leave
    // no trace: ids stay 1..n in the order added)
    if r.chance(1, 12) {
        inject_rejected_add_track(&mut sc, &mut r);
    }
    sc
}

impl Prop for C01 {
    type Case = MuxScenario;
    const ID: &'static str = "C01";
    const LEVEL: &'static str = "exploration";
    fn count(tier: Tier) -> u64 {
        match tier {
            Tier::Quick => 240_000,
            Tier::Thorough => 12_000_000,
        }
    }
    fn gen(seed: u64, _idx: u64, tier: Tier) -> MuxScenario {
        let mut sc = gen_valid(seed, tier);
        // C01 only (its oracle does no arithmetic on header durations): 1 history in 300 puts the
        // first track at timescale 1 or 2 under a movie timescale near 2^32 and plants samples
        // with durations near 2^32 in it, so that the track's duration in movie ticks runs out
        // of 64 bits after one or two of them. The muxer must refuse the samples that do not
        // fit - the model follows its decisions - and a refused sample must leave no trace.
        let mut r = Rng::new(seed ^ 0x0F10);
        if r.chance(1, 300) && sc.fault.is_none() {
            let mut first = true;
            for op in sc.ops.iter_mut() {
                if let Op::AddTrack(t) = op {
                    if first {
                        t.timescale = 1 + r.below(2) as u32;
                        first = false;
                    }
                }
            }
            if !first {
                sc.cfg.timescale = u32::MAX - r.below(3) as u32;
                let n_big = 2 + r.below(3);
                for k in 0..n_big {
                    // somewhere behind the first add_track, in front of the final write_end
                    let lo = sc.ops.iter().position(|o| matches!(o, Op::AddTrack(_))).unwrap_or(0) + 1;
                    let hi = sc.ops.len().saturating_sub(1).max(lo);
                    let at = lo + r.usize_below(hi - lo + 1);
                    let s = SampleW { payload: Payload::Stamp { len: 1 + r.below(300) as u32, tag: 2_000_000 + k as u32 }, duration: u32::MAX - r.below(2) as u32, offset: 0, sync: r.chance(1, 2), start_time: 0 };
                    sc.ops.insert(at.min(sc.ops.len().saturating_sub(1)), Op::Write { track_id: 1, s });
                }
            }
        }
        sc
    }
    fn eval(case: &MuxScenario, st: &mut Stats) -> Vec<Violation> {
        modea::eval_c01("C01", case, st)
    }
    fn shrink_steps(case: &MuxScenario) -> Vec<MuxScenario> {
        modea::shrink_mux(case)
    }
    fn rule() -> String {
        "seeded muxing histories (swarm: 1-6 tracks of 5 media kinds, size/duration/offset/sync/interleaving laws, rejected calls, transparent I/O chunking and EINTR; 1 in 1500 a fat-chunk history: one open chunk of 5-40 MB while other tracks reach the sink; 1 configuration in 8 built through the library's From<...Config> conversions) run on the real Mp4Writer over the simulated disk, read back through the real Mp4Reader and compared with the reference model; distinct_nontrivial = number of distinct table-shape signatures of the outputs (kinds, stsz mode, log2 #stts runs, ctts absent/late/from-start, stss absent/empty/partial/all, log2 #stsc runs, log2 max samples per chunk, stco|co64, header versions)".into()
    }
    fn assumptions() -> Vec<String> {
        vec![
            "the reference model (vectors of written samples) is the ground truth".into(),
            "sample payloads are pseudo-random per (tag): equal bytes at a wrong place are improbable, not impossible, for samples shorter than 4 bytes".into(),
            "histories are bounded: <= 6 tracks, <= 400 (thorough 4000) samples, samples <= 1 MiB".into(),
        ]
    }
    fn mandatory_probes(_t: Tier) -> Vec<&'static str> {
        vec![
            "probe.fixed_to_variable_stsz_switch",
            "probe.first_sample_size_zero",
            "probe.ctts_late_backfill",
            "probe.ctts_absent",
            "probe.stss_partial",
            "probe.stsc_merged_chunks",
            "probe.stsc_three_runs",
            "probe.chunk_with_two_samples",
            "probe.three_tracks",
            "probe.rejected_between_accepted",
            "probe.zero_sample_track",
            "probe.transparent_io_faults",
            "probe.write_end_retried_after_failure",
            "probe.fat_chunk_history",
            "probe.sample_refused_near_duration_overflow",
        ]
    }
}
