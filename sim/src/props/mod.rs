pub mod c01;
pub mod c02;
pub mod c14;
pub mod c17;
