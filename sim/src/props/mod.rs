pub mod c01;
pub mod c02;
pub mod c06;
pub mod c07;
pub mod c08;
pub mod c14;
pub mod c17;
