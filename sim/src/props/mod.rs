pub mod c01;
pub mod c02;
