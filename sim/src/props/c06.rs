//! C06 — reader API never panics or aborts, whatever the input (mode E, both profiles).
use crate::modee::*;
use crate::runner::{Prop, Tier};
use crate::sched::{Outcome, SessionCfg};
use crate::stats::Stats;
use crate::verdict::Violation;

pub struct C06;

impl Prop for C06 {
    type Case = CorruptCase;
    const ID: &'static str = "C06";
    const LEVEL: &'static str = "exploration";
    const STALL_IS_VIOLATION: bool = false;
    const BOTH_PROFILES: bool = true;
    fn count(tier: Tier) -> u64 {
        sweep_len(tier)
            + match tier {
                Tier::Quick => 150_000,
                Tier::Thorough => 10_000_000,
            }
    }
    fn gen(seed: u64, idx: u64, tier: Tier) -> CorruptCase {
        // indices below sweep_len: systematic single-field enumeration; above: seeded campaign
        if idx < sweep_len(tier) {
            sweep_case(idx, tier)
        } else {
            gen_case(seed)
        }
    }
    fn eval(case: &CorruptCase, st: &mut Stats) -> Vec<Violation> {
        // C06 does not judge work; the budget only ends runaway cases (C07 reports those)
        let cfg = SessionCfg::standard();
        let run = run_case(case, cfg, st);
        account(case, &run, st);
        let mut out = Vec::new();
        for rec in &run.recs {
            if let Outcome::Panic(p) = &rec.outcome {
                out.push(Violation::new("C06", "panic", p.discriminator(), format!("{} panicked: {} at {}", rec.api, p.msg, p.location)));
            }
        }
        out.dedup_by(|a, b| a.signature() == b.signature());
        out
    }
    fn shrink_steps(case: &CorruptCase) -> Vec<CorruptCase> {
        shrink_case(case)
    }
    fn rule() -> String {
        format!("(systematic part) every located field of a fixed list of 20 seed images (first the everything-at-once image: one track per kind, every metadata and layout variant, a leading free box in every container; two regular files continued by fragments) x 13 boundary values, one substitution per run (thorough: all {} (image, field, value) triples; quick: the first 50 000), then coordinated pairs: the size of every leaf box and one of its first three words inflated together (4 x 5 values; thorough: all {} pairs, quick: the first 10 000), then {} vacuous-ancestor cases on images whose boxes all have 64-bit headers (one enclosing box, or every enclosing box, claims a size with the top bit set while a leaf lies about its size and a count); {}", crate::modee::sweep_total(), crate::modee::pair_total(), crate::modee::vac_total(), "(seeded part) seed image (canned files, real-muxer outputs incl. moov-first relocation, metadata/wave/64-bit-header variants, packager fragmented streams, init+segment pairs, muxer crash images) with 0-6 seeded storage faults (>= 60 % boundary values written into located length/count/offset/version/flag fields; bit flips, stuck bytes, zeroed / copied / dropped / duplicated ranges, cuts, garbled fourccs; 25 % with a further fault between two reader calls), then read_header, read_fragment_header and the full accessor schedule (every Mp4Reader/Mp4Track accessor, sample_count/sample_offset/read_sample for boundary ids, to_json/summary of every parsed box) under catch_unwind in the overflow-checked and the wrapping build; distinct_nontrivial = distinct (fault kind, box path:field, outcome class) triples")
    }
    fn assumptions() -> Vec<String> {
        vec![
            "explores the fault neighbourhood of valid images, not all byte strings".into(),
            "stack overflow / abort / OOM are observed as worker death by the supervisor".into(),
        ]
    }
    fn mandatory_probes(_t: Tier) -> Vec<&'static str> {
        vec!["probe.opened_after_faults", "probe.no_fault_baseline", "fault.storage.between_reader_calls", "fault.storage.corrupt_init_segment"]
    }
}
