//! C13 — 32-bit to 64-bit transitions in the muxer are lossless (mode A on the sparse disk).
use crate::indep;
use crate::model::{Model, Opened, Player, SampleOutcome};
use crate::modea;
use crate::prng::Rng;
use crate::runner::{Prop, Tier};
use crate::scenario::*;
use crate::stats::{hash_str, Stats};
use crate::verdict::Violation;
use serde::{Deserialize, Serialize};

pub struct C13;

#[derive(Clone, Debug, Serialize, Deserialize)]
pub struct BigCase {
    /// "pos" | "dur" | "payload_mdat" | "payload_offset"
    pub family: String,
    /// -1 below, 0 at, +1 above the boundary
    pub side: i8,
    pub sc: MuxScenario,
}

const B32: u64 = 1 << 32;
const BIG: u64 = 128 << 20;

fn basic_track(kind: Kind, timescale: u32) -> TrackCfg {
    TrackCfg {
        kind,
        track_type: kind.natural_track_type(),
        timescale,
        language: "und".into(),
        width: 320,
        height: 240,
        sps: vec![0x67, 0x64, 0x00, 0x1f, 0xac],
        pps: vec![0x68, 0xeb],
        aac_profile: 2,
        freq_index: 3,
        chan_conf: 2,
        bitrate: 128_000,
    }
}

fn plain_cfg(timescale: u32) -> MovieCfg {
    MovieCfg { major: *b"isom", minor: 512, compat: vec![], timescale }
}

fn fill(byte: u8, len: u64, duration: u32) -> SampleW {
    SampleW { payload: Payload::Fill { byte, len }, duration, offset: 0, sync: true, start_time: 0 }
}

/// Output that starts at a stream position near (or far beyond) 2^32: chunk offsets cross the
/// limit without any large payload.
fn gen_pos(r: &mut Rng) -> BigCase {
    let o = GenOpts { hostile: false, max_tracks: 3, long_ops: 42, big_samples: false, rich_config: false };
    let mut sc = gen_mux(r, &o);
    sc.io = IoKnobs::plain();
    // a third of these (small) histories go through a stream with short transfers, so that the
    // 64-bit tables are written and read back in pieces
    match r.below(6) {
        0 => sc.io.chunking = crate::simdisk::Chunking::Max(16),
        1 => sc.io.chunking = crate::simdisk::Chunking::Random(r.next_u64()),
        _ => {}
    }
    let (side, start) = match r.below(8) {
        0 => (-1, B32 - 1 - r.below(4096)),
        1 => (-1, B32 - 40 - r.below(200)),
        2 => (0, B32 - r.below(64)),
        3 => (1, B32 + r.below(4096)),
        4 => (1, (1u64 << 40) - r.below(1 << 20)),
        5 => (1, (1u64 << 40) + r.below(1 << 30)),
        6 => (-1, r.below(1 << 31)),
        _ => (0, B32 - 32 - r.below(2000)),
    };
    sc.start_pos = start;
    BigCase { family: "pos".into(), side, sc }
}

/// Durations whose sums land just below / at / above 2^32 in the media, track or movie scale.
fn gen_dur(r: &mut Rng) -> BigCase {
    let kind = *r.pick(&Kind::ALL);
    let side = r.below(3) as i8 - 1;
    let target = (B32 as i64 + side as i64) as u64; // 2^32-1, 2^32, 2^32+1
    // 0 media (mdhd), 1 track (tkhd via ratio), 2 movie with two tracks, 3 extreme timescales
    // (the conversion product media x movie_timescale itself reaches 2^64),
    // 4 two long tracks whose order by raw ticks differs from their order by time
    let which = r.below(5);
    let (tm, tt) = match which {
        0 => (1000u32, *r.pick(&[1000u32, 90000, 1])),
        1 => (*r.pick(&[2000u32, 90000, 1 << 31]), *r.pick(&[1000u32, 1])),
        3 => (*r.pick(&[u32::MAX, 4_000_000_000, 1 << 31, 3_000_000_000]), *r.pick(&[u32::MAX, 4_000_000_000, 1 << 31, 1_000_000_007])),
        _ => (*r.pick(&[1000u32, 3000]), 1000u32),
    };
    let mut ops = vec![Op::AddTrack(basic_track(kind, tt))];
    // media duration target (in track ticks) so that the chosen header crosses the limit
    let media_target: u64 = match which {
        0 | 3 => target + if which == 3 { r.below(1 << 33) } else { 0 },
        _ => {
            // track/movie ticks = media * tm / tt  ->  media = ceil(target * tt / tm)
            let m = (target as u128 * tt as u128 + tm as u128 - 1) / tm as u128;
            (m as u64).max(1)
        }
    };
    let mut left = media_target;
    let mut tag = 1u32;
    let nsamples = 2 + r.below(5);
    for i in 0..nsamples {
        let d = if i + 1 == nsamples { left.min(u32::MAX as u64) } else { (left / (nsamples - i)).min(u32::MAX as u64) };
        left -= d;
        ops.push(Op::Write { track_id: 1, s: SampleW { payload: Payload::Stamp { len: 1 + r.below(40) as u32, tag }, duration: d as u32, offset: 0, sync: i % 2 == 0, start_time: 0 } });
        tag += 1;
    }
    while left > 0 {
        let d = left.min(u32::MAX as u64);
        left -= d;
        ops.push(Op::Write { track_id: 1, s: SampleW { payload: Payload::Stamp { len: 3, tag }, duration: d as u32, offset: 0, sync: true, start_time: 0 } });
        tag += 1;
    }
    if which == 2 {
        ops.insert(1, Op::AddTrack(basic_track(Kind::Aac, 48000)));
        ops.push(Op::Write { track_id: 2, s: SampleW { payload: Payload::Stamp { len: 9, tag }, duration: 1024, offset: 0, sync: true, start_time: 0 } });
    }
    if which == 4 {
        // second track: finer timescale, MORE raw ticks than the first, but shorter in time,
        // so that its own track header still fits 32 bits
        let fine = *r.pick(&[48_000u32, 90_000, 44_100]);
        ops.insert(if r.chance(1, 2) { 1 } else { 0 }, Op::AddTrack(basic_track(Kind::Aac, fine)));
        let first_is_fine = matches!(&ops[0], Op::AddTrack(t) if t.timescale == fine);
        let fine_id = if first_is_fine { 1 } else { 2 };
        if first_is_fine {
            for op in ops.iter_mut() {
                if let Op::Write { track_id, .. } = op {
                    *track_id = 2;
                }
            }
        }
        // raw ticks: a bit more than the coarse track's, i.e. > 2^32, in time: ticks/fine seconds
        let mut left2 = media_target + 1 + r.below(1 << 31);
        while left2 > 0 {
            let d = left2.min(u32::MAX as u64);
            left2 -= d;
            tag += 1;
            ops.push(Op::Write { track_id: fine_id, s: SampleW { payload: Payload::Stamp { len: 5, tag }, duration: d as u32, offset: 0, sync: true, start_time: 0 } });
        }
    }
    ops.push(Op::End);
    let mut sc = MuxScenario { cfg: plain_cfg(tm), ops, start_pos: 0, io: IoKnobs::plain(), preexisting: 0, fault: None, fault_len: 0, fault_api: None };
    fit_durations(&mut sc);
    BigCase { family: "dur".into(), side, sc }
}

/// More than 4 GiB of payload (held as Fill extents): the mdat size or the last chunk offset
/// lands exactly below / at / above 2^32.
fn gen_payload(r: &mut Rng, kind: Kind, offset_boundary: bool, side: i8) -> BigCase {
    let ntracks = 1 + r.below(3) as u32;
    let mut ops = Vec::new();
    for t in 0..ntracks {
        let k = if t == 0 { kind } else { *r.pick(&Kind::ALL) };
        ops.push(Op::AddTrack(basic_track(k, 1000)));
    }
    let boundary = (B32 as i64 + side as i64) as u64;
    let ftyp_len = 16u64;
    let tail: u64 = 1 + r.below(5000);
    // payload bytes in front of the last chunk
    let before: u64 = if offset_boundary {
        // last chunk offset == boundary
        boundary - ftyp_len - 16
    } else {
        // mdat size (16 + payload) == boundary, payload = before + tail
        boundary - 16 - tail
    };
    let bytes = [0x11u8, 0x22, 0x33, 0x44];
    let mut left = before;
    let mut i = 0usize;
    // seeded jitter: a few odd-sized samples first
    for _ in 0..r.below(3) {
        let n = 1 + r.below(70_000);
        if n < left {
            ops.push(Op::Write { track_id: 1 + (i as u32 % ntracks), s: fill(bytes[i % 4], n, 1000) });
            left -= n;
            i += 1;
        }
    }
    while left > 0 {
        let n = left.min(BIG);
        ops.push(Op::Write { track_id: 1 + (i as u32 % ntracks), s: fill(bytes[i % 4], n, 1000 + (i as u32 % 3)) });
        left -= n;
        i += 1;
    }
    ops.push(Op::Write { track_id: 1 + (i as u32 % ntracks), s: fill(0x7E, tail, 1000) });
    ops.push(Op::End);
    let sc = MuxScenario { cfg: plain_cfg(1000), ops, start_pos: 0, io: IoKnobs::plain(), preexisting: 0, fault: None, fault_len: 0, fault_api: None };
    BigCase { family: if offset_boundary { "payload_offset".into() } else { "payload_mdat".into() }, side, sc }
}

fn big_count(tier: Tier) -> u64 {
    match tier {
        Tier::Quick => 32 + RETRY_QUICK,    // 2 boundaries x 3 sides x 5 kinds + retries + 2 single samples around 2^32 bytes
        Tier::Thorough => 242 + RETRY_THOROUGH, // x 8 jitters
    }
}

const RETRY_QUICK: u64 = 16;
const RETRY_THOROUGH: u64 = 64;

/// More than 4 GiB of payload, a sink outage inside write_end (k-th stream call of that call: the
/// flushes of the pending chunks, then the 64-bit size patch), and the caller's second write_end.
fn gen_payload_retry(r: &mut Rng, k: u64) -> BigCase {
    let kind = *r.pick(&Kind::ALL);
    let mut c = gen_payload(r, kind, k % 2 == 1, 1);
    let end_api = c.sc.ops.len() as u32;
    // an error, a zero-length write (must surface as an error) or a short transfer (must be
    // transparent) - the 64-bit size patch consists of very small writes
    let f = match k % 4 {
        0 | 1 => crate::simdisk::Fault::Err(crate::simdisk::ErrK::Other),
        2 => crate::simdisk::Fault::Zero,
        _ => crate::simdisk::Fault::Short(1 + k % 3),
    };
    c.sc.fault = Some((0, f));
    c.sc.fault_len = if k % 5 == 4 { 2 } else { 1 };
    c.sc.fault_api = Some((end_api, k / 4 % 12 + (k % 2) * 2));
    if r.chance(1, 3) {
        c.sc.ops.push(Op::Write { track_id: 1, s: SampleW { payload: Payload::Stamp { len: 11, tag: 4242 }, duration: 1000, offset: 0, sync: true, start_time: 0 } });
    }
    c.sc.ops.push(Op::End);
    c.family = "payload_retry".into();
    c
}

/// One sample of 2^32 - 1 / 2^32 + 5 bytes (the 32-bit sample-size table has no wider form:
/// such a sample must be stored exactly or refused, never truncated), followed by a small one.
fn gen_huge_sample(r: &mut Rng, over: bool) -> BigCase {
    let kind = *r.pick(&Kind::ALL);
    let len: u64 = if over { B32 + 5 } else { B32 - 1 };
    let ops = vec![
        Op::AddTrack(basic_track(kind, 1000)),
        Op::Write { track_id: 1, s: fill(0, len, 1000) },
        Op::Write { track_id: 1, s: SampleW { payload: Payload::Stamp { len: 7, tag: 77 }, duration: 1000, offset: 0, sync: true, start_time: 0 } },
        Op::End,
    ];
    let sc = MuxScenario { cfg: plain_cfg(1000), ops, start_pos: 0, io: IoKnobs::plain(), preexisting: 0, fault: None, fault_len: 0, fault_api: None };
    BigCase { family: "huge_sample".into(), side: if over { 1 } else { -1 }, sc }
}

impl Prop for C13 {
    type Case = BigCase;
    const ID: &'static str = "C13";
    const LEVEL: &'static str = "exploration";
    const STALL_SECS: u64 = 240;
    const MAX_WORKERS: usize = 6;
    fn count(tier: Tier) -> u64 {
        big_count(tier)
            + match tier {
                Tier::Quick => 6_000,
                Tier::Thorough => 600_000,
            }
    }
    fn gen(seed: u64, idx: u64, tier: Tier) -> BigCase {
        let mut r = Rng::new(seed);
        let nb = big_count(tier);
        if idx >= nb - 2 && idx < nb {
            return gen_huge_sample(&mut r, idx == nb - 1);
        }
        let nretry = if tier == Tier::Quick { RETRY_QUICK } else { RETRY_THOROUGH };
        if idx + 2 + nretry >= nb && idx < nb {
            return gen_payload_retry(&mut r, idx + 2 + nretry - nb);
        }
        if idx < nb {
            // structured family: boundary x side x kind (x jitter)
            let j = idx % 30;
            let offset_boundary = j % 2 == 1;
            let side = ((j / 2) % 3) as i8 - 1;
            let kind = Kind::ALL[(j / 6) as usize % 5];
            gen_payload(&mut r, kind, offset_boundary, side)
        } else if r.chance(2, 3) {
            gen_pos(&mut r)
        } else {
            gen_dur(&mut r)
        }
    }
    fn eval(case: &BigCase, st: &mut Stats) -> Vec<Violation> {
        let prop = "C13";
        let sc = &case.sc;
        let mut out = Vec::new();
        let outp = modea::execute(sc, None, st);
        st.inc(&format!("family.{}.{}", case.family, match case.side { -1 => "below", 0 => "at", _ => "above" }));
        if !modea::check_calls(prop, sc, &outp.run, &mut out) {
            st.absorb_sim(&outp.sim.borrow());
            return out;
        }
        let model = Model::build(prop, sc, &outp.run, &mut out);
        let end = modea::output_end(&outp);
        st.max("largest_output_bytes", end);
        // ---- independent parser on the header bytes
        let parsed = {
            let s = outp.sim.borrow();
            indep::parse(&s.disk, sc.start_pos, end)
        };
        let m = match parsed {
            Ok(m) => m,
            Err((inv, d)) => {
                out.push(Violation::new(prop, inv, "parse".to_string(), d));
                st.absorb_sim(&outp.sim.borrow());
                return out;
            }
        };
        modea::check_structure(prop, &m, &model, end, &mut out);
        let mut expected_off: Vec<Vec<u64>> = Vec::new();
        let mut any64 = false;
        for t in &m.tracks {
            let mut v = Vec::new();
            if let Ok(ch) = t.chunks() {
                for c in ch {
                    let mut o = c.offset;
                    for k in 0..c.nsamples {
                        v.push(o);
                        o += t.size_of(c.first_sample + k).unwrap_or(0) as u64;
                    }
                    if c.offset > u32::MAX as u64 {
                        any64 = true;
                    }
                }
            }
            st.probe("probe.co64_kept", t.is_co64);
            st.probe("probe.stco_used", !t.is_co64);
            st.probe("probe.mdhd_version1", t.mdhd_version == 1);
            st.probe("probe.tkhd_version1", t.tkhd_version == 1);
            expected_off.push(v);
        }
        st.probe("probe.chunk_offset_beyond_u32", any64);
        st.probe("probe.mdat_largesize", m.mdat_large.iter().any(|x| *x));
        st.probe("probe.mvhd_version1", m.mvhd_version == 1);
        st.probe("probe.output_beyond_4gib", end - sc.start_pos > u32::MAX as u64);
        st.probe("probe.nonzero_start_position", sc.start_pos > 0);
        // ---- read-back through the real reader
        let mut p = match Player::open(&outp.sim, sc.start_pos, end, 10_000) {
            Opened::Ok(p) => p,
            Opened::Err(e) => {
                out.push(Violation::new(prop, "readback_open_failed", format!("err={}", e.short()), e.msg));
                st.absorb_sim(&outp.sim.borrow());
                return out;
            }
            Opened::Panic(pi) => {
                out.push(Violation::new(prop, "readback_panic", format!("api=read_header {}", pi.discriminator()), pi.location));
                st.absorb_sim(&outp.sim.borrow());
                return out;
            }
        };
        // "every ... duration intact": what the reader holds for the three duration fields must be
        // the numbers the independent parser found in the header bytes (which were compared with
        // the model above) - in particular the last value of the 32-bit form, 2^32 - 1
        {
            let rd = &p.reader;
            if rd.moov.mvhd.duration != m.duration {
                out.push(Violation::new(prop, "reader_duration", "field=mvhd", format!("reader holds {}, the header bytes say {}", rd.moov.mvhd.duration, m.duration)));
            }
            for it in &m.tracks {
                if let Some(tr) = rd.tracks().get(&it.track_id) {
                    if tr.trak.tkhd.duration != it.tkhd_duration {
                        out.push(Violation::new(prop, "reader_duration", "field=tkhd", format!("track {}: reader holds {}, the header bytes say {}", it.track_id, tr.trak.tkhd.duration, it.tkhd_duration)));
                    }
                    if tr.trak.mdia.mdhd.duration != it.mdhd_duration {
                        out.push(Violation::new(prop, "reader_duration", "field=mdhd", format!("track {}: reader holds {}, the header bytes say {}", it.track_id, tr.trak.mdia.mdhd.duration, it.mdhd_duration)));
                    }
                    // the accessor reports whole milliseconds of mdhd.duration / timescale
                    let want_ms = it.mdhd_duration as u128 * 1000 / it.timescale.max(1) as u128;
                    let got_ms = tr.duration().as_millis();
                    if got_ms.abs_diff(want_ms) > 1 {
                        out.push(Violation::new(prop, "reader_duration", "field=track_duration_accessor", format!("track {}: duration() = {} ms, header says {} ms", it.track_id, got_ms, want_ms)));
                    }
                }
            }
            let want_ms = m.duration as u128 * 1000 / m.timescale.max(1) as u128;
            let got_ms = rd.duration().as_millis();
            if got_ms.abs_diff(want_ms) > 1 {
                out.push(Violation::new(prop, "reader_duration", "field=movie_duration_accessor", format!("duration() = {} ms, header says {} ms", got_ms, want_ms)));
            }
        }
        if p.track_ids() != (1..=model.tracks.len() as u32).collect::<Vec<_>>() {
            out.push(Violation::new(prop, "track_set", "", format!("{:?}", p.track_ids())));
        } else {
            for (ti, mt) in model.tracks.iter().enumerate() {
                let t = ti as u32 + 1;
                let n = mt.samples.len() as u32;
                match p.sample_count(t) {
                    Ok(Ok(c)) if c == n => {}
                    other => {
                        out.push(Violation::new(prop, "sample_count", "", format!("track {t}: {other:?} vs {n} written", other = other.map(|x| x.map_err(|e| e.msg)).map_err(|p| p.msg))));
                        continue;
                    }
                }
                let mut full_budget = 10; // fully read samples per track among the large ones
                for k in 1..=n {
                    let ms = &mt.samples[k as usize - 1];
                    let big = ms.payload.len() > (1 << 20);
                    // every sample: offset as computed by the reader vs the independent tables
                    if let Some(exp) = expected_off.get(ti).and_then(|v| v.get(k as usize - 1)) {
                        match p.sample_offset(t, k) {
                            Ok(Ok(o)) if o == *exp => {}
                            Ok(Ok(o)) => out.push(Violation::new(prop, "sample_offset", format!("side_of_4gib={}", if *exp > u32::MAX as u64 { "above" } else { "below" }), format!("track {t} sample {k}: reader offset {o}, tables say {exp}"))),
                            Ok(Err(e)) => out.push(Violation::new(prop, "sample_offset", format!("err={}", e.short()), format!("track {t} sample {k}"))),
                            Err(pi) => out.push(Violation::new(prop, "readback_panic", format!("api=sample_offset {}", pi.discriminator()), pi.location)),
                        }
                    }
                    let straddles = expected_off.get(ti).and_then(|v| v.get(k as usize - 1)).map(|o| *o <= B32 + 1 && *o + ms.payload.len() + 1 >= B32).unwrap_or(false);
                    let read_full = !big || k == 1 || k == n || straddles || (full_budget > 0 && k % 7 == 3);
                    if !read_full {
                        continue;
                    }
                    if big {
                        full_budget -= if k == 1 || k == n || straddles { 0 } else { 1 };
                        st.inc("large_samples_read_back");
                    }
                    match p.read_sample(t, k) {
                        SampleOutcome::Some(s) => {
                            let ok_bytes = ms.payload.matches(&s.bytes);
                            if !ok_bytes {
                                out.push(Violation::new(prop, "sample_bytes", format!("large={big}"), format!("track {t} sample {k} of {n}: {} bytes read, {} written, content differs", s.bytes.len(), ms.payload.len())));
                            }
                            if s.duration != ms.duration || s.start_time != mt.starts[k as usize - 1] || s.rendering_offset != ms.offset || s.is_sync != ms.sync {
                                out.push(Violation::new(prop, "sample_timing", "", format!("track {t} sample {k}: start {} dur {} read, start {} dur {} written", s.start_time, s.duration, mt.starts[k as usize - 1], ms.duration)));
                            }
                        }
                        SampleOutcome::Panic(pi) => out.push(Violation::new(prop, "readback_panic", format!("api=read_sample {}", pi.discriminator()), pi.location)),
                        o => out.push(Violation::new(prop, "sample_missing", format!("got={}", o.class()), format!("track {t} sample {k} of {n}"))),
                    }
                    if out.len() > 12 {
                        break;
                    }
                }
            }
        }
        st.distinct.insert(hash_str(&format!(
            "{}|{}|{}|{}|{}|{}",
            case.family,
            case.side,
            m.tracks.iter().map(|t| format!("{}{}{}{}", t.is_co64 as u8, t.mdhd_version, t.tkhd_version, String::from_utf8_lossy(&t.entry.fourcc))).collect::<Vec<_>>().join(","),
            m.mvhd_version,
            m.mdat_large.iter().any(|x| *x),
            (sc.start_pos > 0) as u8
        )));
        st.absorb_sim(&outp.sim.borrow());
        let mut seen = std::collections::BTreeSet::new();
        out.retain(|v| seen.insert(v.signature()));
        out
    }
    fn shrink_steps(c: &BigCase) -> Vec<BigCase> {
        // only cheap families are shrunk (a >4 GiB case costs seconds per evaluation)
        if c.family.starts_with("payload") {
            return vec![];
        }
        modea::shrink_mux(&c.sc).into_iter().take(400).map(|sc| BigCase { family: c.family.clone(), side: c.side, sc }).collect()
    }
    fn rule() -> String {
        "structured family x seeded jitter on the sparse simulated disk: (payload) > 4 GiB of media data as 128 MiB constant-byte samples so that the mdat size or the last chunk offset is 2^32-1 / 2^32 / 2^32+1, for every track kind, 1-3 tracks; (pos) small histories whose output starts at a stream position in [2^32-4096, 2^32+4096], near 2^40 or random below 2^31; (dur) durations whose sum reaches 2^32-1 / 2^32 / 2^32+1 in the media, track or movie timescale; checked by the C02 relations on the header bytes via the independent parser, reader sample_offset of every sample vs offsets derived from the parsed tables, full read-back of small samples and of first/last/boundary-straddling/selected large samples, timing of every sample read; distinct_nontrivial = distinct (family, side, per-track co64/version/codec, mvhd version, mdat form, start position class)".into()
    }
    fn assumptions() -> Vec<String> {
        vec![
            "large samples consist of one repeated byte (4 alternating values), so a wrong offset is detected when it lands in a neighbouring sample or outside the payload, not byte-exactly inside the same sample".into(),
            "independent parser and reference model trusted".into(),
        ]
    }
    fn mandatory_probes(_t: Tier) -> Vec<&'static str> {
        vec![
            "probe.co64_kept",
            "probe.stco_used",
            "probe.mdhd_version1",
            "probe.tkhd_version1",
            "probe.mvhd_version1",
            "probe.mdat_largesize",
            "probe.output_beyond_4gib",
            "probe.chunk_offset_beyond_u32",
            "probe.nonzero_start_position",
            "large_samples_read_back",
        ]
    }
}
