//! C02 — muxer output is a structurally valid, self-consistent ISO-BMFF file (mode A, `indep`).
use crate::modea;
use crate::runner::{Prop, Tier};
use crate::scenario::*;
use crate::stats::Stats;
use crate::verdict::Violation;

pub struct C02;

impl Prop for C02 {
    type Case = MuxScenario;
    const ID: &'static str = "C02";
    const LEVEL: &'static str = "exploration";
    fn count(tier: Tier) -> u64 {
        match tier {
            Tier::Quick => 240_000,
            Tier::Thorough => 12_000_000,
        }
    }
    fn gen(seed: u64, _idx: u64, tier: Tier) -> MuxScenario {
        super::c01::gen_valid(seed, tier)
    }
    fn eval(case: &MuxScenario, st: &mut Stats) -> Vec<Violation> {
        modea::eval_c02("C02", case, st)
    }
    fn shrink_steps(case: &MuxScenario) -> Vec<MuxScenario> {
        modea::shrink_mux(case)
    }
    fn rule() -> String {
        "same history space as C01 (own case stream); the output bytes are decoded only by the independent parser `indep` and checked for: exact tiling of top-level boxes and of every container, one ftyp first, one moov, table totals = samples written, stss strictly increasing in range, stsc shape, every chunk inside an mdat payload, chunks pairwise disjoint, mdhd duration = summed deltas, tkhd and mvhd durations within one tick of the exact rational; distinct_nontrivial = distinct table-shape signatures as in C01".into()
    }
    fn assumptions() -> Vec<String> {
        vec![
            "the independent parser `indep` (written from ISO/IEC 14496-12/-14/-15) is correct".into(),
            "histories are bounded as in C01".into(),
        ]
    }
    fn mandatory_probes(_t: Tier) -> Vec<&'static str> {
        vec!["probe.stsc_merged_chunks", "probe.three_tracks", "probe.header_version1", "probe.stsz_variable", "probe.stsz_fixed"]
    }
}
