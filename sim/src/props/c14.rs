//! C14 — track and movie configuration survives mux -> demux (mode A).
use crate::configcheck::check_config;
use crate::model::Model;
use crate::modea;
use crate::prng::Rng;
use crate::runner::{Prop, Tier};
use crate::scenario::*;
use crate::stats::{hash_str, Stats};
use crate::verdict::Violation;

pub struct C14;

impl Prop for C14 {
    type Case = MuxScenario;
    const ID: &'static str = "C14";
    const LEVEL: &'static str = "exploration";
    fn count(tier: Tier) -> u64 {
        match tier {
            Tier::Quick => 240_000,
            Tier::Thorough => 12_000_000,
        }
    }
    fn gen(seed: u64, _idx: u64, tier: Tier) -> MuxScenario {
        let mut r = Rng::new(seed);
        let mut o = GenOpts::valid();
        o.max_tracks = 8;
        o.long_ops = if tier == Tier::Thorough { 1500 } else { 200 };
        let mut sc = gen_mux(&mut r, &o);
        // configurations the muxer rejects, interleaved with the valid ones: a rejected
        // add_track must not disturb what is reported for the tracks added after it
        if r.chance(1, 8) {
            inject_rejected_add_track(&mut sc, &mut r);
        }
        // a very long history of tiny samples with maximal durations: the summed media duration
        // times 10^6 passes 2^64 (4295+ samples) - cheap to mux, and only the accessors are read
        if r.chance(1, 150) {
            let ts = *r.pick(&[1u32, 1, 2, 1000, 90000, 48000]);
            let mut ops = vec![Op::AddTrack(TrackCfg { timescale: ts, ..match sc.ops.iter().find_map(|op| if let Op::AddTrack(t) = op { Some(t.clone()) } else { None }) {
                Some(t) if t.timescale > 0 => t,
                _ => gen_track_cfg(&mut r, &o, &[Kind::Aac, Kind::Ttxt, Kind::Hevc]),
            } })];
            let n = 4295 + r.below(1200) as u32;
            for i in 0..n {
                ops.push(Op::Write { track_id: 1, s: SampleW { payload: Payload::Stamp { len: (i % 2) as u32, tag: i + 1 }, duration: u32::MAX - (i % 3), offset: 0, sync: true, start_time: 0 } });
            }
            ops.push(Op::End);
            sc.ops = ops;
            sc.cfg.timescale = *r.pick(&[1u32, 1000, 600]);
            sc.io = IoKnobs::plain();
            fit_durations(&mut sc);
        }
        sc
    }
    fn eval(sc: &MuxScenario, st: &mut Stats) -> Vec<Violation> {
        let prop = "C14";
        let mut out = Vec::new();
        let outp = modea::execute(sc, None, st);
        let mut scratch = Vec::new();
        if modea::check_calls(prop, sc, &outp.run, &mut scratch) {
            let model = Model::build(prop, sc, &outp.run, &mut scratch);
            check_config(prop, &outp.sim, sc, modea::output_end(&outp), &model, true, &mut out);
            for t in &model.tracks {
                let c = &t.cfg;
                // distinct measure: configuration classes met
                let sig = match c.kind {
                    Kind::Avc => format!("avc sps{} pps{} w{} h{}", c.sps.len(), c.pps.len(), (c.width as u32 + 1).leading_zeros(), (c.height as u32 + 1).leading_zeros()),
                    Kind::Aac => format!("aac {} {} {}", c.aac_profile, c.freq_index, c.chan_conf),
                    k => format!("{} w{} h{}", k.name(), (c.width as u32 + 1).leading_zeros(), (c.height as u32 + 1).leading_zeros()),
                };
                st.distinct.insert(hash_str(&sig));
                st.set_insert("languages", hash_str(&c.language));
                st.set_insert("track_timescales", c.timescale as u64);
                st.probe("probe.aac_object_type_ge32", c.kind == Kind::Aac && c.aac_profile >= 32);
                st.probe("probe.duration_over_u32", t.total_duration > u32::MAX as u64);
            }
            st.probe("probe.nonascii_brand", sc.cfg.major.iter().any(|b| *b >= 0x80));
            st.probe("probe.rejected_add_track_before_accepted", outp.run.results[1..].iter().zip(sc.ops.iter()).any(|(r, op)| matches!(op, Op::AddTrack(_)) && !r.is_ok()));
            st.probe("probe.media_duration_times_1e6_over_u64", model.tracks.iter().any(|t| t.total_duration as u128 * 1_000_000 > u64::MAX as u128));
        } else {
            st.inc("history_not_finished");
        }
        st.absorb_sim(&outp.sim.borrow());
        out
    }
    fn shrink_steps(case: &MuxScenario) -> Vec<MuxScenario> {
        modea::shrink_mux(case)
    }
    fn rule() -> String {
        "seeded Mp4Config/TrackConfig values in their documented domains (any brand bytes, 0-8 compatible brands, u16 dimensions, SPS 4..64 / PPS 0..64 arbitrary bytes, every AudioObjectType x SampleFreqIndex x ChannelConfig, any bitrate, 3-letter a-z language, timescales >= 1) plus a sample history, muxed by the real writer over the simulated disk and read through every Mp4Track / Mp4Reader accessor; distinct_nontrivial = distinct configuration classes met (per kind: AAC type x frequency x channels; AVC parameter-set lengths and log2 dimensions; log2 dimensions otherwise)".into()
    }
    fn assumptions() -> Vec<String> {
        vec![
            "durations are compared with a tolerance of one header tick plus one reported unit (us for tracks, ms for the movie)".into(),
            "histories whose track duration exceeds 2^62 movie ticks are outside the domain (not representable in any file)".into(),
        ]
    }
    fn mandatory_probes(_t: Tier) -> Vec<&'static str> {
        vec!["probe.aac_object_type_ge32", "probe.duration_over_u32", "probe.nonascii_brand", "probe.rejected_add_track_before_accepted", "probe.media_duration_times_1e6_over_u64"]
    }
}
