//! C14 — track and movie configuration survives mux -> demux (mode A).
use crate::configcheck::check_config;
use crate::model::Model;
use crate::modea;
use crate::prng::Rng;
use crate::runner::{Prop, Tier};
use crate::scenario::*;
use crate::stats::{hash_str, Stats};
use crate::verdict::Violation;

pub struct C14;

impl Prop for C14 {
    type Case = MuxScenario;
    const ID: &'static str = "C14";
    const LEVEL: &'static str = "exploration";
    fn count(tier: Tier) -> u64 {
        match tier {
            Tier::Quick => 240_000,
            Tier::Thorough => 12_000_000,
        }
    }
    fn gen(seed: u64, _idx: u64, tier: Tier) -> MuxScenario {
        let mut r = Rng::new(seed);
        let mut o = GenOpts::valid();
        o.max_tracks = 8;
        o.long_ops = if tier == Tier::Thorough { 1500 } else { 200 };
        gen_mux(&mut r, &o)
    }
    fn eval(sc: &MuxScenario, st: &mut Stats) -> Vec<Violation> {
        let prop = "C14";
        let mut out = Vec::new();
        let outp = modea::execute(sc, None, st);
        let mut scratch = Vec::new();
        if modea::check_calls(prop, sc, &outp.run, &mut scratch) {
            let model = Model::build(prop, sc, &outp.run, &mut scratch);
            check_config(prop, &outp.sim, sc, &model, true, &mut out);
            for t in &model.tracks {
                let c = &t.cfg;
                // distinct measure: configuration classes met
                let sig = match c.kind {
                    Kind::Avc => format!("avc sps{} pps{} w{} h{}", c.sps.len(), c.pps.len(), (c.width as u32 + 1).leading_zeros(), (c.height as u32 + 1).leading_zeros()),
                    Kind::Aac => format!("aac {} {} {}", c.aac_profile, c.freq_index, c.chan_conf),
                    k => format!("{} w{} h{}", k.name(), (c.width as u32 + 1).leading_zeros(), (c.height as u32 + 1).leading_zeros()),
                };
                st.distinct.insert(hash_str(&sig));
                st.set_insert("languages", hash_str(&c.language));
                st.set_insert("track_timescales", c.timescale as u64);
                st.probe("probe.aac_object_type_ge32", c.kind == Kind::Aac && c.aac_profile >= 32);
                st.probe("probe.duration_over_u32", t.total_duration > u32::MAX as u64);
            }
            st.probe("probe.nonascii_brand", sc.cfg.major.iter().any(|b| *b >= 0x80));
        } else {
            st.inc("history_not_finished");
        }
        st.absorb_sim(&outp.sim.borrow());
        out
    }
    fn shrink_steps(case: &MuxScenario) -> Vec<MuxScenario> {
        modea::shrink_mux(case)
    }
    fn rule() -> String {
        "seeded Mp4Config/TrackConfig values in their documented domains (any brand bytes, 0-8 compatible brands, u16 dimensions, SPS 4..64 / PPS 0..64 arbitrary bytes, every AudioObjectType x SampleFreqIndex x ChannelConfig, any bitrate, 3-letter a-z language, timescales >= 1) plus a sample history, muxed by the real writer over the simulated disk and read through every Mp4Track / Mp4Reader accessor; distinct_nontrivial = distinct configuration classes met (per kind: AAC type x frequency x channels; AVC parameter-set lengths and log2 dimensions; log2 dimensions otherwise)".into()
    }
    fn assumptions() -> Vec<String> {
        vec![
            "durations are compared with a tolerance of one header tick plus one reported unit (us for tracks, ms for the movie)".into(),
            "histories whose track duration exceeds 2^62 movie ticks are outside the domain (not representable in any file)".into(),
        ]
    }
    fn mandatory_probes(_t: Tier) -> Vec<&'static str> {
        vec!["probe.aac_object_type_ge32", "probe.duration_over_u32", "probe.nonascii_brand"]
    }
}
