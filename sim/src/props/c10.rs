//! C10 — I/O failures surface as errors; short reads and writes are transparent (mode C).
use crate::modec::*;
use crate::prng::Rng;
use crate::runner::{Prop, Tier};
use crate::seeds::{build, small_scenario, SeedSpec};
use crate::stats::Stats;
use crate::verdict::Violation;

pub struct C10;

impl Prop for C10 {
    type Case = IoCase;
    const ID: &'static str = "C10";
    const LEVEL: &'static str = "fault_enumeration";
    const STALL_SECS: u64 = 120;
    fn count(tier: Tier) -> u64 {
        match tier {
            Tier::Quick => 480,
            Tier::Thorough => 16000,
        }
    }
    fn gen(seed: u64, idx: u64, tier: Tier) -> IoCase {
        let mut r = Rng::new(seed);
        let max_k = 4000;
        // the first cases of every run cover each scenario class once
        let class = if idx < 8 { idx } else { r.below(8) };
        let src = match class {
            0 | 1 => IoSrc::Mux(small_scenario(r.next_u64() >> 20)),
            2 => {
                // the same kind of history written behind 4 GiB of other data in a sparse sink:
                // 64-bit chunk offset tables are written (only the muxing is enumerated)
                let mut sc = small_scenario(r.next_u64() >> 20);
                if idx == 2 || r.chance(1, 2) {
                    sc.start_pos = (1u64 << 32) + r.below(1 << 20);
                }
                IoSrc::Mux(sc)
            }
            3 => IoSrc::Seed(SeedSpec::Canned("minimal.mp4".into())),
            4 => IoSrc::Seed(SeedSpec::CannedFrag),
            5 => IoSrc::Seed(SeedSpec::Frag { seed: r.below(4096) }),
            6 => IoSrc::Seed(SeedSpec::Meta { seed: r.below(4096) }),
            _ => {
                if tier == Tier::Thorough && r.chance(1, 30) {
                    IoSrc::Seed(SeedSpec::Canned("big_buck_bunny_metadata.m4v".into()))
                } else if r.chance(1, 3) {
                    IoSrc::Seed(SeedSpec::Canned("extended_audio_object_type.mp4".into()))
                } else if r.chance(1, 2) {
                    IoSrc::Seed(SeedSpec::MuxReloc { seed: r.below(4096) })
                } else {
                    IoSrc::Seed(SeedSpec::MuxShuffled { seed: r.below(4096) })
                }
            }
        };
        // the schedule is generated against the image the clean run will produce
        let (img, split) = match &src {
            IoSrc::Mux(sc) if sc.start_pos > (1 << 30) => (Vec::new(), None),
            IoSrc::Mux(sc) => (crate::seeds::mux_bytes(sc), None),
            IoSrc::Seed(s) => {
                let si = build(s);
                (si.bytes, si.init_len)
            }
        };
        let sched = gen_sched(&mut r, &img, split, 30);
        IoCase { src, sched, max_k, pick_seed: r.next_u64() }
    }
    fn eval(case: &IoCase, st: &mut Stats) -> Vec<Violation> {
        let before = st.get("fault_runs");
        let v = eval("C10", case, st);
        st.evaluations_override += st.get("fault_runs") - before;
        v
    }
    fn shrink_steps(c: &IoCase) -> Vec<IoCase> {
        let mut v = Vec::new();
        // shorter reader schedule
        if !c.sched.is_empty() {
            let mut d = c.clone();
            d.sched.clear();
            v.push(d);
            for i in 0..c.sched.len() {
                let mut d = c.clone();
                d.sched.remove(i);
                v.push(d);
            }
        }
        if let IoSrc::Mux(sc) = &c.src {
            for s2 in crate::modea::shrink_mux(sc).into_iter().take(200) {
                let mut d = c.clone();
                d.src = IoSrc::Mux(s2);
                v.push(d);
            }
        }
        v
    }
    fn rule() -> String {
        "per scenario (a small muxing history on the real writer followed by a reader schedule of <= 30 calls over its output; or a canned / packager image - incl. init+segment opened separately - with a schedule): one clean run records every stream call, then one re-run per (stream call index k, fault kind legal for that call): hard faults {Err(Other), Err(one of 6 further kinds by rotation), zero-length transfer} must make the API call in progress return Error::IoError carrying the injected error (WriteZero / UnexpectedEof for zero-length transfers); transparent faults {Interrupted, Short(1), Short(len-1), Short(len/2)} and whole-run chunkings {1 byte per call, random, EINTR on half of the calls, 3 bytes + EINTR} must leave every result and the output image identical; all k are enumerated when a phase makes <= 4000 stream calls; evaluations = fault-injected executions; distinct_nontrivial = distinct (API call, stream op, fault kind, call index) tuples that fired".into()
    }
    fn assumptions() -> Vec<String> {
        vec![
            "C10 judges the API call in progress only; what later calls do after an I/O error is C17's / C06's business".into(),
            "exhaustive over call index x fault kind for the explored scenarios, seeded over scenarios".into(),
        ]
    }
    fn mandatory_probes(_t: Tier) -> Vec<&'static str> {
        vec!["scenario.mux_then_read", "scenario.seed.canned_frag", "scenario.seed.frag", "fired.whole_run.one_byte_per_call"]
    }
}
