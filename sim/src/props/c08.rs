//! C08 — memory use is bounded by the input length, not by fields in the input (mode E).
use crate::modee::*;
use crate::runner::{Prop, Tier};
use crate::sched::{Outcome, SessionCfg};
use crate::stats::Stats;
use crate::verdict::Violation;

pub struct C08;

pub const SINGLE_BASE: u64 = 1 << 20;
pub const PEAK_BASE: u64 = 8 << 20;
pub const CUM_BASE: u64 = 16 << 20;

impl Prop for C08 {
    type Case = CorruptCase;
    const ID: &'static str = "C08";
    const LEVEL: &'static str = "exploration";
    const STALL_IS_VIOLATION: bool = false;
    fn count(tier: Tier) -> u64 {
        sweep_len(tier)
            + match tier {
                Tier::Quick => 250_000,
                Tier::Thorough => 15_000_000,
            }
    }
    fn gen(seed: u64, idx: u64, tier: Tier) -> CorruptCase {
        // indices below sweep_len: systematic single-field enumeration; above: seeded campaign
        if idx < sweep_len(tier) {
            sweep_case(idx, tier)
        } else {
            gen_case(seed)
        }
    }
    fn eval(case: &CorruptCase, st: &mut Stats) -> Vec<Violation> {
        let mut cfg = SessionCfg::standard();
        cfg.measure_alloc = true;
        cfg.trace_above = SINGLE_BASE as usize;
        // swarm knob: a quarter of the seeded cases read through a stream that hands out at most
        // 16 bytes per call, an eighth through one with random small transfers (buffers that
        // grow per read call rather than per byte read only show there)
        if let Some(k) = case.extra_ids.first() {
            match k % 8 {
                0 | 1 => cfg.chunking = crate::simdisk::Chunking::Max(16),
                2 => cfg.chunking = crate::simdisk::Chunking::Random(*k as u64),
                _ => {}
            }
        }
        st.probe("probe.short_transfers", cfg.chunking != crate::simdisk::Chunking::Full);
        let run = run_case(case, cfg, st);
        account(case, &run, st);
        let mut out = Vec::new();
        for rec in &run.recs {
            if matches!(rec.outcome, Outcome::Panic(_)) {
                // the panic machinery itself allocates; the panic is C06's finding
                continue;
            }
            let n = rec.n;
            st.max("max_single_request", rec.alloc.max_request as u64);
            st.max("max_peak_live", rec.alloc.peak_over_base as u64);
            st.max("max_cumulative", rec.alloc.cumulative as u64);
            st.add("allocation_requests_observed", rec.alloc.requests as u64);
            if rec.alloc.max_request as u64 > SINGLE_BASE + 64 * n {
                let site = rec.alloc_site.as_ref().map(|s| s.1.clone()).unwrap_or_else(|| "?".into());
                out.push(Violation::new(
                    "C08",
                    "single_request",
                    format!("fn={site}"),
                    format!("{} requested {} bytes at once on an image of {} bytes (limit 1 MiB + 64n)", rec.api, rec.alloc.max_request, n),
                ));
            } else if rec.alloc.peak_over_base as u64 > PEAK_BASE + 64 * n {
                out.push(Violation::new("C08", "peak_live", format!("api={}", rec.api), format!("{} held {} bytes live on an image of {} bytes (limit 8 MiB + 64n)", rec.api, rec.alloc.peak_over_base, n)));
            } else if rec.alloc.cumulative as u64 > CUM_BASE + 128 * n {
                out.push(Violation::new("C08", "cumulative", format!("api={}", rec.api), format!("{} allocated {} bytes in total on an image of {} bytes (limit 16 MiB + 128n)", rec.api, rec.alloc.cumulative, n)));
            }
        }
        out.dedup_by(|a, b| a.signature() == b.signature());
        out
    }
    fn shrink_steps(case: &CorruptCase) -> Vec<CorruptCase> {
        shrink_case(case)
    }
    fn rule() -> String {
        format!("(systematic part) every located field of a fixed list of 20 seed images (first the everything-at-once image: one track per kind, every metadata and layout variant, a leading free box in every container; two regular files continued by fragments) x 13 boundary values, one substitution per run (thorough: all {} (image, field, value) triples; quick: the first 50 000), then coordinated pairs: the size of every leaf box and one of its first three words inflated together (4 x 5 values; thorough: all {} pairs, quick: the first 10 000), then {} vacuous-ancestor cases on images whose boxes all have 64-bit headers (one enclosing box, or every enclosing box, claims a size with the top bit set while a leaf lies about its size and a count); {}", crate::modee::sweep_total(), crate::modee::pair_total(), crate::modee::vac_total(), "(seeded part) same storage-fault campaign as C06 (own case stream; 3 in 8 cases through a stream that transfers at most 16 / a random small number of bytes per call) with the counting allocator armed around every API call: largest single request <= 1 MiB + 64n, peak live bytes <= 8 MiB + 64n, cumulative <= 16 MiB + 128n (n = image length; the unchanged tree peaks at 2.1 MiB on small images and at 12 bytes per input byte on images with hundreds of tracks and thousands of fragments); requests up to 6 GiB are served (untouched pages) so the run continues and the site is recorded, larger ones abort the worker, which the supervisor reports; distinct_nontrivial = distinct (fault kind, box path:field, outcome class) triples")
    }
    fn assumptions() -> Vec<String> {
        vec![
            "the additive constants cover allocations bounded by a field's width (u16 NAL lengths, u16 x 32-byte hvcC array entries) rather than by n".into(),
            "explores the fault neighbourhood of valid images, not all byte strings".into(),
        ]
    }
    fn mandatory_probes(_t: Tier) -> Vec<&'static str> {
        vec!["probe.opened_after_faults", "probe.no_fault_baseline"]
    }
}
