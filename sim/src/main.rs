mod alloc;
mod boxtree;
mod configcheck;
mod corrupt;
mod indep;
mod modea;
mod modec;
mod modee;
mod model;
mod mux;
mod panicx;
mod prng;
mod props;
mod runner;
mod scenario;
mod sched;
mod seeds;
mod simdisk;
mod stats;
mod verdict;

use runner::{Prop, Tier};

#[global_allocator]
static GLOBAL: alloc::Counting = alloc::Counting;
use std::path::Path;

macro_rules! dispatch {
    ($id:expr, $f:ident, $($args:expr),*) => {
        match $id {
            "C01" => runner::$f::<props::c01::C01>($($args),*),
            "C02" => runner::$f::<props::c02::C02>($($args),*),
            "C06" => runner::$f::<props::c06::C06>($($args),*),
            "C07" => runner::$f::<props::c07::C07>($($args),*),
            "C08" => runner::$f::<props::c08::C08>($($args),*),
            "C10" => runner::$f::<props::c10::C10>($($args),*),
            "C11" => runner::$f::<props::c11::C11>($($args),*),
            "C13" => runner::$f::<props::c13::C13>($($args),*),
            "C14" => runner::$f::<props::c14::C14>($($args),*),
            "C15" => runner::$f::<props::c15::C15>($($args),*),
            "C17" => runner::$f::<props::c17::C17>($($args),*),
            other => {
                eprintln!("unknown property {other}");
                2
            }
        }
    };
}

fn env_u64(k: &str, d: u64) -> u64 {
    std::env::var(k).ok().and_then(|v| v.parse().ok()).unwrap_or(d)
}

fn main() {
    panicx::install_hook();
    let a: Vec<String> = std::env::args().collect();
    let code = match a.get(1).map(|s| s.as_str()) {
        Some("check") => {
            // check <ID> <tier>
            let id = a.get(2).map(|s| s.as_str()).unwrap_or("");
            let tier = std::env::var("VERIF_TIER").ok().and_then(|t| Tier::parse(&t)).or_else(|| a.get(3).and_then(|t| Tier::parse(t))).unwrap_or(Tier::Quick);
            let tier = a.get(3).and_then(|t| Tier::parse(t)).unwrap_or(tier);
            let seed = env_u64("VERIF_SEED", runner::DEFAULT_SEED);
            let workers = env_u64("VERIF_WORKERS", 16) as usize;
            dispatch!(id, check_main, tier, seed, workers, None)
        }
        Some("worker") => {
            let id = a[2].as_str();
            let tier = Tier::parse(&a[3]).unwrap();
            let seed: u64 = a[4].parse().unwrap();
            let shard: u64 = a[5].parse().unwrap();
            let of: u64 = a[6].parse().unwrap();
            let from: u64 = a[7].parse().unwrap();
            dispatch!(id, worker_main, tier, seed, shard, of, from)
        }
        Some("one") => {
            let id = a[2].as_str();
            dispatch!(id, one_main, Path::new(&a[3]))
        }
        Some("shrink") => {
            let id = a[2].as_str();
            dispatch!(id, shrink_main, Path::new(&a[3]), Path::new(&a[4]))
        }
        Some("selfcheck") => {
            // selfcheck [ID ...] : determinism proof; default = all claimed properties
            let seed = env_u64("VERIF_SEED", runner::DEFAULT_SEED);
            let all = ["C01", "C02", "C06", "C07", "C08", "C10", "C11", "C13", "C14", "C15", "C17"];
            let ids: Vec<String> = if a.len() > 2 { a[2..].to_vec() } else { all.iter().map(|s| s.to_string()).collect() };
            let mut worst = 0;
            for id in ids {
                let cases: u64 = match id.as_str() {
                    "C10" | "C11" => 48,
                    "C13" => 400,
                    // the first indices of these are the systematic sweeps: go 6000 cases into
                    // the seeded campaign as well
                    "C06" | "C07" | "C08" => modee::sweep_len(runner::Tier::Quick) + 6000,
                    _ => 4000,
                };
                let c = dispatch!(id.as_str(), selfcheck_main, cases, seed);
                worst = worst.max(c);
            }
            worst
        }
        Some("scaleprobe") => {
            // development aid: run the reader schedule over fault-free scale images and print the
            // worst work / allocation ratios
            let n: u64 = a.get(2).and_then(|x| x.parse().ok()).unwrap_or(100);
            let mut worst = (0u64, 0u64, 0u64, 0u64);
            let start = env_u64("SCALE_SEED", 0);
            for seed in start..start + n {
                let spec = if std::env::var("DCHAIN").is_ok() { seeds::SeedSpec::DescriptorChain { seed } } else if std::env::var("CHAIN").is_ok() { seeds::SeedSpec::LengthChain { seed } } else { seeds::SeedSpec::Scale { seed } };
                let case = modee::CorruptCase { seed: spec, faults: vec![], labels: vec![], split: seed % 2 == 0, init_faults: vec![], late: None, extra_ids: vec![], sweep: false };
                let mut cfg = sched::SessionCfg::standard();
                cfg.measure_alloc = true;
                let mut st = stats::Stats::default();
                let t0 = std::time::Instant::now();
                let run = modee::run_case(&case, cfg, &mut st);
                let ms = t0.elapsed().as_millis();
                let mut w = (0u64, 0u64, 0u64, 0u64);
                let mut wapi = ("", "", "");
                for rec in &run.recs {
                    if rec.n == 0 { continue; }
                    let a = rec.ops * 1000 / rec.n;
                    let b = rec.alloc.cumulative as u64 * 1000 / rec.n;
                    let c = rec.alloc.peak_over_base as u64 * 1000 / rec.n;
                    if a > w.0 { w.0 = a; wapi.0 = rec.api; }
                    if b > w.1 { w.1 = b; wapi.1 = rec.api; }
                    if c > w.2 { w.2 = c; wapi.2 = rec.api; }
                    w.3 = w.3.max(rec.micros);
                }
                println!("seed {seed}: n={} calls={} {ms}ms ops/byte={:.1}({}) cum/byte={:.1}({}) peak/byte={:.1}({}) slowest={}us", run.image_len, run.recs.len(), w.0 as f64 / 1000.0, wapi.0, w.1 as f64 / 1000.0, wapi.1, w.2 as f64 / 1000.0, wapi.2, w.3);
                worst.0 = worst.0.max(w.0); worst.1 = worst.1.max(w.1); worst.2 = worst.2.max(w.2); worst.3 = worst.3.max(w.3);
            }
            println!("WORST ops/byte={:.1} cum/byte={:.1} peak/byte={:.1} slowest={}us", worst.0 as f64 / 1000.0, worst.1 as f64 / 1000.0, worst.2 as f64 / 1000.0, worst.3);
            0
        }
        Some("sweepinfo") => {
            println!("sweep_total={} pair_total={} vac_total={}", modee::sweep_total(), modee::pair_total(), modee::vac_total());
            0
        }
        Some("replay") => runner::replay_main(Path::new(&a[2])),
        _ => {
            eprintln!("usage: mp4sim check <ID> <quick|thorough> | replay <file>");
            2
        }
    };
    let _ = <props::c01::C01 as Prop>::ID;
    std::process::exit(code);
}
