//! Reference model of a muxed movie (trivial inside: vectors), and the player client that
//! compares what the real `Mp4Reader` returns with what the model predicts.

use crate::mux::{CallResult, ErrSummary, MuxRun};
use crate::panicx::guard;
use crate::scenario::*;
use crate::simdisk::{SimFile, SimRef};
use crate::verdict::Violation;

#[derive(Clone, Debug)]
pub struct ModelTrack {
    pub cfg: TrackCfg,
    pub samples: Vec<SampleW>,
    pub starts: Vec<u64>,
    pub total_duration: u64,
}

#[derive(Clone, Debug)]
pub struct Model {
    pub cfg: MovieCfg,
    pub tracks: Vec<ModelTrack>,
}

impl Model {
    /// The model follows the muxer's own accept/reject decisions (the properties are stated
    /// for "calls the muxer accepts"); what it refuses to follow is an accepted write to a
    /// track that does not exist, which no reader could ever return.
    pub fn build(prop: &str, sc: &MuxScenario, run: &MuxRun, out: &mut Vec<Violation>) -> Model {
        let mut m = Model {
            cfg: sc.cfg.clone(),
            tracks: Vec::new(),
        };
        for (i, op) in sc.ops.iter().enumerate() {
            let ok = run.results[i + 1].is_ok();
            match op {
                Op::AddTrack(tc) => {
                    if ok {
                        m.tracks.push(ModelTrack {
                            cfg: tc.clone(),
                            samples: Vec::new(),
                            starts: Vec::new(),
                            total_duration: 0,
                        });
                    }
                }
                Op::Write { track_id, s } => {
                    if ok {
                        let n = m.tracks.len() as u32;
                        if *track_id == 0 || *track_id > n {
                            out.push(Violation::new(
                                prop,
                                "accepted_unknown_track",
                                format!("id_class={}", if *track_id == 0 { "zero" } else { "beyond" }),
                                format!("write_sample(track_id={track_id}) returned Ok with {n} tracks"),
                            ));
                        } else {
                            let t = &mut m.tracks[*track_id as usize - 1];
                            t.starts.push(t.total_duration);
                            t.total_duration += s.duration as u64;
                            t.samples.push(s.clone());
                        }
                    }
                }
                Op::End => {}
            }
        }
        m
    }
}

/// A guarded reader session over the simulated disk.
pub struct Player {
    pub sim: SimRef,
    pub reader: mp4::Mp4Reader<SimFile>,
    pub api: u32,
}

pub enum Opened {
    Ok(Player),
    Err(ErrSummary),
    Panic(crate::panicx::PanicInfo),
}

impl Player {
    pub fn open(sim: &SimRef, start_pos: u64, size: u64, api0: u32) -> Opened {
        let f = SimFile::at(sim, start_pos);
        sim.borrow_mut().begin_api(api0);
        match guard(|| mp4::Mp4Reader::read_header(f, size)) {
            Ok(Ok(reader)) => Opened::Ok(Player {
                sim: sim.clone(),
                reader,
                api: api0 + 1,
            }),
            Ok(Err(e)) => Opened::Err(ErrSummary::of(&e)),
            Err(p) => Opened::Panic(p),
        }
    }

    pub fn track_ids(&self) -> Vec<u32> {
        let mut v: Vec<u32> = self.reader.tracks().keys().copied().collect();
        v.sort_unstable();
        v
    }

    fn next_api(&mut self) {
        let a = self.api;
        self.sim.borrow_mut().begin_api(a);
        self.api += 1;
    }

    pub fn read_sample(&mut self, t: u32, k: u32) -> SampleOutcome {
        self.next_api();
        let r = &mut self.reader;
        match guard(|| r.read_sample(t, k)) {
            Ok(Ok(Some(s))) => SampleOutcome::Some(s),
            Ok(Ok(None)) => SampleOutcome::None,
            Ok(Err(e)) => SampleOutcome::Err(ErrSummary::of(&e)),
            Err(p) => SampleOutcome::Panic(p),
        }
    }

    pub fn sample_count(&mut self, t: u32) -> Result<Result<u32, ErrSummary>, crate::panicx::PanicInfo> {
        self.next_api();
        let r = &self.reader;
        guard(|| r.sample_count(t)).map(|x| x.map_err(|e| ErrSummary::of(&e)))
    }

    pub fn sample_offset(&mut self, t: u32, k: u32) -> Result<Result<u64, ErrSummary>, crate::panicx::PanicInfo> {
        self.next_api();
        let r = &mut self.reader;
        guard(|| r.sample_offset(t, k)).map(|x| x.map_err(|e| ErrSummary::of(&e)))
    }
}

pub enum SampleOutcome {
    Some(mp4::Mp4Sample),
    None,
    Err(ErrSummary),
    Panic(crate::panicx::PanicInfo),
}

impl SampleOutcome {
    pub fn class(&self) -> String {
        match self {
            SampleOutcome::Some(_) => "some".into(),
            SampleOutcome::None => "none".into(),
            SampleOutcome::Err(e) => format!("err={}", e.short()),
            SampleOutcome::Panic(p) => format!("panic {}", p.discriminator()),
        }
    }
}

/// Which sample ids of a track with `count` samples are read back: all of them up to 600,
/// otherwise the ends plus an evenly spread, deterministic selection.
pub fn ids_to_check(count: u32) -> Vec<u32> {
    if count <= 600 {
        return (1..=count).collect();
    }
    let mut v: Vec<u32> = (1..=16).collect();
    v.extend(count - 15..=count);
    let step = (count - 32) / 480;
    let mut k = 17;
    while k < count - 15 {
        v.push(k);
        // alternate stride so that both parities and chunk phases are met
        k += step.max(1) + (k % 3);
    }
    v.sort_unstable();
    v.dedup();
    v
}

/// C01's read-back: open what the muxer wrote and compare with the model.
pub fn check_readback(
    prop: &str,
    sim: &SimRef,
    start_pos: u64,
    size: u64,
    model: &Model,
    full_bytes: bool,
    out: &mut Vec<Violation>,
) {
    let mut p = match Player::open(sim, start_pos, size, 10_000) {
        Opened::Ok(p) => p,
        Opened::Err(e) => {
            out.push(Violation::new(prop, "readback_open_failed", format!("err={}", e.short()), e.msg));
            return;
        }
        Opened::Panic(pi) => {
            out.push(Violation::new(prop, "readback_panic", format!("api=read_header {}", pi.discriminator()), pi.location));
            return;
        }
    };
    let clean_mark = out.len();
    let ids = p.track_ids();
    let want: Vec<u32> = (1..=model.tracks.len() as u32).collect();
    if ids != want {
        out.push(Violation::new(
            prop,
            "track_set",
            format!("got_n={} want_n={}", ids.len(), want.len()),
            format!("track ids read back {ids:?}, written {want:?}"),
        ));
        return;
    }
    for (ti, mt) in model.tracks.iter().enumerate() {
        let t = ti as u32 + 1;
        let kind = mt.cfg.kind.name();
        let n = mt.samples.len() as u32;
        match p.sample_count(t) {
            Ok(Ok(c)) if c == n => {}
            Ok(Ok(c)) => {
                out.push(Violation::new(prop, "sample_count", String::new(), format!("track {t} ({kind}): count {c}, written {n}")));
                continue;
            }
            Ok(Err(e)) => {
                out.push(Violation::new(prop, "sample_count", format!("err={}", e.short()), e.msg));
                continue;
            }
            Err(pi) => {
                out.push(Violation::new(prop, "readback_panic", format!("api=sample_count {}", pi.discriminator()), pi.location));
                continue;
            }
        }
        let mut reported = 0;
        for k in ids_to_check(n) {
            if reported >= 3 {
                break;
            }
            let ms = &mt.samples[k as usize - 1];
            let before = out.len();
            match p.read_sample(t, k) {
                SampleOutcome::Some(s) => {
                    let big = ms.payload.len() > (8 << 20);
                    if s.bytes.len() as u64 != ms.payload.len() {
                        out.push(Violation::new(prop, "sample_bytes", "what=length".to_string(),
                            format!("track {t} sample {k}: {} bytes read, {} written", s.bytes.len(), ms.payload.len())));
                    } else if (full_bytes || !big) && !ms.payload.matches(&s.bytes) {
                        out.push(Violation::new(prop, "sample_bytes", "what=content".to_string(),
                            format!("track {t} sample {k} of {n}: bytes differ (len {})", s.bytes.len())));
                    }
                    if s.duration != ms.duration {
                        out.push(Violation::new(prop, "sample_duration", String::new(),
                            format!("track {t} sample {k}: duration {} read, {} written", s.duration, ms.duration)));
                    }
                    if s.rendering_offset != ms.offset {
                        out.push(Violation::new(prop, "sample_rendering_offset", String::new(),
                            format!("track {t} sample {k}: offset {} read, {} written", s.rendering_offset, ms.offset)));
                    }
                    if s.is_sync != ms.sync {
                        out.push(Violation::new(prop, "sample_sync", format!("written={}", ms.sync),
                            format!("track {t} sample {k}: is_sync {} read, {} written", s.is_sync, ms.sync)));
                    }
                    if s.start_time != mt.starts[k as usize - 1] {
                        out.push(Violation::new(prop, "sample_start_time", String::new(),
                            format!("track {t} sample {k}: start {} read, {} expected", s.start_time, mt.starts[k as usize - 1])));
                    }
                }
                SampleOutcome::Panic(pi) => {
                    out.push(Violation::new(prop, "readback_panic", format!("api=read_sample {}", pi.discriminator()), pi.location));
                }
                other => {
                    out.push(Violation::new(prop, "sample_missing", format!("got={}", other.class()),
                        format!("track {t} ({kind}) sample {k} of {n} did not read back")));
                }
            }
            if out.len() > before {
                reported += 1;
            }
        }
        for k in [n.wrapping_add(1), n.wrapping_add(2), u32::MAX, 0] {
            if k >= 1 && k <= n {
                continue;
            }
            match p.read_sample(t, k) {
                SampleOutcome::Some(_) => {
                    out.push(Violation::new(prop, "sample_past_end", format!("id_class={}", if k == 0 { "zero" } else if k == u32::MAX { "max" } else { "count_plus" }),
                        format!("track {t} has {n} samples but read_sample({k}) returned a sample")));
                }
                SampleOutcome::Panic(pi) => {
                    out.push(Violation::new(prop, "readback_panic", format!("api=read_sample_past_end {}", pi.discriminator()), pi.location));
                }
                _ => {}
            }
        }
    }
    // Second pass on the same reader with the tracks taken in turn: what a sample reads back as
    // must not depend on which track was read before it. Only when the first pass was clean.
    if out.len() == clean_mark && model.tracks.len() >= 2 {
        let rounds = model.tracks.iter().map(|t| t.samples.len()).max().unwrap_or(0).min(6) as u32;
        'turns: for k in 1..=rounds {
            for (ti, mt) in model.tracks.iter().enumerate() {
                let t = ti as u32 + 1;
                if k as usize > mt.samples.len() {
                    continue;
                }
                let ms = &mt.samples[k as usize - 1];
                if ms.payload.len() > (1 << 20) {
                    continue;
                }
                if let SampleOutcome::Some(s) = p.read_sample(t, k) {
                    if s.bytes.len() as u64 != ms.payload.len() || !ms.payload.matches(&s.bytes) || s.start_time != mt.starts[k as usize - 1] {
                        out.push(Violation::new(prop, "sample_bytes", "what=content order=tracks_in_turn".to_string(),
                            format!("track {t} sample {k}: reads back correctly track by track, differently when the tracks are read in turn")));
                        break 'turns;
                    }
                }
            }
        }
    }
}

pub fn describe_results(run: &MuxRun) -> Vec<String> {
    run.results.iter().map(|r| r.code()).collect()
}

pub fn any_panic(run: &MuxRun) -> Option<(usize, crate::panicx::PanicInfo)> {
    run.results.iter().enumerate().find_map(|(i, r)| match r {
        CallResult::Panic(p) => Some((i, p.clone())),
        _ => None,
    })
}
