//! Process seam, in-process half: every library call runs under `guard`, which converts a
//! panic into a value carrying the message, the source location and the innermost `mp4::`
//! function on the stack (resolved once per distinct location and cached).

use std::cell::RefCell;
use std::collections::HashMap;
use std::panic::{self, AssertUnwindSafe};

#[derive(Clone, Debug)]
pub struct PanicInfo {
    pub msg: String,
    pub location: String,
    pub func: String,
}

impl PanicInfo {
    /// Discriminator used in violation signatures: function + normalised message (no line
    /// numbers, no concrete values), so that it survives unrelated edits.
    pub fn discriminator(&self) -> String {
        format!("fn={} msg={}", self.func, normalise(&self.msg))
    }
}

pub fn normalise(msg: &str) -> String {
    // strip digits runs -> '#', cut at 80 chars
    let mut out = String::new();
    let mut last_hash = false;
    for c in msg.chars() {
        if c.is_ascii_digit() {
            if !last_hash {
                out.push('#');
                last_hash = true;
            }
        } else {
            last_hash = false;
            out.push(if c == '\n' { ' ' } else { c });
        }
        if out.len() >= 80 {
            break;
        }
    }
    out
}

thread_local! {
    static LAST: RefCell<Option<PanicInfo>> = const { RefCell::new(None) };
    static FUNC_CACHE: RefCell<HashMap<String, String>> = RefCell::new(HashMap::new());
    static ARMED: RefCell<bool> = const { RefCell::new(false) };
}

fn innermost_mp4_frame() -> String {
    let bt = std::backtrace::Backtrace::force_capture();
    let s = format!("{bt}");
    if std::env::var("MP4SIM_DEBUG_BT").is_ok() {
        eprintln!("{s}");
    }
    frame_from_backtrace(&s)
}

/// The innermost frame whose source file lies under /repo/src: "<file>::<function>".
/// (With line-table debug info frame names carry no module path, so the file supplies it.)
pub fn frame_from_backtrace(s: &str) -> String {
    let lines: Vec<&str> = s.lines().collect();
    for i in 0..lines.len() {
        let t = lines[i].trim_start();
        let Some((idx, rest)) = t.split_once(": ") else { continue };
        if !idx.chars().all(|c| c.is_ascii_digit()) || idx.is_empty() {
            continue;
        }
        let Some(at) = lines.get(i + 1).map(|l| l.trim_start()) else { continue };
        let Some(path) = at.strip_prefix("at ") else { continue };
        let Some(p) = path.find("/repo/src/") else { continue };
        let file = &path[p + "/repo/src/".len()..];
        let file = file.split(':').next().unwrap_or(file);
        let mut name = rest.trim().to_string();
        if let Some(g) = name.find('<') {
            if g > 0 {
                name.truncate(g);
            }
        }
        if let Some(h) = name.rfind("::h") {
            if name.len() - h == 19 {
                name.truncate(h);
            }
        }
        let name = name.rsplit("::").next().unwrap_or(&name).to_string();
        return format!("{file}::{name}");
    }
    "?".to_string()
}

pub fn install_hook() {
    panic::set_hook(Box::new(|info| {
        let armed = ARMED.with(|a| *a.borrow());
        let msg = if let Some(s) = info.payload().downcast_ref::<&str>() {
            s.to_string()
        } else if let Some(s) = info.payload().downcast_ref::<String>() {
            s.clone()
        } else {
            "<non-string panic>".to_string()
        };
        let location = info
            .location()
            .map(|l| format!("{}:{}", l.file(), l.line()))
            .unwrap_or_else(|| "?".into());
        if !armed {
            // A panic outside guard() is a harness bug: make it loud.
            eprintln!("HARNESS PANIC at {location}: {msg}");
            eprintln!("{}", std::backtrace::Backtrace::force_capture());
            return;
        }
        let prev = crate::alloc::suspend();
        let key = format!("{location}|{}", normalise(&msg));
        let func = FUNC_CACHE.with(|c| {
            let mut c = c.borrow_mut();
            if let Some(f) = c.get(&key) {
                f.clone()
            } else {
                let f = innermost_mp4_frame();
                c.insert(key, f.clone());
                f
            }
        });
        LAST.with(|l| *l.borrow_mut() = Some(PanicInfo { msg, location, func }));
        crate::alloc::resume(prev);
    }));
}

/// Run `f`; a panic inside becomes `Err(PanicInfo)`.
pub fn guard<T>(f: impl FnOnce() -> T) -> Result<T, PanicInfo> {
    ARMED.with(|a| *a.borrow_mut() = true);
    let r = panic::catch_unwind(AssertUnwindSafe(f));
    ARMED.with(|a| *a.borrow_mut() = false);
    match r {
        Ok(v) => Ok(v),
        Err(_) => Err(LAST.with(|l| l.borrow_mut().take()).unwrap_or(PanicInfo {
            msg: "<unknown>".into(),
            location: "?".into(),
            func: "?".into(),
        })),
    }
}
