//! Mode A: clean mux -> simulated disk -> demux. Shared by C01, C02, C14 (and by C17 for
//! histories in which every call succeeded).

use crate::indep::{self, IMovie};
use crate::model::{check_readback, Model};
use crate::mux::{run_mux, CallResult, MuxRun};
use crate::prng::mix;
use crate::scenario::*;
use crate::simdisk::{Chunking, Sim, SimDisk, SimRef};
use crate::stats::{hash_str, Stats};
use crate::verdict::Violation;

pub struct MuxOutput {
    pub sim: SimRef,
    pub run: MuxRun,
}

/// The sink before muxing: empty, or holding an older file (a repeating 251-byte pattern that
/// contains no zero byte, so leftover bytes are never mistaken for a zero-size box or padding).
pub fn initial_disk(sc: &MuxScenario) -> SimDisk {
    if sc.preexisting == 0 {
        return SimDisk::new();
    }
    let n = sc.preexisting.min(1 << 20) as usize;
    let v: Vec<u8> = (0..n).map(|i| 1 + (i % 251) as u8).collect();
    SimDisk::from_bytes(v)
}

/// End of the bytes the muxer produced (not of the sink, which may be longer).
pub fn output_end(outp: &MuxOutput) -> u64 {
    outp.run.end_pos.unwrap_or_else(|| outp.sim.borrow().disk.len())
}

/// Hand the scenario's transient sink fault (single call or short outage, aimed by global
/// stream-call number or at a stream call of one API call) to the simulator.
pub fn plan_faults(sc: &MuxScenario, sim: &mut Sim) {
    let Some((seq, f)) = sc.fault else { return };
    let len = sc.fault_len.max(1);
    match sc.fault_api {
        Some((api, nth)) => sim.plan_api = Some((api, nth, f, len)),
        None => {
            for i in 0..len as u64 {
                sim.plan.push((seq + i, f));
            }
        }
    }
}

pub fn execute(sc: &MuxScenario, skip: Option<&[bool]>, st: &mut Stats) -> MuxOutput {
    let sim = Sim::shared(initial_disk(sc));
    sim.borrow_mut().set_transparent(sc.io.chunking, sc.io.intr_ppm, sc.io.io_seed);
    plan_faults(sc, &mut sim.borrow_mut());
    let run = run_mux(sc, &sim, skip);
    // a planned fault that never fired must not fire during the read-back
    sim.borrow_mut().plan.clear();
    sim.borrow_mut().plan_api = None;
    {
        let s = sim.borrow();
        st.case_digest = mix(st.case_digest, s.digest);
        st.case_digest = mix(st.case_digest, s.disk.digest());
    }
    for r in &run.results {
        st.case_digest = mix(st.case_digest, hash_str(&r.code()));
    }
    // a write_end that failed (sink fault) followed by further calls of the same history
    let mut failed_end = false;
    for (i, op) in sc.ops.iter().enumerate() {
        if let (Op::End, Some(res)) = (op, run.results.get(i + 1)) {
            match res {
                CallResult::Err(_) => failed_end = true,
                CallResult::Ok if failed_end => st.inc("probe.write_end_retried_after_failure"),
                _ => {}
            }
        }
    }
    if failed_end {
        st.inc("probe.write_end_failed");
    }
    if sc.cfg.timescale >= u32::MAX - 2
        && sc.ops.iter().zip(run.results[1..].iter()).any(|(op, r)| matches!(op, Op::Write { s, .. } if s.duration >= u32::MAX - 1) && matches!(r, CallResult::Err(_)))
    {
        st.inc("probe.sample_refused_near_duration_overflow");
    }
    // fat-chunk history: one track holds more than 4 MiB of Stamp samples (its chunk stays open
    // because their durations are far below a second) while other tracks are written too
    {
        let mut per_track: std::collections::BTreeMap<u32, u64> = Default::default();
        for op in &sc.ops {
            if let Op::Write { track_id, s } = op {
                if let Payload::Stamp { len, .. } = s.payload {
                    if len >= 500_000 {
                        *per_track.entry(*track_id).or_default() += len as u64;
                    }
                }
            }
        }
        if per_track.values().any(|b| *b > (4 << 20)) && sc.track_count() > 1 {
            st.inc("probe.fat_chunk_history");
        }
    }
    if sc.ops.iter().zip(run.results[1..].iter()).any(|(op, r)| matches!(op, Op::AddTrack(_)) && matches!(r, CallResult::Err(_))) {
        st.inc("probe.rejected_add_track");
    }
    MuxOutput { sim, run }
}

/// Violations for calls that panicked, and for a history whose calls were all accepted but
/// whose write_end failed.
pub fn check_calls(prop: &str, sc: &MuxScenario, run: &MuxRun, out: &mut Vec<Violation>) -> bool {
    for (i, r) in run.results.iter().enumerate() {
        if let CallResult::Panic(p) = r {
            let api = if i == 0 {
                "write_start"
            } else {
                match &sc.ops[i - 1] {
                    Op::AddTrack(_) => "add_track",
                    Op::Write { .. } => "write_sample",
                    Op::End => "write_end",
                }
            };
            out.push(Violation::new(prop, "mux_panic", format!("api={api} {}", p.discriminator()), format!("{} at {}", p.msg, p.location)));
            return false;
        }
    }
    if !run.results[0].is_ok() {
        if let CallResult::Err(e) = &run.results[0] {
            if e.variant != "IoError" {
                out.push(Violation::new(prop, "write_start_failed", format!("err={}", e.short()), e.msg.clone()));
            }
        }
        return false;
    }
    if let Some(last) = run.results.iter().rev().find(|r| !matches!(r, CallResult::NotRun)) {
        if let CallResult::Err(e) = last {
            // a write_end that fails because the sink failed is the sink's fault, not a verdict
            let injected = e.variant == "IoError";
            if !injected {
                out.push(Violation::new(prop, "write_end_failed", format!("err={}", e.short()), e.msg.clone()));
            }
            return false;
        }
    }
    run.ended_ok
}

pub fn rejected_mask(run: &MuxRun) -> Option<Vec<bool>> {
    let m: Vec<bool> = run.results[1..].iter().map(|r| matches!(r, CallResult::Err(_))).collect();
    if m.iter().any(|x| *x) {
        Some(m)
    } else {
        None
    }
}

/// "Calls the muxer rejects leave no trace": same history without them gives the same bytes.
pub fn check_no_trace(prop: &str, sc: &MuxScenario, outp: &MuxOutput, st: &mut Stats, out: &mut Vec<Violation>) {
    let Some(mask) = rejected_mask(&outp.run) else { return };
    if outp.sim.borrow().last_hard.is_some() {
        // a sink fault may leave partial bytes inside mdat that no table refers to: "no trace"
        // is then judged by what reads back (the model excludes the failed call), not bytewise
        st.inc("probe.rejected_by_sink_fault");
        return;
    }
    st.inc("probe.rejected_call_present");
    // a rejected call between two accepted ones
    let acc: Vec<bool> = outp.run.results[1..].iter().map(|r| r.is_ok()).collect();
    let mut between = false;
    for i in 0..mask.len() {
        if mask[i] && acc[..i].iter().any(|a| *a) && acc[i + 1..].iter().any(|a| *a) {
            between = true;
        }
    }
    st.probe("probe.rejected_between_accepted", between);
    let mut scratch = Stats::default();
    let clean = execute(sc, Some(&mask), &mut scratch);
    let a = outp.sim.borrow();
    let b = clean.sim.borrow();
    if !a.disk.same_content(&b.disk) {
        let kinds: Vec<&str> = sc
            .ops
            .iter()
            .zip(mask.iter())
            .filter(|(_, m)| **m)
            .map(|(o, _)| match o {
                Op::AddTrack(_) => "add_track",
                Op::Write { .. } => "write_sample",
                Op::End => "write_end",
            })
            .collect();
        out.push(Violation::new(
            prop,
            "rejected_call_left_trace",
            format!("rejected={}", kinds.first().copied().unwrap_or("?")),
            format!("output differs from the same history without its {} rejected call(s): {} vs {} bytes", kinds.len(), a.disk.len(), b.disk.len()),
        ));
    }
}

fn lg(n: u64) -> u64 {
    64 - n.leading_zeros() as u64
}

/// Table-shape signature of a muxed movie + reach probes (evaluated on the output by `indep`).
pub fn shape_and_probes(m: &IMovie, sc: &MuxScenario, st: &mut Stats) {
    let mut h = mix(0xA11CE, m.tracks.len() as u64);
    h = mix(h, m.mvhd_version as u64);
    h = mix(h, m.mdat_large.iter().any(|x| *x) as u64);
    let mut any_fixed_to_var = false;
    for t in &m.tracks {
        let kind = match &t.entry.fourcc {
            b"avc1" => 1,
            b"hev1" => 2,
            b"vp09" => 3,
            b"mp4a" => 4,
            b"tx3g" => 5,
            _ => 6,
        };
        let stsz_mode = if t.stsz_count == 0 {
            0
        } else if t.stsz_sample_size != 0 {
            1
        } else {
            2
        };
        let ctts_state = match &t.ctts {
            None => 0,
            Some((_, e)) if e.first().map(|x| x.1 == 0).unwrap_or(false) && e.len() > 1 => 1, // late, back-filled
            Some(_) => 2,
        };
        let stss_state = match &t.stss {
            None => 0,
            Some(s) if s.is_empty() => 1,
            Some(s) if s.len() as u32 == t.stsz_count => 3,
            Some(_) => 2,
        };
        let max_spc = t.stsc.iter().map(|e| e.1).max().unwrap_or(0);
        h = mix(h, kind);
        h = mix(h, stsz_mode);
        h = mix(h, lg(t.stts.len() as u64));
        h = mix(h, ctts_state);
        h = mix(h, stss_state);
        h = mix(h, lg(t.stsc.len() as u64));
        h = mix(h, lg(max_spc as u64));
        h = mix(h, t.is_co64 as u64);
        h = mix(h, ((t.tkhd_version as u64) << 1) | t.mdhd_version as u64);
        // probes
        st.probe("probe.stsz_variable", stsz_mode == 2);
        st.probe("probe.stsz_fixed", stsz_mode == 1);
        if stsz_mode == 2 && t.stsz_sizes.len() >= 2 && t.stsz_sizes[0] != 0 && t.stsz_sizes[0] == t.stsz_sizes[1] {
            any_fixed_to_var = true;
        }
        st.probe("probe.first_sample_size_zero", t.stsz_count > 0 && t.size_of(1) == Some(0));
        st.probe("probe.ctts_late_backfill", ctts_state == 1);
        st.probe("probe.ctts_absent", ctts_state == 0 && t.stsz_count > 0);
        st.probe("probe.stss_absent", stss_state == 0 && t.stsz_count > 0);
        st.probe("probe.stss_empty", stss_state == 1);
        st.probe("probe.stss_partial", stss_state == 2);
        st.probe("probe.stss_complete", stss_state == 3);
        st.probe("probe.stsc_three_runs", t.stsc.len() >= 3);
        st.probe("probe.chunk_with_two_samples", max_spc >= 2);
        st.probe("probe.co64_kept", t.is_co64);
        st.probe("probe.header_version1", t.tkhd_version == 1 || t.mdhd_version == 1);
        st.probe("probe.zero_sample_track", t.stsz_count == 0);
        if let Ok(ch) = t.chunks() {
            st.probe("probe.stsc_merged_chunks", ch.len() > t.stsc.len());
            st.probe("probe.zero_length_chunk", ch.iter().any(|c| c.bytes == 0 && c.nsamples > 0));
        }
    }
    st.probe("probe.fixed_to_variable_stsz_switch", any_fixed_to_var);
    st.probe("probe.three_tracks", m.tracks.len() >= 3);
    st.probe("probe.mdat_largesize", m.mdat_large.iter().any(|x| *x));
    st.probe("probe.mvhd_version1", m.mvhd_version == 1);
    st.probe("probe.transparent_io_faults", sc.io.chunking != Chunking::Full || sc.io.intr_ppm > 0);
    st.probe("probe.sink_starts_at_nonzero_position", sc.start_pos > 0);
    st.probe("probe.sink_holds_older_longer_file", sc.preexisting > 0);
    st.probe("probe.transient_sink_fault_planned", sc.fault.is_some());
    st.distinct.insert(h);
}

/// C02: the relations an independent decoder must find in the muxer's output.
pub fn check_structure(prop: &str, m: &IMovie, model: &Model, file_end: u64, out: &mut Vec<Violation>) {
    let v = |out: &mut Vec<Violation>, inv: &str, disc: String, detail: String| {
        out.push(Violation::new(prop, inv, disc, detail));
    };
    if m.top.last().map(|b| b.end()) != Some(file_end) {
        v(out, "top_level_tiling", "end".into(), "top-level boxes do not end at the end of the output".into());
    }
    if m.mdat.is_empty() {
        v(out, "missing_box", "mdat".into(), "no media data box".into());
    }
    if m.tracks.len() != model.tracks.len() {
        v(out, "track_count", format!("got={} want={}", m.tracks.len(), model.tracks.len()), "number of trak boxes differs from tracks added".into());
        return;
    }
    if m.timescale != model.cfg.timescale {
        v(out, "movie_timescale", String::new(), format!("mvhd timescale {} != configured {}", m.timescale, model.cfg.timescale));
    }
    let mut all_chunks: Vec<(u64, u64, usize)> = Vec::new();
    // exact rational of the longest track: (num, den) = (sum * T_movie, T_track)
    let mut longest: Option<(u128, u128)> = None;
    for (i, (t, mt)) in m.tracks.iter().zip(model.tracks.iter()).enumerate() {
        let kind = mt.cfg.kind.name();
        let n = mt.samples.len() as u64;
        if t.track_id != i as u32 + 1 {
            v(out, "track_id", String::new(), format!("trak #{i} has track_id {}", t.track_id));
        }
        if t.entry_count != 1 {
            v(out, "stsd_count", String::new(), format!("stsd entry_count {}", t.entry_count));
        }
        let stts_n: u64 = t.stts.iter().map(|e| e.0 as u64).sum();
        if stts_n != n {
            v(out, "table_totals", "table=stts".to_string(), format!("track {}: stts covers {stts_n} samples, {n} written", i + 1));
        }
        if t.stsz_count as u64 != n {
            v(out, "table_totals", "table=stsz".to_string(), format!("track {}: stsz count {}, {n} written", i + 1, t.stsz_count));
        }
        if t.stsz_sample_size == 0 && t.stsz_sizes.len() as u64 != t.stsz_count as u64 {
            v(out, "table_totals", "table=stsz_entries".to_string(), format!("track {}: stsz count {} but {} entries", i + 1, t.stsz_count, t.stsz_sizes.len()));
        }
        if let Some((_, c)) = &t.ctts {
            let cn: u64 = c.iter().map(|e| e.0 as u64).sum();
            if cn != n {
                v(out, "table_totals", "table=ctts".to_string(), format!("track {}: ctts covers {cn} samples, {n} written", i + 1));
            }
        }
        if let Some(s) = &t.stss {
            let mut prev = 0u32;
            for x in s {
                if *x <= prev || *x as u64 > n {
                    v(out, "stss_order_range", String::new(), format!("track {}: stss entry {x} after {prev}, {n} samples", i + 1));
                    break;
                }
                prev = *x;
            }
        }
        match t.chunks() {
            Err((inv, d)) => v(out, inv, String::new(), format!("track {} ({kind}): {d}", i + 1)),
            Ok(ch) => {
                let cn: u64 = ch.iter().map(|c| c.nsamples as u64).sum();
                if cn != n {
                    v(out, "table_totals", "table=stsc".to_string(), format!("track {}: chunk map covers {cn} samples, {n} written", i + 1));
                }
                for c in &ch {
                    let end = c.offset.checked_add(c.bytes);
                    let inside = match end {
                        Some(e) => m.mdat.iter().any(|(a, b)| c.offset >= *a && e <= *b),
                        None => false,
                    };
                    if !inside {
                        v(out, "chunk_outside_mdat", String::new(), format!("track {}: chunk at {} (+{}) not inside any mdat payload {:?}", i + 1, c.offset, c.bytes, m.mdat));
                        break;
                    }
                    if c.bytes > 0 {
                        all_chunks.push((c.offset, c.offset + c.bytes, i));
                    }
                }
            }
        }
        let media_sum: u64 = t.stts.iter().map(|e| e.0 as u64 * e.1 as u64).sum();
        if t.mdhd_duration != media_sum {
            v(out, "mdhd_duration", format!("version={}", t.mdhd_version), format!("track {}: mdhd duration {} != summed sample durations {media_sum}", i + 1, t.mdhd_duration));
        }
        if t.timescale != mt.cfg.timescale {
            v(out, "track_timescale", String::new(), format!("track {}: mdhd timescale {} != configured {}", i + 1, t.timescale, mt.cfg.timescale));
        }
        // |tkhd - sum*Tm/Tt| <= 1  <=>  |tkhd*Tt - sum*Tm| <= Tt
        let tt = t.timescale as u128;
        if tt > 0 {
            let lhs = t.tkhd_duration as u128 * tt;
            let rhs = media_sum as u128 * m.timescale as u128;
            if lhs.abs_diff(rhs) > tt {
                v(out, "tkhd_duration", format!("version={}", t.tkhd_version), format!("track {}: tkhd duration {} but {media_sum} ticks @{} are {:.3} movie ticks @{}", i + 1, t.tkhd_duration, t.timescale, rhs as f64 / tt as f64, m.timescale));
            }
            let better = match longest {
                None => true,
                Some((n0, d0)) => rhs * d0 > n0 * tt,
            };
            if better {
                longest = Some((rhs, tt));
            }
        }
    }
    match longest {
        None => {
            if m.duration != 0 {
                v(out, "mvhd_duration", format!("version={}", m.mvhd_version), format!("movie without tracks has duration {}", m.duration));
            }
        }
        Some((num, den)) => {
            if (m.duration as u128 * den).abs_diff(num) > den {
                v(out, "mvhd_duration", format!("version={}", m.mvhd_version), format!("mvhd duration {} but the longest track lasts {:.3} movie ticks", m.duration, num as f64 / den as f64));
            }
        }
    }
    all_chunks.sort_unstable();
    for w in all_chunks.windows(2) {
        if w[1].0 < w[0].1 {
            v(out, "chunks_overlap", String::new(), format!("chunk [{}, {}) of track {} overlaps chunk [{}, {}) of track {}", w[0].0, w[0].1, w[0].2 + 1, w[1].0, w[1].1, w[1].2 + 1));
            break;
        }
    }
}

pub fn parse_output(outp: &MuxOutput, sc: &MuxScenario) -> Result<IMovie, indep::PErr> {
    let end = output_end(outp);
    let s = outp.sim.borrow();
    indep::parse(&s.disk, sc.start_pos, end)
}

/// C01 evaluation.
pub fn eval_c01(prop: &str, sc: &MuxScenario, st: &mut Stats) -> Vec<Violation> {
    let mut out = Vec::new();
    let outp = execute(sc, None, st);
    let finished = check_calls(prop, sc, &outp.run, &mut out);
    if finished {
        let model = Model::build(prop, sc, &outp.run, &mut out);
        check_readback(prop, &outp.sim, sc.start_pos, output_end(&outp), &model, true, &mut out);
        check_no_trace(prop, sc, &outp, st, &mut out);
        match parse_output(&outp, sc) {
            Ok(m) => shape_and_probes(&m, sc, st),
            Err(_) => st.inc("indep_parse_failed"),
        }
        st.add("samples_written", model.tracks.iter().map(|t| t.samples.len() as u64).sum());
    }
    st.absorb_sim(&outp.sim.borrow());
    out
}

/// C02 evaluation: only the independent parser is consulted.
pub fn eval_c02(prop: &str, sc: &MuxScenario, st: &mut Stats) -> Vec<Violation> {
    let mut out = Vec::new();
    let outp = execute(sc, None, st);
    // C02 speaks about "every file the muxer produces": panics / failed write_end are not its
    // business (C01/C17 report them), so they only end the case here.
    let mut scratch = Vec::new();
    let finished = check_calls(prop, sc, &outp.run, &mut scratch);
    if finished {
        let model = Model::build(prop, sc, &outp.run, &mut scratch);
        match parse_output(&outp, sc) {
            Ok(m) => {
                let end = output_end(&outp);
                check_structure(prop, &m, &model, end, &mut out);
                shape_and_probes(&m, sc, st);
            }
            Err((inv, d)) => out.push(Violation::new(prop, inv, "parse".to_string(), d)),
        }
    } else {
        st.inc("history_not_finished");
    }
    st.absorb_sim(&outp.sim.borrow());
    out
}

// -------------------------------------------------------------------------------------------
// shrinking of muxing histories
// -------------------------------------------------------------------------------------------

fn drop_track(sc: &MuxScenario, k: u32) -> MuxScenario {
    // k is 1-based index among AddTrack ops
    let mut ops = Vec::new();
    let mut seen = 0u32;
    let total = sc.track_count() as u32;
    for op in &sc.ops {
        match op {
            Op::AddTrack(_) => {
                seen += 1;
                if seen != k {
                    ops.push(op.clone());
                }
            }
            Op::Write { track_id, s } => {
                if *track_id == k {
                    continue;
                }
                let nid = if *track_id > k && *track_id <= total { *track_id - 1 } else { *track_id };
                ops.push(Op::Write { track_id: nid, s: s.clone() });
            }
            Op::End => ops.push(Op::End),
        }
    }
    MuxScenario { ops, ..sc.clone() }
}

pub fn shrink_mux(sc: &MuxScenario) -> Vec<MuxScenario> {
    let mut c: Vec<MuxScenario> = Vec::new();
    let nt = sc.track_count() as u32;
    if nt > 1 {
        for k in (1..=nt).rev() {
            c.push(drop_track(sc, k));
        }
    }
    // drop ranges of Write ops
    let widx: Vec<usize> = sc.ops.iter().enumerate().filter(|(_, o)| matches!(o, Op::Write { .. })).map(|(i, _)| i).collect();
    let n = widx.len();
    let mut size = n;
    while size >= 1 {
        let mut startk = 0;
        while startk < n {
            let endk = std::cmp::min(n, startk + size);
            if !(startk == 0 && endk == n && n == 0) {
                let drop: std::collections::HashSet<usize> = widx[startk..endk].iter().copied().collect();
                let ops: Vec<Op> = sc.ops.iter().enumerate().filter(|(i, _)| !drop.contains(i)).map(|(_, o)| o.clone()).collect();
                c.push(MuxScenario { ops, ..sc.clone() });
            }
            startk += size;
        }
        if size == 1 {
            break;
        }
        size = (size + 1) / 2;
        if c.len() > 400 {
            break;
        }
    }
    if sc.io != IoKnobs::plain() {
        c.push(MuxScenario { io: IoKnobs::plain(), ..sc.clone() });
    }
    if sc.start_pos != 0 {
        c.push(MuxScenario { start_pos: 0, ..sc.clone() });
    }
    // simplify configuration
    let simple_cfg = MovieCfg { major: *b"isom", minor: 512, compat: vec![], timescale: sc.cfg.timescale };
    if sc.cfg != simple_cfg {
        c.push(MuxScenario { cfg: simple_cfg, ..sc.clone() });
    }
    if sc.cfg.timescale != 1000 {
        let mut s2 = sc.clone();
        s2.cfg.timescale = 1000;
        c.push(s2);
    }
    for (i, op) in sc.ops.iter().enumerate() {
        match op {
            Op::AddTrack(tc) => {
                let simple = TrackCfg {
                    kind: tc.kind,
                    track_type: tc.kind.natural_track_type(),
                    timescale: tc.timescale,
                    language: "und".into(),
                    width: 0,
                    height: 0,
                    sps: vec![0, 1, 2, 3],
                    pps: vec![],
                    aac_profile: 2,
                    freq_index: 3,
                    chan_conf: 2,
                    bitrate: 0,
                };
                if *tc != simple {
                    let mut s2 = sc.clone();
                    s2.ops[i] = Op::AddTrack(simple.clone());
                    c.push(s2);
                }
                if tc.timescale != 1000 {
                    let mut s2 = sc.clone();
                    let mut t2 = tc.clone();
                    t2.timescale = 1000;
                    s2.ops[i] = Op::AddTrack(t2);
                    c.push(s2);
                }
                if tc.kind != Kind::Ttxt {
                    let mut s2 = sc.clone();
                    let mut t2 = tc.clone();
                    t2.kind = Kind::Ttxt;
                    t2.track_type = 2;
                    s2.ops[i] = Op::AddTrack(t2);
                    c.push(s2);
                }
            }
            Op::Write { track_id, s } => {
                let mut push = |f: &dyn Fn(&mut SampleW)| {
                    let mut s2 = s.clone();
                    f(&mut s2);
                    if s2 != *s {
                        let mut sc2 = sc.clone();
                        sc2.ops[i] = Op::Write { track_id: *track_id, s: s2 };
                        c.push(sc2);
                    }
                };
                // monotone simplifications only (each strictly lowers a complexity rank), so
                // that the greedy loop cannot ping-pong between two equally failing values
                push(&|x| match &mut x.payload {
                    Payload::Stamp { len, .. } if *len > 1 => *len = 1,
                    Payload::Fill { len, .. } if *len > 1 => *len = 1,
                    _ => {}
                });
                push(&|x| match &mut x.payload {
                    Payload::Stamp { len, .. } if *len == 1 => *len = 0,
                    Payload::Fill { len, .. } if *len == 1 => *len = 0,
                    _ => {}
                });
                push(&|x| {
                    if x.duration > 1000 {
                        x.duration = 1000
                    }
                });
                push(&|x| {
                    if x.duration > 1 {
                        x.duration = 1
                    }
                });
                push(&|x| {
                    if x.duration == 1 {
                        x.duration = 0
                    }
                });
                push(&|x| x.offset = 0);
                push(&|x| x.sync = true);
                push(&|x| x.start_time = 0);
            }
            Op::End => {}
        }
        if c.len() > 3000 {
            break;
        }
    }
    // a fault aimed at a stream call of write_end follows the first write_end of the shrunk
    // history; simpler fault shapes are candidates too
    for x in c.iter_mut() {
        if let Some((_, nth)) = x.fault_api {
            let end_api = x.ops.iter().position(|o| matches!(o, Op::End)).map(|i| i as u32 + 1).unwrap_or(0);
            x.fault_api = Some((end_api, nth));
        }
    }
    if sc.fault_len > 1 {
        c.push(MuxScenario { fault_len: sc.fault_len - 1, ..sc.clone() });
    }
    if let Some((api, nth)) = sc.fault_api {
        if nth > 0 {
            c.push(MuxScenario { fault_api: Some((api, nth - 1)), ..sc.clone() });
        }
    }
    c
}
