//! Generic, tolerant box-tree walker over a byte image (independent of the `mp4` crate) and
//! byte-level tree edits. Used to build seed images (packager), to locate fields for targeted
//! storage faults, and for reach probes.

use crate::indep::{be32, be64};

#[derive(Clone, Debug)]
pub struct Node {
    pub path: String,
    pub typ: [u8; 4],
    pub start: usize,
    pub hdr: usize,
    pub size: usize,
    pub depth: usize,
    /// byte range holding child boxes, if this box is a container we know
    pub kids: Option<(usize, usize)>,
    /// index of the parent node in the flat list
    pub parent: Option<usize>,
}

impl Node {
    pub fn end(&self) -> usize {
        self.start + self.size
    }
    pub fn body(&self) -> usize {
        self.start + self.hdr
    }
    pub fn is(&self, t: &[u8; 4]) -> bool {
        &self.typ == t
    }
}

fn tname(t: &[u8; 4]) -> String {
    t.iter()
        .map(|c| if c.is_ascii_alphanumeric() || *c == b' ' { *c as char } else if *c == 0xA9 { '@' } else { '?' })
        .collect()
}

/// Where the children of a box of type `t` start, relative to its body; None = leaf.
fn kids_offset(t: &[u8; 4], img: &[u8], body: usize, end: usize, parent_is_ilst: bool) -> Option<usize> {
    if parent_is_ilst {
        return Some(0);
    }
    match t {
        b"moov" | b"trak" | b"mdia" | b"minf" | b"stbl" | b"dinf" | b"udta" | b"mvex" | b"moof" | b"traf" | b"edts" | b"wave" | b"ilst" => Some(0),
        b"stsd" | b"dref" => Some(8),
        b"meta" => {
            // ISO form has a version/flags word; the QuickTime form starts with a child box
            if body + 8 <= end && &img[body + 4..body + 8] == b"hdlr" {
                Some(0)
            } else {
                Some(4)
            }
        }
        b"avc1" | b"hev1" | b"hvc1" | b"vp09" => Some(78),
        b"mp4a" => {
            if body + 10 <= end && u16::from_be_bytes([img[body + 8], img[body + 9]]) == 1 {
                Some(28 + 16)
            } else {
                Some(28)
            }
        }
        b"tx3g" => Some(38),
        _ => None,
    }
}

fn walk_into(img: &[u8], from: usize, to: usize, depth: usize, parent: Option<usize>, ppath: &str, parent_is_ilst: bool, out: &mut Vec<Node>) {
    let mut off = from;
    while off + 8 <= to && depth < 12 {
        let s32 = be32(img, off) as usize;
        let mut typ = [0u8; 4];
        typ.copy_from_slice(&img[off + 4..off + 8]);
        let (hdr, size) = if s32 == 1 {
            if off + 16 > to {
                break;
            }
            (16usize, be64(img, off + 8) as usize)
        } else if s32 == 0 {
            (8usize, to - off)
        } else {
            (8usize, s32)
        };
        if size < hdr || off.checked_add(size).map_or(true, |e| e > to) {
            break;
        }
        let path = if ppath.is_empty() { tname(&typ) } else { format!("{ppath}/{}", tname(&typ)) };
        let idx = out.len();
        let body = off + hdr;
        let end = off + size;
        let ko = kids_offset(&typ, img, body, end, parent_is_ilst);
        let kids = match ko {
            Some(k) if body + k <= end => Some((body + k, end)),
            _ => None,
        };
        out.push(Node {
            path: path.clone(),
            typ,
            start: off,
            hdr,
            size,
            depth,
            kids,
            parent,
        });
        if let Some((a, b)) = kids {
            walk_into(img, a, b, depth + 1, Some(idx), &path, &typ == b"ilst", out);
        }
        off = end;
    }
}

/// Flat pre-order list of every box that can be reached through known containers.
pub fn walk(img: &[u8]) -> Vec<Node> {
    let mut out = Vec::new();
    walk_into(img, 0, img.len(), 0, None, "", false, &mut out);
    out
}

pub fn find<'a>(nodes: &'a [Node], path: &str) -> Option<&'a Node> {
    nodes.iter().find(|n| n.path == path)
}

pub fn find_all<'a>(nodes: &'a [Node], path_suffix: &str) -> Vec<&'a Node> {
    nodes.iter().filter(|n| n.path.ends_with(path_suffix)).collect()
}

fn add_size(img: &mut [u8], n: &Node, delta: i64) {
    if n.hdr == 16 {
        let v = be64(img, n.start + 8) as i64 + delta;
        img[n.start + 8..n.start + 16].copy_from_slice(&(v as u64).to_be_bytes());
    } else {
        let v = be32(img, n.start) as i64 + delta;
        img[n.start..n.start + 4].copy_from_slice(&(v as u32).to_be_bytes());
    }
}

/// Replace `img[at..at+remove]` by `insert`, fixing the size fields of node `owner` (index into
/// `nodes`, the innermost box that contains the edit) and all its ancestors.
pub fn splice(img: &mut Vec<u8>, nodes: &[Node], owner: Option<usize>, at: usize, remove: usize, insert: &[u8]) {
    let delta = insert.len() as i64 - remove as i64;
    let mut cur = owner;
    while let Some(i) = cur {
        add_size(img, &nodes[i], delta);
        cur = nodes[i].parent;
    }
    img.splice(at..at + remove, insert.iter().copied());
}

// ---- tiny box builder ----

pub fn bx(typ: &[u8; 4], body: &[u8]) -> Vec<u8> {
    let mut v = Vec::with_capacity(8 + body.len());
    v.extend_from_slice(&((8 + body.len()) as u32).to_be_bytes());
    v.extend_from_slice(typ);
    v.extend_from_slice(body);
    v
}

/// Same box with the 64-bit size form.
pub fn bx64(typ: &[u8; 4], body: &[u8]) -> Vec<u8> {
    let mut v = Vec::with_capacity(16 + body.len());
    v.extend_from_slice(&1u32.to_be_bytes());
    v.extend_from_slice(typ);
    v.extend_from_slice(&((16 + body.len()) as u64).to_be_bytes());
    v.extend_from_slice(body);
    v
}

pub fn full(typ: &[u8; 4], version: u8, flags: u32, body: &[u8]) -> Vec<u8> {
    let mut b = Vec::with_capacity(4 + body.len());
    b.push(version);
    b.extend_from_slice(&flags.to_be_bytes()[1..]);
    b.extend_from_slice(body);
    bx(typ, &b)
}

pub fn cat(parts: &[&[u8]]) -> Vec<u8> {
    let mut v = Vec::new();
    for p in parts {
        v.extend_from_slice(p);
    }
    v
}

pub fn u32b(v: u32) -> [u8; 4] {
    v.to_be_bytes()
}
pub fn u64b(v: u64) -> [u8; 8] {
    v.to_be_bytes()
}
