//! Player client for the fault campaigns (mode E): opens an image and runs the *full accessor
//! schedule*, recording for every API call its outcome, the stream work it caused, what it
//! allocated and how long it took. C06, C07 and C08 read their verdicts out of these records.

use crate::alloc::{self, AllocReport};
use crate::corrupt::StorageFault;
use crate::panicx::{guard, normalise, PanicInfo};
use crate::simdisk::{Chunking, Sim, SimDisk, SimFile, SimRef};
use mp4::{Metadata, Mp4Box};
use std::time::Instant;

#[derive(Clone, Debug)]
pub enum Outcome {
    Ok,
    Err(String),
    Panic(PanicInfo),
}

#[derive(Clone, Debug)]
pub struct CallRec {
    pub api: &'static str,
    /// whether this API is allowed to touch the stream at all
    pub stream: bool,
    pub outcome: Outcome,
    pub ops: u64,
    pub bytes: u64,
    pub alloc: AllocReport,
    pub alloc_site: Option<(usize, String)>,
    pub micros: u64,
    pub budget_tripped: bool,
    /// length of the image the call ran against
    pub n: u64,
    /// bytes of payload returned (read_sample)
    pub returned: u64,
}

pub struct SessionCfg {
    pub measure_alloc: bool,
    /// capture a backtrace for single requests above this many bytes (0 = never)
    pub trace_above: usize,
    pub budget_ops_base: u64,
    pub budget_ops_per_byte: u64,
    pub budget_bytes_base: u64,
    pub budget_bytes_per_byte: u64,
    pub chunking: Chunking,
    pub max_tracks: usize,
    /// once a single call took longer than this, the rest of the schedule is skipped
    pub halt_after_micros: u64,
}

impl SessionCfg {
    pub fn standard() -> Self {
        SessionCfg {
            measure_alloc: false,
            trace_above: 0,
            budget_ops_base: 10_000,
            budget_ops_per_byte: 64,
            budget_bytes_base: 1 << 20,
            budget_bytes_per_byte: 64,
            chunking: Chunking::Full,
            max_tracks: 12,
            halt_after_micros: 400_000,
        }
    }
}

#[repr(C)]
struct Timespec {
    tv_sec: i64,
    tv_nsec: i64,
}
extern "C" {
    fn clock_gettime(clk_id: i32, tp: *mut Timespec) -> i32;
}

/// CPU time consumed by this process so far, in microseconds (CLOCK_PROCESS_CPUTIME_ID).
/// Used to tell a loop that burns CPU from a process that merely was not scheduled.
pub fn cpu_micros() -> u64 {
    let mut ts = Timespec { tv_sec: 0, tv_nsec: 0 };
    let r = unsafe { clock_gettime(2, &mut ts) };
    if r != 0 {
        return 0;
    }
    ts.tv_sec as u64 * 1_000_000 + ts.tv_nsec as u64 / 1000
}

pub struct Session {
    pub cfg: SessionCfg,
    pub recs: Vec<CallRec>,
    pub late: Option<(usize, StorageFault)>,
    pub late_applied: bool,
    pub halted: bool,
    /// longest length of each stream seen so far (keyed by the simulator's address)
    longest: Vec<(usize, u64)>,
    /// bytes given to the reader through another stream (the init part of a fragment reader)
    pub n_extra: u64,
    api_no: u32,
    cpu0: u64,
}

impl Session {
    pub fn new(cfg: SessionCfg, late: Option<(usize, StorageFault)>) -> Self {
        Session { cfg, recs: Vec::new(), late, late_applied: false, halted: false, longest: Vec::new(), n_extra: 0, api_no: 0, cpu0: cpu_micros() }
    }

    fn prepare(&mut self, sim: &SimRef) -> u64 {
        // storage fault between two reader calls: the file changes under the open reader
        if let Some((at, f)) = &self.late {
            if !self.late_applied && self.recs.len() >= *at {
                let mut s = sim.borrow_mut();
                let mut img = s.disk.to_vec();
                f.apply(&mut img);
                s.disk = SimDisk::from_bytes(img);
                self.late_applied = true;
            }
        }
        let mut s = sim.borrow_mut();
        // n = the bytes this reader has been given: the longest its stream has been during the
        // session (a later truncation does not shrink what was already parsed) plus, for a
        // fragment reader, the initialisation part it was derived from
        let key = std::rc::Rc::as_ptr(sim) as usize;
        let cur = s.disk.len();
        let longest = match self.longest.iter_mut().find(|(k, _)| *k == key) {
            Some((_, l)) => {
                *l = (*l).max(cur);
                *l
            }
            None => {
                self.longest.push((key, cur));
                cur
            }
        };
        let n = longest + self.n_extra;
        s.budget_ops = self.cfg.budget_ops_base + self.cfg.budget_ops_per_byte * n;
        s.budget_bytes = self.cfg.budget_bytes_base + self.cfg.budget_bytes_per_byte * n;
        s.budget_tripped = false;
        s.begin_api(self.api_no);
        self.api_no += 1;
        n
    }

    /// One library call that returns `mp4::Result<T>`.
    pub fn call<T>(&mut self, sim: &SimRef, api: &'static str, stream: bool, f: impl FnOnce() -> mp4::Result<T>) -> Option<T> {
        if self.halted {
            return None;
        }
        let n = self.prepare(sim);
        if self.cfg.measure_alloc {
            alloc::arm(self.cfg.trace_above);
        }
        let t0 = Instant::now();
        let r = guard(f);
        let mut micros = t0.elapsed().as_micros() as u64;
        if micros > 100_000 {
            // slow by the wall clock: only CPU actually burned counts (a loaded machine can
            // leave a process unscheduled for seconds). Everything else in a session costs
            // microseconds, so CPU time since the session began bounds this call's CPU time.
            let cpu = cpu_micros().saturating_sub(self.cpu0);
            micros = micros.min(cpu);
        }
        let (ar, site) = if self.cfg.measure_alloc { alloc::disarm() } else { (AllocReport::default(), None) };
        let (ops, bytes, tripped) = {
            let s = sim.borrow();
            (s.ops_in_call, s.bytes_in_call, s.budget_tripped)
        };
        let (outcome, val) = match r {
            Ok(Ok(v)) => (Outcome::Ok, Some(v)),
            Ok(Err(e)) => (Outcome::Err(normalise(&format!("{e}"))), None),
            Err(p) => (Outcome::Panic(p), None),
        };
        if micros > self.cfg.halt_after_micros {
            self.halted = true;
        }
        self.recs.push(CallRec { api, stream, outcome, ops, bytes, alloc: ar, alloc_site: site, micros, budget_tripped: tripped, n, returned: 0 });
        val
    }

    /// One infallible accessor.
    pub fn plain<T>(&mut self, sim: &SimRef, api: &'static str, f: impl FnOnce() -> T) -> Option<T> {
        self.call(sim, api, false, || Ok(f()))
    }

    fn jb<B: Mp4Box>(&mut self, sim: &SimRef, api: &'static str, b: &B) {
        self.call(sim, api, false, || b.to_json().map(|s| s.len()));
        self.call(sim, api, false, || b.summary().map(|s| s.len()));
        self.plain(sim, api, || (b.box_size(), b.box_type()));
    }
}

pub fn sample_ids(count: u32, extra: &[u32]) -> Vec<u32> {
    let mut v = vec![0u32, 1, 2, 3, count / 2, count.wrapping_sub(1), count, count.wrapping_add(1), count.wrapping_add(2), count.wrapping_add(3), 1 << 31, u32::MAX];
    v.extend_from_slice(extra);
    let mut seen = std::collections::BTreeSet::new();
    v.retain(|x| seen.insert(*x));
    v
}

/// Every public read-side call on an opened reader.
pub fn exercise(se: &mut Session, sim: &SimRef, r: &mut mp4::Mp4Reader<SimFile>, extra_ids: &[u32]) {
    se.plain(sim, "size", || r.size());
    se.plain(sim, "major_brand", || r.major_brand().value);
    se.plain(sim, "minor_version", || r.minor_version());
    se.plain(sim, "compatible_brands", || r.compatible_brands().len());
    se.plain(sim, "duration", || r.duration());
    se.plain(sim, "timescale", || r.timescale());
    se.plain(sim, "is_fragmented", || r.is_fragmented());
    se.plain(sim, "metadata", || {
        let m = r.metadata();
        (m.title().map(|t| t.len()), m.year(), m.poster().map(|p| p.len()), m.summary().map(|s| s.len()))
    });
    // JSON / summary rendering of every parsed box
    se.jb(sim, "ftyp.render", &r.ftyp);
    se.jb(sim, "moov.render", &r.moov);
    se.jb(sim, "mvhd.render", &r.moov.mvhd);
    if let Some(m) = &r.moov.meta {
        se.jb(sim, "meta.render", m);
    }
    if let Some(m) = &r.moov.mvex {
        se.jb(sim, "mvex.render", m);
        se.jb(sim, "trex.render", &m.trex);
        if let Some(h) = &m.mehd {
            se.jb(sim, "mehd.render", h);
        }
    }
    if let Some(u) = &r.moov.udta {
        se.jb(sim, "udta.render", u);
        if let Some(m) = &u.meta {
            se.jb(sim, "meta.render", m);
            if let mp4::MetaBox::Mdir { ilst: Some(i) } = m {
                se.jb(sim, "ilst.render", i);
            }
        }
    }
    for trak in r.moov.traks.iter().take(se.cfg.max_tracks) {
        se.jb(sim, "trak.render", trak);
        se.jb(sim, "tkhd.render", &trak.tkhd);
        if let Some(e) = &trak.edts {
            se.jb(sim, "edts.render", e);
            if let Some(l) = &e.elst {
                se.jb(sim, "elst.render", l);
            }
        }
        if let Some(m) = &trak.meta {
            se.jb(sim, "meta.render", m);
        }
        let mdia = &trak.mdia;
        se.jb(sim, "mdia.render", mdia);
        se.jb(sim, "mdhd.render", &mdia.mdhd);
        se.jb(sim, "hdlr.render", &mdia.hdlr);
        se.jb(sim, "minf.render", &mdia.minf);
        if let Some(b) = &mdia.minf.vmhd {
            se.jb(sim, "vmhd.render", b);
        }
        if let Some(b) = &mdia.minf.smhd {
            se.jb(sim, "smhd.render", b);
        }
        se.jb(sim, "dinf.render", &mdia.minf.dinf);
        let stbl = &mdia.minf.stbl;
        se.jb(sim, "stbl.render", stbl);
        se.jb(sim, "stsd.render", &stbl.stsd);
        if let Some(b) = &stbl.stsd.avc1 {
            se.jb(sim, "avc1.render", b);
            se.jb(sim, "avcC.render", &b.avcc);
        }
        if let Some(b) = &stbl.stsd.hev1 {
            se.jb(sim, "hev1.render", b);
            se.jb(sim, "hvcC.render", &b.hvcc);
        }
        if let Some(b) = &stbl.stsd.vp09 {
            se.jb(sim, "vp09.render", b);
            se.jb(sim, "vpcC.render", &b.vpcc);
        }
        if let Some(b) = &stbl.stsd.mp4a {
            se.jb(sim, "mp4a.render", b);
            if let Some(e) = &b.esds {
                se.jb(sim, "esds.render", e);
            }
        }
        if let Some(b) = &stbl.stsd.tx3g {
            se.jb(sim, "tx3g.render", b);
        }
        se.jb(sim, "stts.render", &stbl.stts);
        if let Some(b) = &stbl.ctts {
            se.jb(sim, "ctts.render", b);
        }
        if let Some(b) = &stbl.stss {
            se.jb(sim, "stss.render", b);
        }
        se.jb(sim, "stsc.render", &stbl.stsc);
        se.jb(sim, "stsz.render", &stbl.stsz);
        if let Some(b) = &stbl.stco {
            se.jb(sim, "stco.render", b);
        }
        if let Some(b) = &stbl.co64 {
            se.jb(sim, "co64.render", b);
        }
    }
    for moof in r.moofs.iter().take(8) {
        se.jb(sim, "moof.render", moof);
        se.jb(sim, "mfhd.render", &moof.mfhd);
        for traf in moof.trafs.iter().take(8) {
            se.jb(sim, "traf.render", traf);
            se.jb(sim, "tfhd.render", &traf.tfhd);
            if let Some(b) = &traf.tfdt {
                se.jb(sim, "tfdt.render", b);
            }
            if let Some(b) = &traf.trun {
                se.jb(sim, "trun.render", b);
            }
        }
    }
    for e in r.emsgs.iter().take(8) {
        se.jb(sim, "emsg.render", e);
    }
    // per-track accessors and sample access
    let mut ids: Vec<u32> = r.tracks().keys().copied().collect();
    ids.sort_unstable();
    ids.truncate(se.cfg.max_tracks);
    // also a track id that does not exist
    let ghost = ids.iter().max().map(|m| m.wrapping_add(1)).unwrap_or(1);
    for id in ids.iter().copied() {
        {
            let t = &r.tracks()[&id];
            se.plain(sim, "track_id", || t.track_id());
            se.call(sim, "track_type", false, || t.track_type());
            se.call(sim, "media_type", false, || t.media_type());
            se.call(sim, "box_type", false, || t.box_type());
            se.plain(sim, "width", || t.width());
            se.plain(sim, "height", || t.height());
            se.plain(sim, "frame_rate", || t.frame_rate());
            se.call(sim, "sample_freq_index", false, || t.sample_freq_index());
            se.call(sim, "channel_config", false, || t.channel_config());
            se.plain(sim, "language", || t.language().len());
            se.plain(sim, "track_timescale", || t.timescale());
            se.plain(sim, "track_duration", || t.duration());
            se.plain(sim, "bitrate", || t.bitrate());
            se.plain(sim, "track_sample_count", || t.sample_count());
            se.call(sim, "video_profile", false, || t.video_profile());
            se.call(sim, "sequence_parameter_set", false, || t.sequence_parameter_set().map(|s| s.len()));
            se.call(sim, "picture_parameter_set", false, || t.picture_parameter_set().map(|s| s.len()));
            se.call(sim, "audio_profile", false, || t.audio_profile());
            // Mp4Track::sample_offset is public as well
            se.call(sim, "track_sample_offset", false, || t.sample_offset(1));
        }
        let count = se.call(sim, "sample_count", false, || r.sample_count(id)).unwrap_or(0);
        for k in sample_ids(count, extra_ids) {
            se.call(sim, "sample_offset", false, || r.sample_offset(id, k));
            let got = se.call(sim, "read_sample", true, || r.read_sample(id, k));
            if let Some(Some(s)) = got {
                if let Some(last) = se.recs.last_mut() {
                    last.returned = s.bytes.len() as u64;
                }
            }
        }
    }
    se.call(sim, "sample_count", false, || r.sample_count(ghost));
    se.call(sim, "sample_offset", false, || r.sample_offset(ghost, 1));
    se.call(sim, "read_sample", true, || r.read_sample(ghost, 1));
}

pub struct RunSpec<'a> {
    pub image: &'a [u8],
    /// Some(l): also open `image[l..]` as a media segment against `image[..l]` as init segment
    pub split_at: Option<usize>,
    /// a differently corrupted initialisation part to open the segment against
    pub alt_init: Option<&'a [u8]>,
    pub extra_ids: &'a [u32],
}

pub fn new_sim(bytes: Vec<u8>, chunking: Chunking) -> SimRef {
    let sim = Sim::shared(SimDisk::from_bytes(bytes));
    sim.borrow_mut().set_chunking(chunking);
    sim
}

/// Open + exercise. Returns the records and the simulators (for statistics).
pub fn run_schedule(se: &mut Session, spec: &RunSpec) -> Vec<SimRef> {
    let mut sims = Vec::new();
    let sim = new_sim(spec.image.to_vec(), se.cfg.chunking);
    sims.push(sim.clone());
    let len = spec.image.len() as u64;
    let f = SimFile::new(&sim);
    let opened = se.call(&sim, "read_header", true, || mp4::Mp4Reader::read_header(f, len));
    if let Some(mut r) = opened {
        exercise(se, &sim, &mut r, spec.extra_ids);
    }
    // Embedded stream (one case in four, decided by the image itself): the same bytes behind an
    // application prefix of P bytes, the reader handed over at position P with the absolute end
    // as `size`. P is the size of a top-level box the reader skips (free / mdat / unknown) when
    // there is one of at most 1 MiB, so that "position relative to the hand-over point" and
    // "absolute position" differ by exactly one such box; otherwise 8.
    if (spec.image.len() + spec.extra_ids.len()) % 4 == 0 && !spec.image.is_empty() {
        let cands: Vec<usize> = crate::boxtree::walk(spec.image)
            .iter()
            .filter(|n| n.depth == 0 && n.size >= 8 && n.size <= (1 << 20) && !n.is(b"ftyp") && !n.is(b"moov") && !n.is(b"moof") && !n.is(b"emsg"))
            .map(|n| n.size)
            .collect();
        let p = if cands.is_empty() { 8 } else { cands[spec.image.len() / 4 % cands.len()] };
        let mut bytes = vec![0u8; p];
        bytes.extend_from_slice(spec.image);
        let end = bytes.len() as u64;
        let esim = new_sim(bytes, se.cfg.chunking);
        sims.push(esim.clone());
        let fe = SimFile::at(&esim, p as u64);
        if let Some(mut r) = se.call(&esim, "read_header(embedded)", true, || mp4::Mp4Reader::read_header(fe, end)) {
            exercise(se, &esim, &mut r, spec.extra_ids);
        }
    }
    if let Some(l) = spec.split_at {
        if l <= spec.image.len() {
            let init_bytes: Vec<u8> = match spec.alt_init {
                Some(a) => a.to_vec(),
                None => spec.image[..l].to_vec(),
            };
            let isim = new_sim(init_bytes.clone(), se.cfg.chunking);
            sims.push(isim.clone());
            let fi = SimFile::new(&isim);
            let ilen = init_bytes.len() as u64;
            if let Some(init) = se.call(&isim, "read_header(init)", true, || mp4::Mp4Reader::read_header(fi, ilen)) {
                let seg = spec.image[l..].to_vec();
                let slen = seg.len() as u64;
                let ssim = new_sim(seg, se.cfg.chunking);
                sims.push(ssim.clone());
                let fs = SimFile::new(&ssim);
                // the fragment reader carries the parsed initialisation part along
                se.n_extra = ilen;
                if let Some(mut fr) = se.call(&ssim, "read_fragment_header", true, || init.read_fragment_header(fs, slen)) {
                    exercise(se, &ssim, &mut fr, spec.extra_ids);
                }
                se.n_extra = 0;
            }
        }
    }
    sims
}
